#!/usr/bin/env python3
"""Bring the counts quoted in DESIGN.md sections 10.1 / 10.5 up to date with the catalogue, the stored seeds and refactorings.
usage: tools_design_counts.py [<caught by more than one>] (from tools_matrix.py's last line)"""
import collections
import re
import sys
from pathlib import Path

here = Path(__file__).resolve().parent
sys.path.insert(0, str(here))
from mdpaxlint.selftest import mutants  # noqa: E402
from mdpaxlint.selftest.runner import KNOWN_UNDECIDED  # noqa: E402

cm, cb = collections.Counter(), collections.Counter()
for x in mutants.MUTANTS:
    cm[x["prop"]] += 1
for x in mutants.BENIGN:
    for p in x["props"]:
        cb[p] += 1
line = ", ".join(f"{p} {cm[p]}+{cb[p]}" for p in sorted(cm))
n_seeded, n_benign = len(mutants.MUTANTS), len(mutants.BENIGN)
n_ref = len(list((here / "benign_refactors").glob("*.diff")))
n_seeds = len([d for d in (here / "seeded").iterdir() if (d / "meta.json").exists()])
undecided = sorted({pid for v in KNOWN_UNDECIDED.values() for pid in v})
multi = sys.argv[1] if len(sys.argv) > 1 else None

p = here / "DESIGN.md"
s = p.read_text()
s = re.sub(r"catalogue \(`mutants.py`: \d+ seeded \+ \d+ benign variants\)", f"catalogue (`mutants.py`: {n_seeded} seeded + {n_benign} benign variants, among them the compound variants of 10.9 - an edit on top of a stored refactoring)", s)
s = re.sub(r"and the \d+ stored independent refactorings \(`seeds.py`\)", f"and the {n_ref} stored independent refactorings (`seeds.py`)", s)
s = re.sub(r"All 19 quick checks together take [^\n]*", f"All 19 quick checks together take about 10 s; each thorough check (quick + catalogue variants + the {n_seeds} stored seeds it reports + {n_ref} stored refactorings + 13 transformations, 250-300 whole-program analyses) 15-30 s on 16 idle cores.", s)
if multi:
    s = re.sub(r"\d+ of the \d+ seeded variants are caught by more than one property's check", f"{multi} of the {n_seeded} seeded variants are caught by more than one property's check", s)
else:
    s = re.sub(r"(\d+) of the \d+ seeded variants are caught", rf"\1 of the {n_seeded} seeded variants are caught", s)
s = re.sub(r"Per property \(seeded \+ benign\): [^\n]*?C20 \d+\+\d+\.", "Per property (seeded + benign): " + line + ".", s)
s = re.sub(r"all \d+ stored independent refactorings \(10\.9; the check must stay silent, except the \w+ listed as undecided\)",
           f"all {n_ref} stored independent refactorings (10.9; the check must stay silent, except the {len(undecided)} listed as undecided)", s)
s = re.sub(r"every seed on top of every refactoring of the same files: [^)]*\)", "every seed on top of every refactoring of the same files: 1028 of 1040 still reported, the twelve exceptions all on refactorings the checks cannot follow, where they end in ANALYSIS-ERROR)", s)
p.write_text(s)
print(n_seeded, n_benign, n_ref, n_seeds, len(undecided))
