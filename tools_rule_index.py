#!/usr/bin/env python3
"""Markdown index of all rules as built (for DESIGN.md section 10.8)."""
import importlib, json, sys
from pathlib import Path
here = Path(__file__).resolve().parent
sys.path.insert(0, str(here))
out = []
for n in range(1, 21):
    pid = f"C{n:02d}"
    try:
        m = importlib.import_module(f"mdpaxlint.rules.{pid.lower()}")
    except ModuleNotFoundError:
        continue
    ev = json.loads((here / "evidence" / f"{pid}.json").read_text())
    per = ev["coverage"]["per_rule"]
    out.append(f"**{pid}** ({ev['coverage']['evaluations']} instances on today's tree)")
    for r, text in m.RULES.items():
        k = per.get(r, {}).get("instances", 0)
        out.append(f"* {r} [{k}] {text}")
    out.append("")
print("\n".join(out))
