"""Abstract interpretation of mdpax functions into terms (terms.py).

The interpreter follows calls resolved in the MRO of the class under analysis, attribute-bound
transformed functions (self.x_pmap = jax.pmap(self.f, ...)), closures, lambdas, dict-literal
dispatch and tuple (un)packing *by position*.  JAX combinators get their comprehension
semantics: vmap/pmap bind mapped arguments to Elem(arg, i) and return Lam(i, body); scan is
first tried as an identity-carry map and otherwise exposes one symbolic step of the
recurrence.  No path conditions are collected and nothing is executed."""

from __future__ import annotations

import ast
import itertools

from .classes import ClassInfo, ClassTable
from .loader import AnalysisError, Module
from .terms import (
    FALSE,
    INF,
    NONE,
    ONE,
    TRUE,
    ZERO,
    K,
    S,
    T_add,
    T_cmp,
    T_floordiv,
    T_ite,
    T_mod,
    T_mul,
    T_neg,
    T_not,
    T_pow,
    T_sub,
    T_sum,
    T_truediv,
    elem as raw_elem,
    is_num,
    occurs,
    show,
    subst,
    subterms,
)


class Unsupported(AnalysisError):
    """A construct outside the interpreter's vocabulary inside an analysed kernel."""


DEFAULT_AXES = {
    "problem.state_space": ("state", "sdim"),
    "problem.action_space": ("act", "adim"),
    "problem.random_event_space": ("ev", "edim"),
    "VALUES": ("state",),
    "POLICY": ("state", "adim"),
    "GAMMA": (),
    "EPS": (),
}
COUNT_TAGS = {
    "problem.n_states": "state",
    "problem.n_actions": "act",
    "problem.n_random_events": "ev",
}
PROBLEM_LEAVES = {
    "transition",
    "random_event_probability",
    "state_to_index",
    "initial_value",
    "initial_policy",
}
LEAF_RESULT_AXES = {"next_state": ("sdim",), "initial_policy": ("adim",)}

# library prefixes folded to one canonical spelling
CANON_PREFIX = [
    ("jax.numpy.", "np."),
    ("numpy.", "np."),
    ("jax.lax.", "lax."),
    ("jax.random.", "random."),
]
# shape / dtype / container conversions that do not change element values
TRANSPARENT = {
    "np.array", "np.asarray", "np.float64", "float", "np.squeeze",
    "np.ravel", "jax.device_put", "jax.device_get",
    "operator.index",  # the integer itself (raises for non-integers)
}
POINTWISE = {"where", "abs", "exp", "log", "clip", "minimum", "maximum", "not", "and", "or", "astype"}
REDUCERS = {"max", "min", "sum", "any", "all", "argmax", "argmin", "prod", "mean", "count_nonzero"}

_ctr = itertools.count()


def fresh(tag: str):
    return ("ix", tag, next(_ctr))


class Frame:
    __slots__ = ("owner", "module", "fn")

    def __init__(self, owner, module, fn):
        self.owner = owner  # ClassInfo or None
        self.module = module  # Module
        self.fn = fn


class _Return(Exception):
    pass


class Interp:
    def __init__(self, ct: ClassTable, cls: ClassInfo | None = None, facts=None, axes=None,
                 obj_attrs=None, max_depth: int = 16):
        self.ct = ct
        self.repo = ct.repo
        self.cls = cls
        self.attrs: dict[str, tuple] = dict(facts or {})
        self.axes = dict(DEFAULT_AXES)
        self.axes.update(axes or {})
        self.obj_attrs: dict[tuple[str, str], tuple] = dict(obj_attrs or {})
        self.leaf_calls: list[tuple[str, list, str]] = []
        self.guards: list[tuple[tuple, str, int]] = []
        self.raise_terms: dict[int, tuple] = {}
        self.unknown_calls: set[str] = set()
        self.sym_shapes: dict[str, tuple] = {}
        self.obj_class: dict[str, object] = {}  # instance name -> ClassInfo of collaborator objects built during interpretation
        self._frames: list = []
        self._owners: list = []  # defining class (None for module-level functions) of the functions being interpreted
        self.scans: list[dict] = []
        self.call_log: list[str] = []
        self.attr_writes: list[tuple[str, tuple, int]] = []
        self.stmt_calls: list[tuple[tuple, int]] = []
        self.unbatch_log: list[dict] = []
        self.depth = 0
        self.max_depth = max_depth
        self.prims = dict(PRIMS)
        self.obj_methods = dict(OBJ_METHODS)
        self.axis_sizes: dict[str, set] = {}

    # =============================================================== entry
    def call_method(self, name: str, args=(), kw=None, after: ClassInfo | None = None):
        owner, fn = self.ct.require(self.cls, name, after)
        return self.call_fn(fn, list(args), dict(kw or {}), owner, owner.module, is_method=True)

    def call_function(self, module: Module, fn: ast.FunctionDef, args=(), kw=None):
        return self.call_fn(fn, list(args), dict(kw or {}), None, module, is_method=False)

    # ---------------------------------------------------------- invocation
    def _plain_class(self, ci) -> bool:
        if ci.name.endswith(("Config", "State", "Info")) or ci.name in ("BatchProcessor",) or ci.is_dataclass():
            return False
        names = {k.name for k in self.ct.mro(ci)}
        if names & {"Solver", "Problem", "CheckpointMixin", "Exception"}:
            return False
        if any(b.split(".")[-1] in ("NamedTuple", "Protocol", "Enum", "IntEnum", "ABC", "Exception") for k in self.ct.mro(ci) for b in k.base_exprs):
            return False
        return True

    def call_fn(self, fn, args, kw, owner, module, is_method, closure_env=None, self_value=None):
        self.depth += 1
        if self.depth > self.max_depth:
            self.depth -= 1
            raise Unsupported(f"inlining depth {self.max_depth} exceeded at {getattr(fn, 'name', '<lambda>')}")
        self._owners.append(owner if not isinstance(fn, ast.Lambda) else (self._owners[-1] if self._owners else owner))
        try:
            env = dict(closure_env or {})
            env.update(self.bind(fn, args, kw, is_method, owner, module))
            fr = Frame(owner, module, fn)
            self._frames.append(fr)
            if is_method:
                env["self"] = self_value if self_value is not None else ("self",)
            if owner is not None:
                self.call_log.append(f"{owner.name}.{getattr(fn, 'name', '<lambda>')}")
            if isinstance(fn, ast.Lambda):
                return self.ev(fn.body, env, fr)
            r = self.block(fn.body, env, fr)
            return r if r is not None else NONE
        finally:
            self.depth -= 1
            self._owners.pop()
            if self._frames and self._frames[-1].fn is fn:
                self._frames.pop()

    def bind(self, fn, args, kw, is_method, owner, module):
        a = fn.args
        ps = [x.arg for x in a.posonlyargs + a.args]
        if is_method and ps and ps[0] in ("self", "cls"):
            ps = ps[1:]
        env = {}
        if len(args) > len(ps) and not a.vararg:
            raise Unsupported(f"too many positional arguments for {getattr(fn, 'name', '<lambda>')}")
        for p, v in zip(ps, args):
            env[p] = v
        if a.vararg:
            env[a.vararg.arg] = ("tuple", tuple(args[len(ps):]))
        for k, v in kw.items():
            if k in ps or k in [x.arg for x in a.kwonlyargs]:
                env[k] = v
            elif a.kwarg:
                pass
            else:
                raise Unsupported(f"unexpected keyword {k} for {getattr(fn, 'name', '<lambda>')}")
        defaults = a.defaults
        allps = [x.arg for x in a.posonlyargs + a.args]
        for p, d in zip(allps[len(allps) - len(defaults):], defaults):
            if p not in env and p not in ("self", "cls"):
                env[p] = self.ev(d, {}, Frame(owner, module, fn))
        for p, d in zip(a.kwonlyargs, a.kw_defaults):
            if p.arg not in env and d is not None:
                env[p.arg] = self.ev(d, {}, Frame(owner, module, fn))
        if a.kwarg:
            env[a.kwarg.arg] = ("kwargs", tuple(sorted((k, v) for k, v in kw.items() if k not in ps)))
        missing = [p for p in ps if p not in env]
        if missing:
            raise Unsupported(f"missing arguments {missing} for {getattr(fn, 'name', '<lambda>')}")
        return env

    def call_value(self, f, args, kw, node=None, fr=None):
        k = f[0] if isinstance(f, tuple) and f else None
        if k == "method":
            return self.call_fn(f[2], args, kw, f[1], f[1].module, True)
        if k == "func":
            return self.call_fn(f[2], args, kw, None, f[1], False)
        if k == "closure":
            _, fn, env, owner, module = f
            return self.call_fn(fn, args, kw, owner, module, False, closure_env=env)
        if k in ("vmapped", "pmapped"):
            return self.apply_map(f, args, kw)
        if k == "jit":
            return self.call_value(f[1], args, kw, node, fr)
        if k == "partial":
            return self.call_value(f[1], list(f[2]) + list(args), dict(dict(f[3]), **kw), node, fr)
        if k == "leaf":
            return self.leaf(f[1], args, node)
        if k == "mod":
            return self.call_prim(f[1], args, kw, node, fr)
        if k == "builtin":
            return self.call_builtin(f[1], args, kw, node)
        if k == "instmethod":
            return self.call_fn(f[3], args, kw, f[2], f[2].module, True, self_value=f[1])
        if k == "bound":
            return self.call_bound(f[1], f[2], args, kw, node, fr)
        if k == "objmeth":
            h = self.obj_methods.get((f[1], f[2]))
            if h is not None:
                return h(self, args, kw, node)
            return ("app", f"{f[1]}.{f[2]}", tuple(args))
        if k == "ite":
            return T_ite(f[1], self.call_value(f[2], args, kw, node, fr), self.call_value(f[3], args, kw, node, fr))
        if k == "class":
            ci = f[1]
            # a plain record (NamedTuple, or a dataclass without hand-written construction logic): fields by name and position
            is_nt = any(b.split(".")[-1] == "NamedTuple" for b in ci.base_exprs)
            is_dc = ci.is_dataclass() and "__init__" not in ci.methods and "__post_init__" not in ci.methods and not ci.bases
            if (is_nt or is_dc) and ci.fields and not ci.name.endswith(("Config", "State", "Info")):
                names = list(ci.fields)
                vals = dict(zip(names, args))
                if len(args) > len(names) or set(kw) - set(names) or set(kw) & set(vals):
                    raise Unsupported(f"record {ci.name}: constructor arguments do not match its fields")
                vals.update(kw)
                for n_ in names:
                    if n_ not in vals:
                        d = ci.fields[n_].value
                        if d is None:
                            raise Unsupported(f"record {ci.name}: field {n_} not given")
                        vals[n_] = self.ev(d, {}, Frame(ci, ci.module, None))
                return ("record", ci.name, tuple((n_, vals[n_]) for n_ in names))
            # a small collaborator class of the package (plain class with an __init__, not a solver / problem / config /
            # BatchProcessor): build an instance by interpreting its constructor
            if self._plain_class(ci):
                name = f"inst{next(_ctr)}:{ci.name}"
                self.obj_class[name] = ci
                init = self.ct.lookup(ci, "__init__")
                if init is not None:
                    self.call_fn(init[1], args, kw, init[0], init[0].module, True, self_value=("obj", name))
                elif args or kw:
                    raise Unsupported(f"{ci.name}(...) with arguments but no __init__")
                return ("obj", name)
            return ("app", "new:" + f[1].name, tuple(args) + tuple(v for _k, v in sorted(kw.items())))
        raise Unsupported(f"call of non-callable value {show(f) if isinstance(f, tuple) else f!r}"
                          + (f" at line {node.lineno}" if node is not None else ""))

    # =========================================================== statements
    def block(self, stmts, env, fr):
        for idx, s in enumerate(stmts):
            r = self.stmt(s, env, fr, stmts[idx + 1:])
            if r is not None:
                return r[0]
        return None

    def stmt(self, s, env, fr, rest):
        """Returns None to continue, or a 1-tuple (value,) when the block has returned."""
        if isinstance(s, ast.Expr):
            v = s.value
            if isinstance(v, ast.Constant):
                return None
            if isinstance(v, ast.Call):
                fsrc = ast.unparse(v.func)
                if fsrc.startswith("logger."):
                    return None
                # list building: xs.append(v) / xs.extend(vs) / xs.insert(0, v) on a local list literal
                if isinstance(v.func, ast.Attribute) and isinstance(v.func.value, ast.Name) and v.func.attr in ("append", "extend", "insert") \
                        and not v.keywords and isinstance(env.get(v.func.value.id), tuple) and env[v.func.value.id][:1] == ("tuple",):
                    cur = env[v.func.value.id]
                    if v.func.attr == "append" and len(v.args) == 1:
                        env[v.func.value.id] = ("tuple", cur[1] + (self.ev(v.args[0], env, fr),))
                        return None
                    if v.func.attr == "extend" and len(v.args) == 1:
                        more = self.ev(v.args[0], env, fr)
                        if more[0] != "tuple":
                            raise Unsupported("list.extend with a non-literal")
                        env[v.func.value.id] = ("tuple", cur[1] + more[1])
                        return None
                    if v.func.attr == "insert" and len(v.args) == 2:
                        pos = self.ev(v.args[0], env, fr)
                        if pos == ZERO:
                            env[v.func.value.id] = ("tuple", (self.ev(v.args[1], env, fr),) + cur[1])
                            return None
                    raise Unsupported(f"list mutation {fsrc} at line {s.lineno}")
                val = self.ev(v, env, fr)
                self.stmt_calls.append((val, s.lineno))
            return None
        if isinstance(s, ast.Pass):
            return None
        if isinstance(s, (ast.Import, ast.ImportFrom)):
            for a in s.names:
                base = a.name if isinstance(s, ast.Import) else f"{s.module}.{a.name}"
                env[a.asname or a.name.split(".")[0]] = ("mod", base if (a.asname or isinstance(s, ast.ImportFrom)) else a.name.split(".")[0])
            return None
        if isinstance(s, ast.Assert):
            return None
        if isinstance(s, ast.FunctionDef):
            env[s.name] = ("closure", s, env, fr.owner, fr.module)
            return None
        if isinstance(s, ast.Return):
            return (self.ev(s.value, env, fr) if s.value is not None else NONE,)
        if isinstance(s, ast.Raise):
            # best effort: the message as a term (which values it interpolates), for rules about error texts
            if isinstance(s.exc, ast.Call) and s.exc.args:
                try:
                    self.raise_terms[s.lineno] = self.ev(s.exc.args[0], env, fr)
                except Unsupported:
                    pass
            return (("raise", ast.unparse(s.exc) if s.exc else ""),)
        if isinstance(s, ast.Assign):
            v = self.ev(s.value, env, fr)
            for t in s.targets:
                self.assign(t, v, env, fr, s)
            return None
        if isinstance(s, ast.AnnAssign):
            if s.value is not None:
                self.assign(s.target, self.ev(s.value, env, fr), env, fr, s)
            return None
        if isinstance(s, ast.AugAssign):
            cur = self.ev(_as_load(s.target), env, fr)
            v = self.arith(type(s.op).__name__, cur, self.ev(s.value, env, fr))
            self.assign(s.target, v, env, fr, s)
            return None
        if isinstance(s, ast.If):
            return self.if_stmt(s, env, fr, rest)
        if isinstance(s, ast.For):
            self.for_stmt(s, env, fr)
            return None
        if isinstance(s, ast.With):
            r = self.block(s.body, env, fr)
            return (r,) if r is not None else None
        if isinstance(s, ast.Try):
            # normal-path semantics only; handlers are examined by structural rules
            r = self.block(s.body, env, fr)
            if r is not None:
                return (r,)
            if s.orelse:
                r = self.block(s.orelse, env, fr)
                if r is not None:
                    return (r,)
            if s.finalbody:
                r = self.block(s.finalbody, env, fr)
                if r is not None:
                    return (r,)
            return None
        raise Unsupported(f"statement {type(s).__name__} at line {getattr(s, 'lineno', 0)} in {getattr(fr.fn, 'name', '?')}")

    def if_stmt(self, s, env, fr, rest):
        c = self.truth(self.ev(s.test, env, fr))
        if c == TRUE:
            r = self.block(s.body, env, fr)
            return (r,) if r is not None else None
        if c == FALSE:
            r = self.block(s.orelse, env, fr)
            return (r,) if r is not None else None
        # symbolic condition: run both branches on copies and join
        a0 = dict(self.attrs)
        e1 = dict(env)
        r1 = self.block(s.body, e1, fr)
        a1 = self.attrs
        self.attrs = dict(a0)
        e2 = dict(env)
        r2 = self.block(s.orelse, e2, fr) if s.orelse else None
        a2 = self.attrs
        raises1 = r1 is not None and r1[0] == "raise"
        raises2 = r2 is not None and r2[0] == "raise"
        if raises1 and not raises2:
            self.guards.append((c, r1[1], s.lineno))
            self.attrs = a2
            env.clear(); env.update(e2)
            return (r2,) if r2 is not None else None
        if raises2 and not raises1:
            self.guards.append((T_not(c), r2[1], s.lineno))
            self.attrs = a1
            env.clear(); env.update(e1)
            return (r1,) if r1 is not None else None
        if r1 is not None and r2 is not None:
            self.attrs = self.join_maps(c, a1, a2)
            return (self.join(c, r1, r2),)
        if r1 is None and r2 is None:
            self.attrs = self.join_maps(c, a1, a2)
            joined = self.join_maps(c, e1, e2)
            env.clear(); env.update(joined)
            return None
        # exactly one branch returned: the other continues with the rest of the block
        if r1 is not None:
            self.attrs = a2
            cont_env = e2
        else:
            self.attrs = a1
            cont_env = e1
        rr = self.block(rest, cont_env, fr)
        rr = rr if rr is not None else NONE
        a_cont = self.attrs
        if r1 is not None:
            self.attrs = self.join_maps(c, a1, a_cont)
            return (self.join(c, r1, rr),)
        self.attrs = self.join_maps(c, a_cont, a2)
        return (self.join(c, rr, r2),)

    def join(self, c, a, b):
        if a == b:
            return a
        if a[0] == "tuple" and b[0] == "tuple" and len(a[1]) == len(b[1]):
            return ("tuple", tuple(self.join(c, x, y) for x, y in zip(a[1], b[1])))
        return T_ite(c, a, b)

    def join_maps(self, c, m1, m2):
        out = {}
        for k in set(m1) | set(m2):
            v1, v2 = m1.get(k), m2.get(k)
            if v1 is None or v2 is None:
                out[k] = v1 if v2 is None else v2  # defined on one side only
            elif v1 == v2 or not _is_term(v1) or not _is_term(v2):
                out[k] = v1
            else:
                out[k] = self.join(c, v1, v2)
        return out

    def truth(self, c):
        if c[0] == "const":
            v = c[1]
            if isinstance(v, bool):
                return TRUE if v else FALSE
            if v is None:
                return FALSE
            if isinstance(v, str):
                return TRUE if v else FALSE
            if is_num(c):
                return TRUE if v != 0 else FALSE
        return c

    def _is_mod(self, e, env, fr, dotted):
        try:
            v = self.ev(e, env, fr)
        except Unsupported:
            return False
        return v == ("mod", dotted)

    def for_stmt(self, s, env, fr):
        it = s.iter
        # `for a, b in itertools.product(X, Y): body` is the nested loop `for a in X: for b in Y: body`
        if isinstance(it, ast.Call) and ast.unparse(it.func).split(".")[-1] == "product" and self._is_mod(it.func, env, fr, "itertools.product") and not it.keywords \
                and isinstance(s.target, ast.Tuple) and len(s.target.elts) == len(it.args) >= 2 and not s.orelse:
            inner = s.body
            for tgt, src in reversed(list(zip(s.target.elts, it.args))):
                loop = ast.For(target=tgt, iter=src, body=inner, orelse=[], lineno=s.lineno, col_offset=s.col_offset)
                inner = [ast.copy_location(loop, s)]
            return self.for_stmt(inner[0], env, fr)
        if isinstance(it, ast.Call) and isinstance(it.func, ast.Name) and it.func.id == "range" and not it.keywords:
            rargs = [self.ev(a, env, fr) for a in it.args]
            if len(rargs) == 1:
                lo, hi = ZERO, rargs[0]
            elif len(rargs) == 2:
                lo, hi = rargs
            else:
                raise Unsupported("range with step")
            if is_num(lo) and is_num(hi) and hi[1] - lo[1] <= 16 and isinstance(s.target, ast.Name):
                for k in range(int(lo[1]), int(hi[1])):
                    env[s.target.id] = K(k)
                    r = self.block(s.body, env, fr)
                    if r is not None:
                        raise Unsupported("return inside for loop")
                return
            if not isinstance(s.target, ast.Name):
                raise Unsupported("for target")
            count = T_sub(hi, lo)
            v = ("ix", "sum", next(_ctr))
            accs = _accumulators(s.body)
            before = dict(env)
            e = dict(env)
            e[s.target.id] = T_add(v, lo)
            for a in accs:
                if a not in before:
                    raise Unsupported(f"accumulator {a} undefined before loop")
                e[a] = ZERO
            # loop-carried locals (x = f(x, ...)): one symbolic step of the fold
            folds = {}
            for name in _assigned_names(s.body):
                if name in before and name not in accs and name != s.target.id and _is_term(before[name]):
                    symname = f"FOLD{next(_ctr)}_{name}"
                    self.axes[symname] = self.axes_of(before[name])
                    shp = self.shape_of(before[name])
                    if shp is not None:
                        self.sym_shapes[symname] = shp
                    folds[name] = S(symname)
                    e[name] = folds[name]
            attrs0 = dict(self.attrs)
            r = self.block(s.body, e, fr)
            if r is not None:
                raise Unsupported("return inside for loop")
            if self.attrs != attrs0:
                raise Unsupported(f"loop at line {s.lineno} writes solver attributes")
            # other locals assigned in the body must not be used afterwards: poison them
            for name, val in e.items():
                if name in accs:
                    env[name] = T_add(before[name], ("sumover", v, count, val))
                elif name in folds:
                    env[name] = before[name] if val == folds[name] else ("fold", v, count, before[name], val, folds[name])
                elif name != s.target.id and before.get(name) != val:
                    env[name] = ("poison", name, s.lineno)
            return
        seq = self.ev(it, env, fr)
        if seq[0] == "tuple":
            for item in seq[1]:
                self.assign(s.target, item, env, fr, s)
                r = self.block(s.body, env, fr)
                if r is not None:
                    raise Unsupported("return inside for loop")
            return
        raise Unsupported(f"for loop over {ast.unparse(it)} at line {s.lineno}")

    def assign(self, t, v, env, fr, stmt):
        if isinstance(t, ast.Name):
            env[t.id] = v
        elif isinstance(t, (ast.Tuple, ast.List)):
            if v[0] != "tuple":
                n = len(t.elts)
                v = ("tuple", tuple(self.index(v, K(i)) for i in range(n)))
            if len(v[1]) != len(t.elts):
                raise Unsupported(f"unpack arity mismatch at line {stmt.lineno}")
            for tt, vv in zip(t.elts, v[1]):
                self.assign(tt, vv, env, fr, stmt)
        elif isinstance(t, ast.Attribute):
            base = self.ev(t.value, env, fr)
            if base == ("self",):
                self.attrs[t.attr] = v
                self.attr_writes.append((t.attr, v, stmt.lineno))
            elif base[0] == "obj":
                self.obj_attrs[(base[1], t.attr)] = v
            else:
                raise Unsupported(f"attribute store on {show(base)}")
        elif isinstance(t, ast.Subscript):
            base = self.ev(t.value, env, fr)
            idx = self.ev(t.slice, env, fr)
            new = ("scatter", base, idx, v)
            self.assign(_as_store(t.value), new, env, fr, stmt)
        else:
            raise Unsupported(f"assignment target {ast.unparse(t)}")

    # ========================================================== expressions
    def ev(self, e, env, fr):
        m = getattr(self, "ev_" + type(e).__name__, None)
        if m is None:
            raise Unsupported(f"expression {type(e).__name__}: {ast.unparse(e)[:80]}")
        return m(e, env, fr)

    def ev_Constant(self, e, env, fr):
        if isinstance(e.value, (int, float)) and not isinstance(e.value, bool):
            return K(e.value)
        return ("const", e.value)

    def ev_Name(self, e, env, fr):
        n = e.id
        if n in env:
            v = env[n]
            if isinstance(v, tuple) and v and v[0] == "poison":
                raise Unsupported(f"use of loop-local {v[1]} after the loop at line {v[2]}")
            return v
        m = fr.module
        if n in m.functions:
            return ("func", m, m.functions[n])
        if n in m.classes:
            ci = self.ct.by_qual.get(f"{m.name}.{n}")
            return ("class", ci) if ci else ("mod", f"{m.name}.{n}")
        if n in m.imports:
            dotted = m.imports[n]
            r = self.repo.resolve_dotted(dotted)
            if r is not None:
                rm, node = r
                if isinstance(node, ast.FunctionDef):
                    return ("func", rm, node)
                if isinstance(node, ast.ClassDef):
                    ci = self.ct.by_qual.get(f"{rm.name}.{node.name}")
                    if ci:
                        return ("class", ci)
            return ("mod", dotted)
        if n in m.globals:
            return self.ev(m.globals[n], {}, Frame(None, m, None))
        if n in BUILTINS:
            return ("builtin", n)
        raise Unsupported(f"unbound name {n} in {getattr(fr.fn, 'name', '?')}")

    def ev_Tuple(self, e, env, fr):
        items = []
        for x in e.elts:
            if isinstance(x, ast.Starred):
                v = self.ev(x.value, env, fr)
                if v[0] == "tuple":
                    items.extend(v[1])
                else:
                    items.append(("star", v))
            else:
                items.append(self.ev(x, env, fr))
        return ("tuple", tuple(items))

    ev_List = ev_Tuple

    def ev_Dict(self, e, env, fr):
        return ("dict", tuple((self.ev(k, env, fr), self.ev(v, env, fr)) for k, v in zip(e.keys, e.values)))

    def ev_Lambda(self, e, env, fr):
        return ("closure", e, env, fr.owner, fr.module)

    def ev_IfExp(self, e, env, fr):
        c = self.truth(self.ev(e.test, env, fr))
        if c == TRUE:
            return self.ev(e.body, env, fr)
        if c == FALSE:
            return self.ev(e.orelse, env, fr)
        return T_ite(c, self.ev(e.body, env, fr), self.ev(e.orelse, env, fr))

    def ev_JoinedStr(self, e, env, fr):
        parts = []
        for v in e.values:
            if isinstance(v, ast.Constant):
                parts.append(("const", v.value))
            elif isinstance(v, ast.FormattedValue):
                parts.append(self.ev(v.value, env, fr))
        if all(p[0] == "const" for p in parts):
            return ("const", "".join(str(p[1]) for p in parts))
        return ("app", "fstring", tuple(parts))

    def ev_Starred(self, e, env, fr):
        return ("star", self.ev(e.value, env, fr))

    def ev_Slice(self, e, env, fr):
        g = lambda x: self.ev(x, env, fr) if x is not None else NONE  # noqa: E731
        return ("slice", g(e.lower), g(e.upper), g(e.step))

    def ev_ListComp(self, e, env, fr):
        if len(e.generators) != 1 or e.generators[0].ifs:
            raise Unsupported("comprehension shape")
        g = e.generators[0]
        src = self.ev(g.iter, env, fr)
        if src[0] == "tuple":
            out = []
            for item in src[1]:
                e2 = dict(env)
                self.assign(g.target, item, e2, fr, e)
                out.append(self.ev(e.elt, e2, fr))
            return ("tuple", tuple(out))
        if src[0] == "zip":
            i = fresh("dim")
            e2 = dict(env)
            item = ("tuple", tuple(self.elem(a, i) for a in src[1]))
            self.assign(g.target, item, e2, fr, e)
            return ("lam", i, "dim", self.ev(e.elt, e2, fr))
        if src[0] == "app" and src[1] == "range" and len(src[2]) == 1:
            i = fresh("dim")
            e2 = dict(env)
            self.assign(g.target, i, e2, fr, e)
            return ("app", "listcomp", (src[2][0], ("lam", i, "dim", self.ev(e.elt, e2, fr))))
        ax = self.axes_of(src)
        i = fresh(ax[0] if ax else "dim")
        e2 = dict(env)
        self.assign(g.target, self.elem(src, i), e2, fr, e)
        return ("lam", i, i[1], self.ev(e.elt, e2, fr))

    ev_GeneratorExp = ev_ListComp

    def ev_BoolOp(self, e, env, fr):
        vals = [self.truth(self.ev(v, env, fr)) for v in e.values]
        if isinstance(e.op, ast.And):
            if any(v == FALSE for v in vals):
                return FALSE
            vals = [v for v in vals if v != TRUE]
            if not vals:
                return TRUE
            return vals[0] if len(vals) == 1 else ("app", "and", tuple(vals))
        if any(v == TRUE for v in vals):
            return TRUE
        vals = [v for v in vals if v != FALSE]
        if not vals:
            return FALSE
        return vals[0] if len(vals) == 1 else ("app", "or", tuple(vals))

    def ev_UnaryOp(self, e, env, fr):
        v = self.ev(e.operand, env, fr)
        if isinstance(e.op, ast.USub):
            return self.arith("Mult", K(-1), v)
        if isinstance(e.op, ast.UAdd):
            return v
        if isinstance(e.op, ast.Not):
            return T_not(self.truth(v))
        if isinstance(e.op, ast.Invert):
            return ("app", "not", (v,))
        raise Unsupported("unary op")

    def ev_BinOp(self, e, env, fr):
        a = self.ev(e.left, env, fr)
        b = self.ev(e.right, env, fr)
        return self.arith(type(e.op).__name__, a, b)

    def ev_Compare(self, e, env, fr):
        left = self.ev(e.left, env, fr)
        parts = []
        for op, comp in zip(e.ops, e.comparators):
            right = self.ev(comp, env, fr)
            parts.append(self.compare(type(op).__name__, left, right))
            left = right
        if len(parts) == 1:
            return parts[0]
        if any(p == FALSE for p in parts):
            return FALSE
        parts = [p for p in parts if p != TRUE]
        if not parts:
            return TRUE
        return parts[0] if len(parts) == 1 else ("app", "and", tuple(parts))

    def compare(self, op, a, b):
        if op in ("Is", "IsNot"):
            if b == NONE or a == NONE:
                other = a if b == NONE else b
                isnone = other == NONE
                if other[0] == "ite":
                    return ("app", "cmp" + op, (a, b))
                return K(isnone if op == "Is" else not isnone)
            return K((a == b) == (op == "Is"))
        if op in ("In", "NotIn"):
            if b[0] == "tuple" and a[0] == "const" and all(x[0] == "const" for x in b[1]):
                r = any(a == x for x in b[1])
                return K(r if op == "In" else not r)
            return ("app", "cmp" + op, (a, b))
        for x, y, swap in ((a, b, False), (b, a, True)):
            if x[0] == "lam":
                i = x[1]
                yy = self.elem(y, i) if self.shares_axis(y, x[2]) else y
                inner = self.compare(op, x[3], yy) if not swap else self.compare(op, yy, x[3])
                return ("lam", i, x[2], inner)
        return T_cmp(op, a, b)

    def ev_Attribute(self, e, env, fr):
        base = self.ev(e.value, env, fr)
        return self.getattr(base, e.attr, e, fr)

    def getattr(self, base, attr, node, fr):
        k = base[0]
        if base == ("self",):
            return self.self_attr(attr, fr)
        if k == "obj":
            key = (base[1], attr)
            if key in self.obj_attrs:
                return self.obj_attrs[key]
            oc = self.obj_class.get(base[1])
            if oc is not None:
                r = self.ct.lookup(oc, attr)
                if r is not None:
                    decs = [ast.unparse(d) for d in r[1].decorator_list]
                    if any(d.split(".")[-1] in ("property", "cached_property") for d in decs):
                        return self.call_fn(r[1], [], {}, r[0], r[0].module, True, self_value=base)
                    if "staticmethod" in decs:
                        return ("func", r[0].module, r[1])
                    return ("instmethod", base, r[0], r[1])
                ca = self.ct.class_attr(oc, attr)
                if ca is not None:
                    return self.ev(ca[1], {}, Frame(ca[0], ca[0].module, None))
                raise Unsupported(f"attribute {attr} of a {oc.name} instance is never set")
            if base[1] == "problem" and attr in PROBLEM_LEAVES:
                return ("leaf", "problem." + attr)
            if (base[1], attr) in self.obj_methods:
                return ("objmeth", base[1], attr)
            return ("sym", f"{base[1]}.{attr}")
        if k == "mod":
            if attr in ("inf", "infty", "Inf", "PINF") and base[1].split(".")[-1] in ("math", "numpy", "np", "jnp") or (base[1] + "." + attr) in ("jax.numpy.inf",):
                return INF  # math.inf / np.inf / jnp.inf are float("inf")
            return ("mod", base[1] + "." + attr)
        if k == "record":
            for n_, v_ in base[2]:
                if n_ == attr:
                    return v_
            rc = self.ct.find(base[1])
            r = self.ct.lookup(rc, attr) if rc is not None else None
            if r is not None:
                decs = [ast.unparse(d) for d in r[1].decorator_list]
                if any(d.split(".")[-1] in ("property", "cached_property") for d in decs):
                    return self.call_fn(r[1], [], {}, r[0], r[0].module, True, self_value=base)
                if "staticmethod" not in decs:
                    return ("instmethod", base, r[0], r[1])
            raise Unsupported(f"record {base[1]} has no field {attr}")
        if k == "class":
            r = self.ct.class_attr(base[1], attr)
            if r is not None:
                return self.ev(r[1], {}, Frame(base[1], base[1].module, None))
            r = self.ct.lookup(base[1], attr)
            if r is not None:
                return ("method", r[0], r[1])
            raise Unsupported(f"class attribute {base[1].name}.{attr}")
        if k == "super":
            r = self.ct.lookup(self.cls, attr, after=base[1])
            if r is None:
                raise Unsupported(f"super().{attr} unresolved")
            return ("method", r[0], r[1])
        if k == "iinfo" and attr in ("bits", "min", "max"):
            return K(_INT_LIMITS[base[1]][("bits", "min", "max").index(attr)])
        if attr == "shape":
            return ("shape", base)
        if attr == "at":
            return ("at", base)
        if attr == "T":
            return ("app", "transpose", (base,))
        if attr in ("ndim", "dtype", "size"):
            return ("app", attr, (base,))
        return ("bound", base, attr)

    def self_attr(self, name, fr):
        if name in self.attrs:
            return self.attrs[name]
        if self.cls is None:
            return ("sym", "self." + name)
        r = self.ct.lookup(self.cls, name)
        if r is not None:
            owner, fn = r
            decs = [ast.unparse(d) for d in fn.decorator_list]
            if any(d.split(".")[-1] in ("property", "cached_property") for d in decs):
                return self.call_fn(fn, [], {}, owner, owner.module, True)
            return ("method", owner, fn)
        ca = self.ct.class_attr(self.cls, name)
        if ca is not None:
            return self.ev(ca[1], {}, Frame(ca[0], ca[0].module, None))
        return ("sym", "self." + name)

    def ev_Subscript(self, e, env, fr):
        base = self.ev(e.value, env, fr)
        if base[0] == "at":
            return ("atidx", base[1], self.ev(e.slice, env, fr))
        idx = self.ev(e.slice, env, fr)
        return self.index(base, idx)

    def shape_of(self, t):
        """Static shape of an array term as a tuple of size terms, when it is evident (zeros of a literal shape, an
        accumulation into such an array, a symbol with a recorded shape); None otherwise."""
        k = t[0]
        if k == "app" and t[1] in ("zeros", "ones", "np.full") and t[2] and t[2][0][0] == "tuple":
            return tuple(t[2][0][1])
        if k == "fold":
            return self.shape_of(t[3])
        if k in ("scatter", "atadd"):
            return self.shape_of(t[1])
        if k == "sym":
            return self.sym_shapes.get(t[1])
        if k == "ite":
            a, b = self.shape_of(t[2]), self.shape_of(t[3])
            return a if a == b else None
        if k == "lam":
            sizes = self.axis_sizes.get(t[2], ())
            inner = self.shape_of(t[3]) if (t[3][0] == "lam") else ()
            if len(sizes) == 1 and inner is not None:
                return (next(iter(sizes)),) + tuple(inner)
            return None
        if k == "record":
            return None
        if k == "app" and t[1] in REDUCERS and len(t[2]) == 2 and t[2][1][0] == "kw" and t[2][1][1] == "axis" and is_num(t[2][1][2]):
            inner = self.shape_of(t[2][0])
            if inner is not None:
                ax_ = int(t[2][1][2][1])
                if -len(inner) <= ax_ < len(inner):
                    ax_ %= len(inner)
                    return tuple(inner[:ax_]) + tuple(inner[ax_ + 1:])
        return None

    def length_of(self, t, depth=0):
        """Length (size of the leading axis) of a vector term as a term, when it is evident; None otherwise."""
        if depth > 12:
            return None
        k = t[0]
        if k == "app":
            name, a = t[1], t[2]
            if name == "slice" and len(a) == 4 and a[3] == NONE:
                lo, hi = a[1], a[2]
                if lo == NONE:
                    lo = ZERO
                if hi != NONE and not (is_num(hi) and hi[1] < 0) and not (is_num(lo) and lo[1] < 0):
                    return T_sub(hi, lo)
                return None
            if name == "hstack":
                total = ZERO
                for x in a:
                    if x[0] == "kw":
                        continue
                    n = self.length_of(x, depth + 1)
                    if n is None:
                        if x[0] in ("lam", "tuple") or self.axes_of(x):
                            return None
                        n = ONE  # a scalar contributes one element
                    total = T_add(total, n)
                return total
            if name in POINTWISE or name in ("flip", "cumsum", "roll", "sort", "array", "asarray"):
                for x in a:
                    if isinstance(x, tuple) and x and x[0] != "kw":
                        n = self.length_of(x, depth + 1)
                        if n is not None:
                            return n
                return None
            if name in ("zeros", "ones") and a and a[0][0] != "tuple" and a[0][0] != "kw":
                return a[0]
            if name == "arange" and len([x for x in a if x[0] != "kw"]) == 1:
                return a[0]
        if k == "poly":
            for mono, _c in t[1]:
                for atom, _p in mono:
                    n = self.length_of(atom, depth + 1)
                    if n is not None:
                        return n
            return None
        if k == "lam":
            sizes = self.axis_sizes.get(t[2], ())
            if len(sizes) == 1:
                return next(iter(sizes))
            # a map over the positions of some vector: as long as the vectors its variable indexes
            found = set()
            for x in subterms(t[3]):
                if x[0] == "elem" and len(x[2]) == 1 and x[2][0] == t[1]:
                    n = self.length_of(x[1], depth + 1)
                    if n is not None:
                        found.add(n)
            return next(iter(found)) if len(found) == 1 else None
        if k == "ite":
            x, y = self.length_of(t[2], depth + 1), self.length_of(t[3], depth + 1)
            return x if x is not None and x == y else None
        if k == "sym":
            sh = self.sym_shapes.get(t[1])
            return sh[0] if sh else None
        dims = self.shape_of(t)
        return dims[0] if dims else None

    def index(self, base, idx):
        k = base[0]
        if k == "record" and is_num(idx):
            i = int(idx[1])
            if -len(base[2]) <= i < len(base[2]):
                return base[2][i][1]
            raise Unsupported("record index out of range")
        if k == "tuple" and is_num(idx):
            i = int(idx[1])
            if -len(base[1]) <= i < len(base[1]):
                return base[1][i]
            raise Unsupported("tuple index out of range")
        if k == "tuple" and idx[0] == "slice" and all(x == NONE or is_num(x) for x in idx[1:]):
            lo, hi, st = (None if x == NONE else int(x[1]) for x in idx[1:])
            return ("tuple", base[1][slice(lo, hi, st)])
        if k == "dict":
            for kk, vv in base[1]:
                if kk == idx:
                    return vv
            if idx[0] == "const":
                raise Unsupported(f"dict key {idx[1]!r} not in literal")
            return ("app", "dictget", (base, idx))
        if k == "shape":
            dims = self.shape_of(base[1])
            if dims is not None and is_num(idx) and -len(dims) <= int(idx[1]) < len(dims):
                return dims[int(idx[1])]
            if idx == ZERO and base[1][0] == "sym":
                return ("app", "len", (base[1],))  # x.shape[0] of a plain array symbol is len(x)
            if is_num(idx):
                return ("app", "shape", (base[1], idx))
            if idx[0] == "slice":
                return ("app", "shape_slice", (base[1],) + idx[1:])
        if k == "app" and base[1] == "shape_slice" and is_num(idx) and idx[1] >= 0 and len(base[2]) >= 3:
            # x.shape[lo:hi][k] is x.shape[lo + k]
            lo, st = base[2][1], (base[2][3] if len(base[2]) > 3 else NONE)
            if (lo == NONE or (is_num(lo) and lo[1] >= 0)) and st == NONE:
                return ("app", "shape", (base[2][0], K((0 if lo == NONE else int(lo[1])) + int(idx[1]))))
        if idx[0] == "tuple":
            # multi-axis index; scalar components peel leading axes, full slices keep them
            items = idx[1]
            # x[..., newaxis] / x[:, :, None]: a trailing unit axis - the reshape to (*x.shape, 1) - when the shape is evident
            def _newaxis(v):
                return v == NONE or (v[0] == "mod" and v[1].split(".")[-1] == "newaxis")
            if len(items) >= 2 and _newaxis(items[-1]) and (items[:-1] == (("const", Ellipsis),) or all(v == ("slice", NONE, NONE, NONE) for v in items[:-1])):
                dims_ = self.shape_of(base)
                if dims_ is not None and (items[0] == ("const", Ellipsis) or len(items) - 1 == len(dims_)):
                    return self.reshape(base, list(dims_) + [ONE])
            if all(x[0] != "slice" and not self.axes_of(x) for x in items):
                r = base
                for x in items:
                    r = self.elem(r, x)
                return r
            if not items:
                return base
            first, rest = items[0], ("tuple", tuple(items[1:]))
            if first == ("slice", NONE, NONE, NONE):
                lb = base if base[0] == "lam" else self.eta(base)
                if lb is not None:
                    return ("lam", lb[1], lb[2], self.index(lb[3], rest) if items[1:] else lb[3])
            elif first[0] != "slice" and not self.axes_of(first) and (base[0] == "lam" or self.axes_of(base)):
                return self.index(self.elem(base, first), rest) if items[1:] else self.elem(base, first)
            return ("elem", base, tuple(items))
        if idx[0] == "slice":
            lo, hi, stp = idx[1:]
            # x[:-k] / x[-k:] of a vector whose length is evident are the slices with explicit bounds
            if stp == NONE and is_num(hi) and hi[1] < 0 and (lo == NONE or (is_num(lo) and lo[1] >= 0) or not is_num(lo)):
                n = self.length_of(base)
                if n is not None:
                    return ("app", "slice", (base, ZERO if lo == NONE else lo, T_add(n, hi), NONE))
            return ("app", "slice", (base,) + idx[1:])
        if idx[0] == "lam":
            return ("lam", idx[1], idx[2], self.elem(base, idx[3]))
        ax = self.axes_of(idx)
        if ax:
            i = fresh(ax[0])
            return ("lam", i, ax[0], self.elem(base, self.elem(idx, i)))
        return self.elem(base, idx)

    # ----------------------------------------------------------- call sites
    def ev_Call(self, e, env, fr):
        # super()
        if isinstance(e.func, ast.Name) and e.func.id == "super" and "super" not in env:
            if fr.owner is None:
                raise Unsupported("super() outside a class")
            return ("super", fr.owner)
        f = self.ev(e.func, env, fr)
        args = []
        for a in e.args:
            v = self.ev(a, env, fr)
            if isinstance(a, ast.Starred):
                inner = v[1]
                if inner[0] == "tuple":
                    args.extend(inner[1])
                else:
                    args.append(v)
            else:
                args.append(v)
        kw = {}
        for k in e.keywords:
            if k.arg is None:
                v = self.ev(k.value, env, fr)
                if v[0] == "kwargs":
                    kw.update(dict(v[1]))
                else:
                    raise Unsupported("** of non-kwargs")
            else:
                kw[k.arg] = self.ev(k.value, env, fr)
        return self.call_value(f, args, kw, e, fr)

    def call_prim(self, dotted, args, kw, node, fr):
        name = canon(dotted)
        sig = PRIM_SIGS.get(name)
        if sig and kw:
            # positional parameters passed by keyword: `lax.scan(f=..., init=..., xs=...)` is `lax.scan(..., ..., ...)`
            args = list(args)
            kw = dict(kw)
            while len(args) < len(sig):
                names = sig[len(args)]
                hit = next((n_ for n_ in (names if isinstance(names, tuple) else (names,)) if n_ in kw), None)
                if hit is None:
                    break
                args.append(kw.pop(hit))
        h = self.prims.get(name)
        if h is not None:
            return h(self, args, kw, node)
        if name == "np.average" and args and set(kw) <= {"weights", "axis"} and "weights" in kw and kw.get("axis", NONE) == NONE:
            # the weighted mean: sum(x * w) / sum(w) - NOT the weighted sum unless the weights sum to one
            return T_truediv(self.dot(args[0], kw["weights"]), self.reduce("sum", kw["weights"], NONE))
        if name in ("math.prod", "np.prod") and len(args) == 1 and not kw:
            # the product of a tuple of sizes (x.shape[:3]) is the product of its entries
            a_ = args[0]
            items_ = None
            if a_[0] == "tuple":
                items_ = list(a_[1])
            elif a_[0] == "app" and a_[1] == "shape_slice" and len(a_[2]) >= 3:
                lo_, hi_ = a_[2][1], a_[2][2]
                st_ = a_[2][3] if len(a_[2]) > 3 else NONE
                if (lo_ == NONE or (is_num(lo_) and lo_[1] >= 0)) and is_num(hi_) and hi_[1] >= 0 and st_ == NONE:
                    items_ = [self.index(("shape", a_[2][0]), K(j_)) for j_ in range(0 if lo_ == NONE else int(lo_[1]), int(hi_[1]))]
            if items_ is not None and all(not self.axes_of(x_) for x_ in items_):
                r_ = ONE
                for x_ in items_:
                    r_ = T_mul(r_, x_)
                return r_
        if name == "lax.dynamic_index_in_dim" and len(args) >= 2:
            # row / column i of a matrix: the dynamic_slice of extent 1 along that axis over the whole of the other one
            ax_ = kw.get("axis", args[2] if len(args) > 2 else ZERO)
            dims_ = self.shape_of(args[0])
            if is_num(ax_) and int(ax_[1]) in (0, 1) and dims_ is not None and len(dims_) == 2:
                if int(ax_[1]) == 1:
                    return ("app", "lax.dynamic_slice", (args[0], ("tuple", (ZERO, args[1])), ("tuple", (dims_[0], ONE))))
                return ("app", "lax.dynamic_slice", (args[0], ("tuple", (args[1], ZERO)), ("tuple", (ONE, dims_[1]))))
        if name == "lax.dynamic_slice" and len(args) == 3 and not kw and args[1] == ("tuple", (ZERO,)) and args[2][0] == "tuple" and len(args[2][1]) == 1:
            # a static-start slice of a vector: x[:n]
            return self.index(args[0], ("slice", NONE, args[2][1][0], NONE))
        if name in ("np.array", "np.asarray") and args and "dtype" in kw:
            d = kw["dtype"]
            static_int = (d[0] == "mod" and d[1].split(".")[-1] in ("int32", "int64", "int16", "int8", "uint8", "uint32", "int_")) or d == ("builtin", "int")
            in_problem = self.cls is None or any(k.name == "Problem" for k in self.ct.mro(self.cls))
            if not (static_int and in_problem):
                inner = ("app", "array", (args[0],)) if args[0][0] == "tuple" else args[0]
                return ("app", "astype", (inner, d))  # a converting constructor is a cast
        if name in ("np.array", "np.asarray") and args and args[0][0] == "tuple":
            return ("app", "array", (args[0],))
        if name in TRANSPARENT and args:
            return args[0]
        if name.startswith("np."):
            short = name[3:]
            if short in REDUCERS:
                return self.reduce(short, args[0], kw.get("axis", args[1] if len(args) > 1 else NONE))
        r = self.repo.resolve_dotted(dotted)
        if r is not None and isinstance(r[1], ast.FunctionDef):
            return self.call_fn(r[1], args, kw, None, r[0], False)
        extra = tuple(("kw", k, v) for k, v in sorted(kw.items()))
        for v_ in list(args) + list(kw.values()):
            try:
                hash(v_)
            except TypeError:
                # a function value (closure) handed to a library combinator the analyser has no model for
                raise Unsupported(f"call of {name} with a function argument: the analyser has no model of this combinator") from None
        if name not in KNOWN_HERBRAND:
            # a library function the analyser has neither a model nor a frozen uninterpreted reading for: the term
            # carries a marker, and a failed term identity that involves it is reported as undecided, not as a violation
            self.unknown_calls.add(name)
            return ("app", "?" + name, tuple(args) + extra)
        return ("app", name, tuple(args) + extra)

    def call_builtin(self, name, args, kw, node):
        if name in ("float", "int"):
            a = args[0]
            if a[0] == "const" and isinstance(a[1], str):
                if a[1] in ("inf", "+inf", "Infinity"):
                    return INF
                return ("app", name, (a,))
            if name == "int" and not (is_num(a) and a[1].denominator == 1):
                if _integer_valued(a):
                    return a  # int() of a count (len, a shape entry, sums / products of those) is the count
                if (self.cls is None or (self._owners and self._owners[-1] is None)) and _integer_polynomial(a):
                    return a  # in a module-level utility: int() of a +,-,* combination of array elements with integer coefficients
                return ("app", "int", (a,))  # truncation is not value-transparent
            return a  # float() of a number is value-transparent
        if name in ("tuple", "list"):
            return args[0] if args else ("tuple", ())
        if name == "len":
            a = args[0]
            if a[0] == "tuple":
                return K(len(a[1]))
            if a[0] == "class" and any(ast.unparse(b).split(".")[-1] in ("Enum", "IntEnum", "StrEnum", "Flag", "IntFlag") for b in a[1].node.bases):
                # len(<Enum class>) is the number of its members: the names bound to literals in the class body (aliases of one value count once)
                vals = []
                for st_ in a[1].node.body:
                    if isinstance(st_, ast.Assign) and len(st_.targets) == 1 and isinstance(st_.targets[0], ast.Name) and not st_.targets[0].id.startswith("_"):
                        if not isinstance(st_.value, ast.Constant):
                            vals = None
                            break
                        vals.append(st_.value.value)
                if vals:
                    return K(len(set(vals)))
            return ("app", "len", (a,))
        if name in ("min", "max"):
            if len(args) == 1 and args[0][0] == "tuple":
                args = list(args[0][1])
            if all(is_num(a) for a in args):
                return K((min if name == "min" else max)(a[1] for a in args))
            return ("app", "py" + name, tuple(sorted(args, key=repr)))
        if name == "range":
            return ("app", "range", tuple(args))
        if name == "zip":
            return ("zip", tuple(args))
        if name == "isinstance":
            return ("app", "isinstance", tuple(args))
        if name == "hasattr":
            return ("app", "hasattr", tuple(args))
        if name in ("any", "all", "sum", "abs"):
            if name in ("any", "all", "sum"):
                return self.reduce(name, args[0], NONE)
            return ("app", "abs", (args[0],))
        if name in ("iter", "next"):
            # iterators are not modelled: the value is opaque (but known), so what is drawn from them is not what the rules expect
            return ("app", "py" + name, tuple(args))
        if name == "str":
            return ("app", "str", tuple(args))
        if name == "print":
            return NONE
        if name == "slice":
            a = list(args) + [NONE] * (3 - len(args))
            if len(args) == 1:
                a = [NONE, args[0], NONE]
            return ("slice", a[0], a[1], a[2])
        if name == "getattr":
            # getattr(o, ite(c, "a", "b")) is ite(c, o.a, o.b); getattr(o, "a") is o.a
            if len(args) == 2 and args[1][0] == "const" and isinstance(args[1][1], str) and node is not None:
                return self.getattr(args[0], args[1][1], node, self._frames[-1] if getattr(self, "_frames", None) else None)
            if len(args) == 2 and args[1][0] == "ite" and all(x[0] == "const" and isinstance(x[1], str) for x in args[1][2:4]) \
                    and getattr(self, "_frames", None):
                fr_ = self._frames[-1]
                return T_ite(args[1][1], self.getattr(args[0], args[1][2][1], node, fr_), self.getattr(args[0], args[1][3][1], node, fr_))
            return ("app", "getattr", tuple(args))
        if name == "bool":
            return self.truth(args[0]) if args else FALSE
        if name in ("round", "sorted", "reversed", "divmod", "pow", "type", "repr", "enumerate", "dict", "set", "map", "filter"):
            return ("app", "py" + name, tuple(args))
        raise Unsupported(f"builtin {name}")

    def call_bound(self, recv, name, args, kw, node, fr):
        """Method call on a term receiver: x.dot(y), x.reshape(...), x.at[i].set(v), ..."""
        if recv[0] == "atidx":
            if name in ("set", "add", "multiply", "min", "max"):
                kind = {"set": "scatter", "add": "atadd"}.get(name, "at" + name)
                return (kind, recv[1], recv[2], args[0])
            raise Unsupported(f".at[].{name}")
        if recv[0] == "dict":
            if name == "get":
                return self.index(recv, args[0])
            raise Unsupported(f"dict.{name}")
        if recv[0] == "const" and isinstance(recv[1], str):
            return ("app", "str." + name, (recv,) + tuple(args))
        if name == "dot":
            return self.dot(recv, args[0])
        if name in REDUCERS:
            return self.reduce(name, recv, kw.get("axis", args[0] if args else NONE))
        if name == "reshape":
            dims = list(args)
            if len(dims) == 1 and dims[0][0] == "tuple":
                dims = list(dims[0][1])
            return self.reshape(recv, dims)
        if name == "astype":
            # a cast to a statically named integer dtype inside a Problem (state vectors are integer
            # vectors) is value-transparent; any other cast - to a float width, or to a dtype taken
            # from another runtime value (x.astype(v.dtype)) - stays visible in the term
            d = args[0] if args else kw.get("dtype", NONE)
            static_int = (d[0] == "mod" and d[1].split(".")[-1] in ("int32", "int64", "int16", "int8", "uint8", "uint32", "int_")) or d == ("builtin", "int")
            in_problem = self.cls is not None and any(k.name == "Problem" for k in self.ct.mro(self.cls))
            if static_int and in_problem:
                return recv
            if cast_keeps_index(recv, d):
                return recv  # an action index cast to a dtype that, on every branch of its choice, holds 0 .. n_actions - 1
            return ("app", "astype", (recv, d))
        if name in ("copy", "squeeze", "flatten", "ravel", "block_until_ready", "item", "tolist"):
            return recv
        if name == "clip":
            lo = args[0] if args else kw.get("min", kw.get("a_min", NONE))
            hi = args[1] if len(args) > 1 else kw.get("max", kw.get("a_max", NONE))
            return self.pointwise("clip", [recv, lo, hi])
        if name == "ptp":
            ax = kw.get("axis", args[0] if args else NONE)
            return self.arith("Sub", self.reduce("max", recv, ax), self.reduce("min", recv, ax))
        if name == "upper" or name == "lower":
            return ("app", "str." + name, (recv,))
        if name == "absolute":  # Path.absolute
            return ("app", "path.absolute", (recv,))
        return ("app", "." + name, (recv,) + tuple(args) + tuple(("kw", k, v) for k, v in sorted(kw.items())))

    # ================================================================ algebra
    def axes_of(self, t):
        k = t[0]
        if k == "sym":
            return self.axes.get(t[1], ())
        if k == "lam":
            return (t[2],) + self.axes_of(t[3])
        if k == "elem":
            ax = self.axes_of(t[1])
            n = sum(1 for i in t[2] if not self.axes_of(i) and i[0] != "slice")
            extra = tuple(a for i in t[2] for a in self.axes_of(i))
            return extra + ax[len(t[2]):] if len(ax) >= len(t[2]) else ()
        if k == "batched":
            ax = self.axes_of(t[1])
            return ("dev", "batch", "slot") + ax[1:]
        if k == "rebatched":
            return ("dev", "batch", "slot") + self.axes_of(t[1])[1:]
        if k == "red":
            return self.axes_of(t[4])
        if k == "ite":
            return self.axes_of(t[2]) or self.axes_of(t[3])
        if k in ("scatter", "atadd"):
            # a zeros_like base is folded to the constant 0 and has lost its shape: it was shaped like what it is indexed by
            return self.axes_of(t[1]) or (self.axes_of(t[2]) if t[1] == ZERO and t[2][0] != "tuple" else ())
        if k == "fold":
            return self.axes_of(t[3])
        if k == "poly":
            best = ()
            for mono, _c in t[1]:
                for a, _p in mono:
                    ax = self.axes_of(a)
                    if len(ax) > len(best):
                        best = ax
            return best
        if k == "app":
            name = t[1]
            if name == "arange":
                tag = None
                if len(t[2]) == 1 and t[2][0][0] == "sym":
                    tag = COUNT_TAGS.get(t[2][0][1])
                return (tag or "ax",)
            if name in ("permutation", "random.permutation"):
                return self.axes_of(t[2][1]) if len(t[2]) > 1 else ("ax",)
            if name in ("argsort", "cumsum", "sort", "flip"):
                return self.axes_of(t[2][0])
            if name in LEAF_RESULT_AXES:
                return LEAF_RESULT_AXES[name]
            if name == "problem.initial_policy":
                return ("adim",)
            if name in POINTWISE or name.startswith("cmp"):
                best = ()
                for a in t[2]:
                    if isinstance(a, tuple) and a and a[0] != "kw":
                        ax = self.axes_of(a)
                        if len(ax) > len(best):
                            best = ax
                return best
            if name == "take":
                return self.axes_of(t[2][1]) + self.axes_of(t[2][0])[1:]
            return ()
        return ()

    def shares_axis(self, y, tag) -> bool:
        if y[0] == "lam":
            return True
        ax = self.axes_of(y)
        return bool(ax) and (ax[0] == tag or ax[0] == "ax" or tag == "ax")

    def elem(self, t, i):
        k = t[0]
        if k == "app":
            name = t[1]
            if name == "arange":
                if len(t[2]) == 1:
                    return i
                if len(t[2]) >= 2:
                    return T_add(t[2][0], i)
            if name == "array" and t[2] and t[2][0][0] == "tuple" and is_num(i):
                items = t[2][0][1]
                j = int(i[1])
                if -len(items) <= j < len(items):
                    it = items[j]
                    return ("app", "array", (it,)) if it[0] == "tuple" else it
            if name in POINTWISE or name.startswith("cmp"):
                new = tuple(
                    self.elem(a, i) if (isinstance(a, tuple) and a and a[0] != "kw" and (a[0] == "lam" or self.axes_of(a))) else a
                    for a in t[2]
                )
                if new != t[2]:
                    from .terms import rebuild_app
                    return rebuild_app(name, new)
                return ("elem", t, (i,))
        if k == "poly":
            # pointwise ring expression over arrays: index every atom that has axes
            m = {}
            for mono, _c in t[1]:
                for a, _p in mono:
                    if a[0] == "lam" or self.axes_of(a):
                        m[a] = self.elem(a, i)
            if not m:
                return ("elem", t, (i,))
            return subst(t, m)
        if k == "tuple" and not is_num(i):
            return ("elem", t, (i,))
        if k == "ite":
            return T_ite(t[1], self.elem(t[2], i), self.elem(t[3], i))
        return raw_elem(t, i)

    def eta(self, t):
        """Expose the leading axis of an array-valued term as a lam, if its axes are known."""
        if t[0] == "lam":
            return t
        ax = self.axes_of(t)
        if not ax:
            return None
        i = fresh(ax[0])
        return ("lam", i, ax[0], self.elem(t, i))

    def arith(self, op, a, b):
        if op == "MatMult":
            return self.dot(a, b)  # `a @ b` contracts the shared axis; it is not a pointwise operator to be lifted over it
        if op == "Add" and a[0] == "tuple" and b[0] == "tuple":
            return ("tuple", a[1] + b[1])  # list / tuple concatenation
        if op == "Mult" and ((a[0] == "tuple" and is_num(b)) or (b[0] == "tuple" and is_num(a))):
            tup, n = (a, b) if a[0] == "tuple" else (b, a)
            if n[1].denominator == 1 and 0 <= n[1] <= 64:
                return ("tuple", tup[1] * int(n[1]))  # (None,) * 4
        for x, y, swap in ((a, b, False), (b, a, True)):
            if x[0] == "lam":
                i = x[1]
                yy = self.elem(y, i) if self.shares_axis(y, x[2]) else y
                inner = self.arith(op, x[3], yy) if not swap else self.arith(op, yy, x[3])
                return ("lam", i, x[2], inner)
        if op == "Add":
            return T_add(a, b)
        if op == "Sub":
            return T_sub(a, b)
        if op == "Mult":
            return T_mul(a, b)
        if op == "Div":
            return T_truediv(a, b)
        if op == "Pow":
            return T_pow(a, b)
        if op == "Mod":
            return T_mod(a, b)
        if op == "FloorDiv":
            return T_floordiv(a, b)
        if op == "BitOr":
            return ("app", "or", (a, b))
        if op == "BitAnd":
            return ("app", "and", (a, b))
        if op == "MatMult":
            return self.dot(a, b)
        if op in ("LShift", "RShift") and is_num(a) and is_num(b) and a[1].denominator == 1 and b[1].denominator == 1 and 0 <= b[1] <= 62:
            return K(int(a[1]) << int(b[1]) if op == "LShift" else int(a[1]) >> int(b[1]))
        raise Unsupported(f"operator {op}")

    def pointwise(self, name, args):
        lams = [a for a in args if a[0] == "lam"]
        if lams:
            i, tag = lams[0][1], lams[0][2]
            inner = [self.elem(a, i) if (a[0] == "lam" or self.shares_axis(a, tag)) else a for a in args]
            return ("lam", i, tag, self.pointwise(name, inner))
        if name == "minimum" and len(args) == 2:
            # minimum(maximum(x, lo), hi) is clip(x, lo, hi) by definition (numpy / jax define clip that way); lo is the constant operand
            for mx, hi in ((args[0], args[1]), (args[1], args[0])):
                if mx[0] == "app" and mx[1] in ("max_of", "maximum") and len(mx[2]) == 2 and not (hi[0] == "app" and hi[1] in ("max_of", "maximum")):
                    nums = [a for a in mx[2] if is_num(a)]
                    if len(nums) == 1:
                        x = [a for a in mx[2] if not is_num(a)][0]
                        return self.pointwise("clip", [x, nums[0], hi])
        if name in ("maximum", "minimum") and len(args) == 2 and not any(self.axes_of(a) for a in args):
            # of two scalars: the same value as max / min over the two-element literal [a, b]
            return ("app", name[:3] + "_of", tuple(sorted(args, key=repr)))
        return ("app", name, tuple(args))

    def dot(self, x, y):
        vx, vy = _vector_items(x), _vector_items(y)
        # hstack of n items against a literal of n scalars: every item is a scalar
        if vx is None and vy is not None and x[0] == "app" and x[1] in ("hstack", "stack") and len(x[2]) == len(vy):
            vx = list(x[2])
        if vy is None and vx is not None and y[0] == "app" and y[1] in ("hstack", "stack") and len(y[2]) == len(vx):
            vy = list(y[2])
        if vx is not None and vy is not None and len(vx) == len(vy):
            r = ZERO
            for a, b in zip(vx, vy):
                r = T_add(r, T_mul(a, b))
            return r
        lx = x if x[0] == "lam" else self.eta(x)
        ly = y if y[0] == "lam" else self.eta(y)
        if lx is not None and ly is not None:
            i = lx[1]
            if lx[2] != ly[2] and "ax" not in (lx[2], ly[2]):
                raise Unsupported(f"dot over mismatched axes {lx[2]} / {ly[2]}")
            return T_sum(i, lx[2], self.arith("Mult", lx[3], self.elem(ly, i)))
        if lx is not None and ly is None:
            i = lx[1]
            return T_sum(i, lx[2], self.arith("Mult", lx[3], self.elem(y, i)))
        if ly is not None and lx is None:
            i = ly[1]
            return T_sum(i, ly[2], self.arith("Mult", self.elem(x, i), ly[3]))
        return ("app", "dot", (x, y))

    def reduce(self, op, x, axis=NONE):
        items = _vector_items(x)
        if items is not None and axis == NONE and op in ("max", "min", "sum", "any", "all"):
            if op == "sum":
                r = ZERO
                for a in items:
                    r = T_add(r, a)
                return r
            return ("app", op + "_of", tuple(sorted(items, key=repr)))  # commutative: canonical order
        if axis == NONE:
            if x[0] == "tuple" and op in ("any", "all"):
                vals = [self.truth(v) for v in x[1]]
                return ("app", op, tuple(vals))
            lx = x if x[0] == "lam" else self.eta(x)
            if lx is None:
                return ("app", op, (x,))
            body = lx[3]
            if body[0] == "lam" or self.axes_of(body):
                body = self.reduce(op, body, NONE)  # reduce over all axes
            if op == "sum":
                return T_sum(lx[1], lx[2], body)
            return ("red", op, lx[1], lx[2], body)
        if is_num(axis):
            a = int(axis[1])
            ax = (x[0] == "lam" and (x[2],) + self.axes_of(x[3])) or self.axes_of(x)
            if a < 0 and ax:
                a += len(ax)
            if a == 0:
                return self.reduce_lead(op, x)
            if a > 0:
                lx = x if x[0] == "lam" else self.eta(x)
                if lx is not None:
                    return ("lam", lx[1], lx[2], self.reduce(op, lx[3], K(a - 1)))
        return ("app", op, (x, ("kw", "axis", axis)))

    def reduce_lead(self, op, x):
        lx = x if x[0] == "lam" else self.eta(x)
        if lx is None:
            return ("app", op, (x, ("kw", "axis", K(0))))
        if op == "sum":
            return T_sum(lx[1], lx[2], lx[3])
        return ("red", op, lx[1], lx[2], lx[3])

    def reshape(self, recv, dims):
        if len(dims) == 1 and dims[0] == K(-1):
            return recv
        ax = (recv[0] == "lam" and (recv[2],) + self.axes_of(recv[3])) or self.axes_of(recv)
        if ax and len(ax) == len(dims) and all(d in self.axis_sizes.get(a, ()) for a, d in zip(ax, dims)):
            return recv  # reshape to the shape the value already has
        if len(dims) == 2 and dims[0] == K(-1) and dims[1] == ONE:
            # column-vector form of a space: value-transparent for problems / utilities; in a solver a
            # rank change silently alters later broadcasting, so it stays visible
            if self.cls is None or any(k.name == "Problem" for k in self.ct.mro(self.cls)):
                return recv
        if len(dims) == 3 and all(d[0] == "app" and d[1] == "shape" for d in dims):
            srcs = {d[2][0] for d in dims}
            idxs = [d[2][1] for d in dims]
            if len(srcs) == 1 and idxs == [K(0), K(1), K(2)]:
                (b,) = srcs
                if b[0] == "batched":
                    return ("rebatched", recv, b)
        return ("app", "reshape", (recv,) + tuple(dims))

    # ============================================================ combinators
    def spec_for(self, spec, n):
        if spec[0] == "const":
            return [spec] * n
        if spec[0] == "tuple":
            if len(spec[1]) != n:
                raise Unsupported(f"in_axes arity {len(spec[1])} != {n} arguments")
            return list(spec[1])
        raise Unsupported(f"in_axes {show(spec)}")

    def map_arg(self, a, sp, i, tags):
        if sp == NONE:
            return a
        if sp[0] == "tuple":
            if a[0] != "tuple" or len(a[1]) != len(sp[1]):
                raise Unsupported("in_axes / argument structure mismatch")
            return ("tuple", tuple(self.map_arg(x, s, i, tags) for x, s in zip(a[1], sp[1])))
        if sp != ZERO:
            raise Unsupported(f"in_axes entry {show(sp)}")
        if a[0] == "tuple":
            return ("tuple", tuple(self.map_arg(x, sp, i, tags) for x in a[1]))
        if a[0] == "lam":
            tags.append(a[2])
        else:
            ax = self.axes_of(a)
            tags.append(ax[0] if ax else "ax")
        return self.elem(a, i)

    def apply_map(self, f, args, kw):
        if kw:
            raise Unsupported("keyword arguments through vmap/pmap")
        i = fresh("?")
        tags: list[str] = []
        specs = self.spec_for(f[2], len(args))
        margs = [self.map_arg(a, s, i, tags) for a, s in zip(args, specs)]
        if not tags:
            raise Unsupported("vmap/pmap with no mapped argument")
        known = {t for t in tags if t != "ax"}
        if len(known) > 1:
            raise Unsupported(f"map over mismatched axes {sorted(known)}")
        tag = next(iter(known)) if known else "ax"
        i2 = ("ix", tag, i[2])
        margs = [subst(a, {i: i2}) for a in margs]
        out = self.call_value(f[1], margs, {})
        return self.wrap_lam(out, i2, tag)

    def wrap_lam(self, t, i, tag):
        if t[0] == "tuple":
            return ("tuple", tuple(self.wrap_lam(x, i, tag) for x in t[1]))
        return ("lam", i, tag, t)

    def scan(self, f, init, xs, reverse=False, node=None):
        if xs[0] == "app" and xs[1] == "flip1":
            # a scan over the flipped sequence is the scan in the other direction with its outputs flipped
            r = self.scan(f, init, xs[2][0], reverse=not reverse, node=node)
            if r[0] == "tuple" and len(r[1]) == 2:
                return ("tuple", (r[1][0], _p_flip(self, [r[1][1]], {}, node)))
            return r
        i = fresh("?")
        tags: list[str] = []
        x = self.map_arg(xs, ZERO, i, tags)
        known = {t for t in tags if t != "ax"}
        if len(known) > 1:
            raise Unsupported(f"scan over mismatched axes {sorted(known)}")
        tag = next(iter(known)) if known else "ax"
        i2 = ("ix", tag, i[2])
        x = subst(x, {i: i2})
        out = self.call_value(f, [init, x], {})
        if out[0] != "tuple" or len(out[1]) != 2:
            raise Unsupported("scan body must return (carry, y)")
        cout, y = out[1]
        rec = {"fn": f, "tag": tag, "ix": i2, "init": init, "reverse": reverse, "x": x,
               "line": getattr(node, "lineno", 0)}
        if cout == init:
            rec.update(kind="map", y=y)
            self.scans.append(rec)
            return ("tuple", (init, self.wrap_lam(y, i2, tag)))
        # recurrence: evolving components become symbols inheriting the axes of init
        n = len(self.scans)
        if init[0] == "tuple" and cout[0] == "tuple" and len(init[1]) == len(cout[1]):
            comps = list(init[1])
            changed = []
            for k, (a, b) in enumerate(zip(init[1], cout[1])):
                if a != b:
                    name = f"CARRY{n}_{k}"
                    self.axes[name] = self.axes_of(a)
                    comps[k] = S(name)
                    changed.append(k)
            carry = ("tuple", tuple(comps))
        else:
            name = f"CARRY{n}"
            self.axes[name] = self.axes_of(init)
            carry = S(name)
            changed = [None]
        out2 = self.call_value(f, [carry, x], {})
        cout2, y2 = out2[1]
        rec.update(kind="recurrence", carry=carry, carry_out=cout2, y=y2, changed=changed)
        self.scans.append(rec)
        return ("tuple", (("scan_final", n), self.wrap_lam(y2, i2, tag)))

    def leaf(self, name, args, node):
        self.leaf_calls.append((name, list(args), f"line {getattr(node, 'lineno', 0)}"))
        if name == "problem.transition":
            c = ("app", "problem.transition", tuple(args))
            return ("tuple", (("app", "next_state", (c,)), ("app", "reward", (c,))))
        return ("app", name, tuple(args))

    # ------------------------------------------------------------ summaries
    def unbatch(self, t, node=None):
        """BatchProcessor.unbatch_results on a [dev][batch][slot] comprehension.

        Batched(X)[d,b,k] := X[n] and rebatched(v, B)[d,b,k] := v[n]; valid only if no batch
        index survives (slot-wise non-interference)."""
        if t[0] == "tuple":
            return ("tuple", tuple(self.unbatch(x, node) for x in t[1]))
        ixs = []
        body = t
        for tag in ("dev", "batch", "slot"):
            if body[0] != "lam":
                lb = self.eta(body)
                if lb is None:
                    raise Unsupported(f"unbatch of a value without dev/batch/slot structure: {show(t)[:120]}")
                body = lb
            if body[2] != tag:
                raise Unsupported(f"unbatch expects axis {tag}, found {body[2]}")
            ixs.append(body[1])
            body = body[3]
        n = fresh("state")
        body2, used = self.unbatch_subst(body, tuple(ixs), n)
        survivors = [ix for ix in ixs if occurs(body2, lambda x, ix=ix: x == ix)]
        self.unbatch_log.append({"interference": bool(survivors), "sources": used,
                                 "line": getattr(node, "lineno", 0)})
        if survivors:
            return ("interfering", ("lam", n, "state", body2))
        return ("lam", n, "state", body2)

    def unbatch_subst(self, body, ixs, n):
        m = {}
        used = []
        for st in subterms(body):
            if st[0] == "elem" and len(st[2]) >= 3 and tuple(st[2][:3]) == tuple(ixs):
                base = st[1]
                if base[0] == "batched":
                    r = self.elem(base[1], n)
                elif base[0] == "rebatched":
                    r = self.elem(base[1], n)
                else:
                    continue
                for extra in st[2][3:]:
                    r = self.elem(r, extra)
                m[st] = r
                used.append(show(base)[:80])
        return subst(body, m), used


def _vector_items(t):
    """Components of a literal vector: array((a, b, ...)) or hstack(a, b, ...) of scalars."""
    if t[0] == "app" and t[1] == "array" and t[2] and t[2][0][0] == "tuple":
        items = t[2][0][1]
        if all(x[0] != "tuple" for x in items):
            return list(items)
    return None


def _integer_valued(t) -> bool:
    """evidently an integer: a length, a shape entry, an integer constant, or a +, -, * combination of those"""
    k = t[0]
    if k == "const":
        return is_num(t) and t[1].denominator == 1
    if k == "app" and t[1] in ("len", "shape"):
        return True
    if k == "poly":
        return all(c.denominator == 1 and all(p >= 0 and _integer_valued(a) for a, p in mono) for mono, c in t[1])
    return False


def _integer_polynomial(t) -> bool:
    """a ring expression with integer coefficients over symbols / elements (no division, no float constants)"""
    k = t[0]
    if k in ("sym", "elem", "ix"):
        return True
    if k == "const":
        return is_num(t) and t[1].denominator == 1
    if k == "poly":
        return all(c.denominator == 1 and all(p >= 0 and _integer_polynomial(a) for a, p in mono) for mono, c in t[1])
    return False


def _is_term(v) -> bool:
    return isinstance(v, tuple) and bool(v) and isinstance(v[0], str)


def _as_load(t):
    import copy
    t2 = copy.copy(t)
    t2.ctx = ast.Load()
    return t2


def _as_store(t):
    import copy
    t2 = copy.copy(t)
    t2.ctx = ast.Store()
    return t2


def _assigned_names(body) -> list[str]:
    out = []
    for st in body:
        for x in ast.walk(st):
            if isinstance(x, ast.Assign):
                for t in x.targets:
                    base = t
                    while isinstance(base, ast.Subscript):
                        base = base.value
                    if isinstance(base, ast.Name) and base.id not in out:
                        out.append(base.id)
    return out


def _accumulators(body) -> list[str]:
    out = []
    for x in body:
        if isinstance(x, ast.AugAssign) and isinstance(x.target, ast.Name) and isinstance(x.op, ast.Add):
            if x.target.id not in out:
                out.append(x.target.id)
    return out


def canon(dotted: str) -> str:
    for pre, rep in CANON_PREFIX:
        if dotted.startswith(pre):
            return rep + dotted[len(pre):]
    return dotted


BUILTINS = {
    "float", "int", "len", "min", "max", "range", "tuple", "list", "zip", "isinstance", "hasattr",
    "any", "all", "sum", "abs", "str", "print", "slice", "getattr", "super", "dict", "set",
    "ValueError", "TypeError", "NotImplementedError", "FileNotFoundError", "enumerate",
    "bool", "object", "round", "sorted", "reversed", "map", "filter", "divmod", "pow", "type", "id", "repr", "iter", "next",
    "Exception", "RuntimeError", "KeyError", "IndexError", "AttributeError", "AssertionError", "OverflowError",
}


# ============================================================== primitive tables
def _p_vmap(I, args, kw, node):
    spec = kw.get("in_axes", args[1] if len(args) > 1 else ZERO)
    return ("vmapped", args[0], spec)


def _p_pmap(I, args, kw, node):
    spec = kw.get("in_axes", args[1] if len(args) > 1 else ZERO)
    return ("pmapped", args[0], spec)


def _p_jit(I, args, kw, node):
    return ("jit", args[0]) if args else ("mod", "jax.jit")


def _p_partial(I, args, kw, node):
    f = args[0]
    if f == ("mod", "jax.jit"):
        return ("mod", "jax.jit")
    return ("partial", f, tuple(args[1:]), tuple(sorted(kw.items())))


def _p_scan(I, args, kw, node):
    rev = kw.get("reverse", FALSE) == TRUE
    f = args[0]
    init = args[1] if len(args) > 1 else kw["init"]
    xs = args[2] if len(args) > 2 else kw["xs"]
    return I.scan(f, init, xs, reverse=rev, node=node)


def _p_laxmap(I, args, kw, node):
    # jax.lax.map(f, xs) is a scan without a carry: ys[i] = f(xs[i])
    f, xs = args[0], args[1]
    i = fresh("?")
    tags: list[str] = []
    x = I.map_arg(xs, ZERO, i, tags)
    known = {t for t in tags if t != "ax"}
    if len(known) > 1:
        raise Unsupported(f"lax.map over mismatched axes {sorted(known)}")
    tag = next(iter(known)) if known else "ax"
    i2 = ("ix", tag, i[2])
    x = subst(x, {i: i2})
    y = I.call_value(f, [x], {})
    I.scans.append({"fn": f, "tag": tag, "ix": i2, "init": NONE, "reverse": False, "x": x, "line": getattr(node, "lineno", 0), "kind": "map", "y": y})
    return I.wrap_lam(y, i2, tag)


def _p_cond(I, args, kw, node):
    pred, tf, ff = args[0], args[1], args[2]
    ops = list(args[3:])
    return T_ite(I.truth(pred), I.call_value(tf, ops, {}), I.call_value(ff, ops, {}))


def _p_reduce(op):
    def h(I, args, kw, node):
        r = I.reduce(op, args[0], kw.get("axis", args[1] if len(args) > 1 else NONE))
        d = kw.get("dtype")
        if d is not None and (_dtype_visible(I, d) or (d[0] == "app" and d[1] == "dtype")):
            return ("app", "astype", (r, d))  # accumulating in a runtime-derived / narrow dtype casts the result
        return r
    return h


def _p_take(I, args, kw, node):
    base, idx = args[0], args[1]
    axis = kw.get("axis", args[2] if len(args) > 2 else NONE)
    if axis == ZERO:
        return I.index(base, idx)
    if axis != NONE:
        return ("app", "take", (base, idx, ("kw", "axis", axis)))
    lx = idx if idx[0] == "lam" else I.eta(idx)
    if lx is not None:
        return ("lam", lx[1], lx[2], I.elem(base, lx[3]))
    return I.elem(base, idx)


def _p_where(I, args, kw, node):
    return I.pointwise("where", list(args))


def _p_pointwise(name):
    def h(I, args, kw, node):
        return I.pointwise(name, list(args))
    return h


def _p_arange(I, args, kw, node):
    d = kw.get("dtype")
    if d is not None and d != NONE:
        wide = (d[0] == "mod" and d[1].split(".")[-1] in ("int32", "int64", "int_", "intp", "float64", "float_", "double")) or d in (("builtin", "int"), ("builtin", "float"))
        if not wide:
            # values enumerated in a narrow or runtime-chosen dtype wrap around silently: the dtype is part of what is listed
            return ("app", "arange", tuple(args) + (("kw", "dtype", d),))
    return ("app", "arange", tuple(args))


def _dtype_visible(I, d):
    """A dtype argument stays in the term unless it is a statically named integer dtype inside a
    Problem / utility (state vectors): buffers whose dtype follows a runtime value silently cast
    what is stored into them."""
    static_int = (d[0] == "mod" and d[1].split(".")[-1] in ("int32", "int64", "int16", "int8", "uint8", "uint32", "int_", "bool_")) or d in (("builtin", "int"), ("builtin", "bool"))
    in_problem = I.cls is None or any(k.name in ("Problem", "BatchProcessor") for k in I.ct.mro(I.cls))
    # the widest float is what these constructors produce anyway when double precision is on (C20): spelling it out changes nothing
    default_float = d == ("builtin", "float") or (d[0] == "mod" and d[1].split(".")[-1] in ("float64", "float_", "double"))
    if default_float:
        return False
    return not (static_int and in_problem) and not (in_problem and d[0] == "app" and d[1] == "dtype")


def _p_zeros(I, args, kw, node):
    d = kw.get("dtype", args[1] if len(args) > 1 else None)
    # zeros(x.shape, dtype=x.dtype) is zeros_like(x)
    if d is not None and d[0] == "app" and d[1] == "dtype" and len(d[2]) == 1 and args and args[0] == ("shape", d[2][0]):
        return _p_zeros_like(I, [d[2][0]], {}, node)
    if d is not None and _dtype_visible(I, d):
        return ("app", "zeros", (args[0], ("kw", "dtype", d)))
    return ("app", "zeros", (args[0],))


def _p_zeros_like(I, args, kw, node):
    extra = tuple(("kw", k, v) for k, v in sorted(kw.items()) if not (k == "dtype" and not _dtype_visible(I, v)))
    if extra:
        return ("app", "zeros_like", (args[0],) + extra)
    return ZERO


def _p_dot(I, args, kw, node):
    return I.dot(args[0], args[1])


def _p_split(I, args, kw, node):
    return ("tuple", (("app", "split0", tuple(args)), ("app", "split1", tuple(args))))


def _p_permutation(I, args, kw, node):
    args = list(args)
    if len(args) == 2 and args[1][0] != "lam" and not I.axes_of(args[1]) and not (args[1][0] == "app" and args[1][1] in ("arange", "array", "hstack")):
        args[1] = ("app", "arange", (args[1],))  # permutation(key, n) shuffles arange(n)
    return ("app", "permutation", tuple(args))


def _p_pad(I, args, kw, node):
    # jnp.pad(x, ((0, k), (0, 0))) with constant zeros appends k zero rows: vstack([x, zeros((k, x.shape[1]))])
    x, pw = args[0], args[1] if len(args) > 1 else kw.get("pad_width")
    mode = kw.get("mode", args[2] if len(args) > 2 else ("const", "constant"))
    cv = kw.get("constant_values", ZERO)
    if mode == ("const", "constant") and cv == ZERO and pw is not None and pw[0] == "tuple" and len(pw[1]) == 2 \
            and all(p[0] == "tuple" and len(p[1]) == 2 for p in pw[1]) and pw[1][0][1][0] == ZERO and pw[1][1][1] == (ZERO, ZERO):
        k = pw[1][0][1][1]
        ncol = I.index(("shape", x), K(1))
        return ("app", "vstack", (x, ("app", "zeros", (("tuple", (k, ncol)),))))
    extra = tuple(("kw", k_, v) for k_, v in sorted(kw.items()))
    return ("app", "?np.pad", tuple(args) + extra)


def _p_argsort(I, args, kw, node):
    return ("app", "argsort", (args[0],))


def _p_stack(name):
    def h(I, args, kw, node):
        a = args[0]
        items = a[1] if a[0] == "tuple" else (a,)
        if name == "hstack":
            # a one-element zero vector in a concatenation is the scalar 0 there (`concatenate([zeros(1), x])` is `hstack([0, x])`)
            items = tuple(ZERO if (it[0] == "app" and it[1] == "zeros" and len(it[2]) == 1 and it[2][0] == K(1)) else it for it in items)
        axis = kw.get("axis", args[1] if len(args) > 1 else None)
        if a[0] != "tuple" and name == "stack" and axis is not None and axis != ZERO:
            return ("app", name, tuple(items) + (("kw", "axis", axis),))  # an opaque sequence stacked along another axis
        return ("app", name, tuple(items))
    return h


def _p_tile(I, args, kw, node):
    x, reps = args[0], args[1] if len(args) > 1 else kw.get("reps", NONE)
    items = _vector_items(x) if x[0] == "app" else (list(x[1]) if x[0] == "tuple" else None)
    if items is not None and is_num(reps) and 0 <= reps[1] <= 16:
        return ("app", "array", (("tuple", tuple(items) * int(reps[1])),))
    return ("app", "np.tile", (x, reps))


_INT_LIMITS = {"int8": (8, -2**7, 2**7 - 1), "int16": (16, -2**15, 2**15 - 1), "int32": (32, -2**31, 2**31 - 1), "int64": (64, -2**63, 2**63 - 1),
               "uint8": (8, 0, 2**8 - 1), "uint16": (16, 0, 2**16 - 1), "uint32": (32, 0, 2**32 - 1), "uint64": (64, 0, 2**64 - 1)}


def _p_iinfo(I, args, kw, node):
    d = args[0] if args else NONE
    name = d[1].split(".")[-1] if d[0] == "mod" else None
    if name in _INT_LIMITS:
        return ("iinfo", name)
    return ("app", "?np.iinfo", tuple(args))


def cast_keeps_index(recv, d) -> bool:
    """Is `recv.astype(d)` value-preserving when recv is an arg-reduction over the ACTION axis (values 0 .. n_actions - 1) and d a dtype chosen by
    comparisons of problem.n_actions with constants?  True only when every branch's dtype holds every index its path condition allows."""
    if not (isinstance(recv, tuple) and recv and recv[0] == "red" and recv[1] in ("argmax", "argmin") and recv[3] == "act"):
        return False
    N = ("sym", "problem.n_actions")

    def walk(node, ub):
        if node[0] == "mod":
            lim = _INT_LIMITS.get(node[1].split(".")[-1])
            if lim is None:
                return False
            if ub is None:
                return lim[0] >= 32 and lim[1] < 0  # int32 / int64 are what argmax itself returns
            return ub - 1 <= lim[2]
        if node[0] == "ite" and node[1][0] == "app" and node[1][1] == "cmpLt" and len(node[1][2]) == 2:
            a, b = node[1][2]
            if is_num(a) and b == N and a[1].denominator == 1:      # K < N : then N >= K + 1, else N <= K
                k = int(a[1])
                return walk(node[2], ub) and walk(node[3], k if ub is None else min(ub, k))
            if a == N and is_num(b) and b[1].denominator == 1:      # N < K : then N <= K - 1, else N >= K
                k = int(b[1]) - 1
                return walk(node[2], k if ub is None else min(ub, k)) and walk(node[3], ub)
        return False

    return walk(d, None)


def _p_flip(I, args, kw, node):
    x = args[0]
    axis = kw.get("axis", args[1] if len(args) > 1 else NONE)
    if axis not in (NONE, ZERO, K(-1)):
        return ("app", "np.flip", (x, ("kw", "axis", axis)))
    if x[0] == "app" and x[1] == "flip1":
        return x[2][0]  # flip(flip(v)) == v
    return ("app", "flip1", (x,))


def _p_functools_reduce(I, args, kw, node):
    f, it = args[0], args[1]
    if it[0] != "tuple" or not it[1]:
        raise Unsupported("functools.reduce over a non-literal iterable")
    items = list(it[1])
    acc = args[2] if len(args) > 2 else items.pop(0)
    for x in items:
        acc = I.call_value(f, [acc, x], {})
    return acc


def _p_select(I, args, kw, node):
    # jnp.select(condlist, choicelist, default): the first condition that holds picks its choice
    conds, choices = args[0], args[1]
    default = args[2] if len(args) > 2 else kw.get("default", ZERO)
    if conds[0] != "tuple" or choices[0] != "tuple" or len(conds[1]) != len(choices[1]):
        raise Unsupported("select over non-literal lists")
    r = default
    for c, v in reversed(list(zip(conds[1], choices[1]))):
        r = I.pointwise("where", [c, v, r])
    return r


def _p_atleast_1d(I, args, kw, node):
    x = args[0]
    if x[0] == "lam" or I.axes_of(x) or (x[0] == "app" and x[1] in ("array", "hstack", "slice")):
        return x
    return ("app", "array", (("tuple", (x,)),))


def _p_product(I, args, kw, node):
    # itertools.product(X, repeat=n) is itertools.product(*[X for _ in range(n)])
    if len(args) == 1 and set(kw) == {"repeat"} and args[0][0] != "star":
        d = fresh("dim")
        return ("app", "itertools.product", (("star", ("app", "listcomp", (kw["repeat"], ("lam", d, "dim", args[0])))),))
    extra = tuple(("kw", k, v) for k, v in sorted(kw.items()))
    return ("app", "itertools.product", tuple(args) + extra)


def _p_reshape(I, args, kw, node):
    dims = list(args[1:])
    if len(dims) == 1 and dims[0][0] == "tuple":
        dims = list(dims[0][1])
    return I.reshape(args[0], dims)


def _p_clip(I, args, kw, node):
    lo = args[1] if len(args) > 1 else kw.get("min", kw.get("a_min", NONE))
    hi = args[2] if len(args) > 2 else kw.get("max", kw.get("a_max", NONE))
    return I.pointwise("clip", [args[0], lo, hi])


# library functions that today's code uses and that the rules read as uninterpreted (Herbrand) functions on purpose
KNOWN_HERBRAND = {
    "chex.assert_shape", "jax.devices", "jax.scipy.stats.poisson.cdf", "jax.scipy.stats.poisson.pmf", "lax.dynamic_slice",
    "np.diff", "np.floor", "np.full", "np.isfinite", "np.log10", "np.outer", "np.ravel_multi_index", "np.repeat",
    "np.unravel_index", "numpyro.distributions.Gamma", "numpyro.distributions.Multinomial",
    "numpyro.distributions.NegativeBinomialProbs", "scipy.stats.binom.pmf", "scipy.stats.poisson.pmf",
    "np.isclose", "np.allclose", "math.isclose",  # approximate comparisons are NOT the exact comparisons the documents state
    "np.tile", "np.indices", "np.cumsum", "np.sort", "np.flip", "np.ceil", "np.round", "np.sqrt", "np.sign",
    "itertools.product", "np.ones", "np.ones_like", "np.full_like", "np.eye", "np.linspace", "np.meshgrid", "np.swapaxes",
    "np.transpose", "np.expand_dims", "np.broadcast_to", "np.cumprod", "np.isnan", "np.nan_to_num", "np.int32", "np.int64",
    "np.float32", "np.einsum", "lax.fori_loop", "lax.while_loop", "lax.dynamic_update_slice", "jax.tree_util.tree_map", "jax.tree_map",
}
for _n in ("np.einsum", "lax.fori_loop", "lax.while_loop", "jax.tree_util.tree_map", "jax.tree_map", "lax.dynamic_update_slice",
           "np.meshgrid", "np.broadcast_to", "np.expand_dims"):
    KNOWN_HERBRAND.discard(_n)  # no reading at all: marked when they appear

# leading positional parameters of library functions, for calls that pass them by keyword
PRIM_SIGS = {
    "lax.scan": ["f", "init", "xs"],
    "lax.cond": ["pred", "true_fun", "false_fun"],
    "lax.map": ["f", "xs"],
    "jax.vmap": ["fun"],
    "jax.pmap": ["fun"],
    "jax.jit": ["fun"],
    "np.where": ["condition", "x", "y"],
    "np.take": ["a", "indices"],
    "np.clip": [("a", "arr", "x")],
    "np.reshape": [("a", "x"), ("shape", "newshape")],
    "np.dot": ["a", "b"],
    "np.zeros": ["shape"],
    "np.zeros_like": [("a", "x")],
    "np.tile": ["A", "reps"],
    "np.argsort": ["a"],
    "np.ravel_multi_index": ["multi_index", "dims"], "np.unravel_index": ["indices", "shape"],
    "np.indices": ["dimensions"],
    "np.abs": ["x"], "np.absolute": ["x"], "np.exp": ["x"], "np.log": ["x"],
    "np.minimum": ["x1", "x2"], "np.maximum": ["x1", "x2"],
    "np.subtract": ["x1", "x2"], "np.add": ["x1", "x2"], "np.multiply": ["x1", "x2"], "np.divide": ["x1", "x2"],
    "np.not_equal": ["x1", "x2"], "np.equal": ["x1", "x2"], "np.less": ["x1", "x2"], "np.greater": ["x1", "x2"],
    "np.hstack": ["tup"], "np.vstack": ["tup"], "np.stack": ["arrays"], "np.concatenate": [("arrays", "a")],
    "random.split": ["key", "num"], "random.permutation": ["key", "x"],
}
for _r in ("max", "min", "sum", "any", "all", "argmax", "argmin", "prod", "mean", "count_nonzero", "ptp", "amax", "amin"):
    PRIM_SIGS["np." + _r] = ["a"]

PRIMS = {
    "jax.vmap": _p_vmap,
    "jax.pmap": _p_pmap,
    "jax.jit": _p_jit,
    "functools.partial": _p_partial,
    "lax.scan": _p_scan,
    "lax.cond": _p_cond,
    "lax.map": _p_laxmap,
    "np.take": _p_take,
    "np.where": _p_where,
    "np.abs": _p_pointwise("abs"),
    "np.absolute": _p_pointwise("abs"),
    "np.exp": _p_pointwise("exp"),
    "np.log": _p_pointwise("log"),
    "np.minimum": _p_pointwise("minimum"),
    "np.maximum": _p_pointwise("maximum"),
    "np.clip": _p_clip,
    "np.arange": _p_arange,
    "np.zeros": _p_zeros,
    "np.zeros_like": _p_zeros_like,
    "np.dot": _p_dot,
    "np.argsort": _p_argsort,
    "np.hstack": _p_stack("hstack"),
    "np.vstack": _p_stack("vstack"),
    "np.concatenate": _p_stack("hstack"),
    "np.stack": _p_stack("stack"),
    "np.reshape": _p_reshape,
    "np.tile": _p_tile,
    "itertools.product": _p_product,
    "np.select": _p_select,
    "np.flip": _p_flip,
    "np.iinfo": _p_iinfo,
    "np.pad": _p_pad,
    "functools.reduce": _p_functools_reduce,
    "np.atleast_1d": _p_atleast_1d,
    "random.split": _p_split,
    "random.permutation": _p_permutation,
}
for _r in REDUCERS:
    PRIMS["np." + _r] = _p_reduce(_r)


# function-form spellings of operators and reductions (equivalent numpy / jax.numpy API)
def _p_arith(op):
    def h(I, args, kw, node):
        if len(args) != 2 or kw:
            raise Unsupported(f"np-function form of {op} with {len(args)} arguments / keywords")
        return I.arith(op, args[0], args[1])
    return h


def _p_cmp(op):
    def h(I, args, kw, node):
        return I.compare(op, args[0], args[1])
    return h


def _p_ptp(I, args, kw, node):
    ax = kw.get("axis", args[1] if len(args) > 1 else NONE)
    return I.arith("Sub", I.reduce("max", args[0], ax), I.reduce("min", args[0], ax))


for _n, _op in (("subtract", "Sub"), ("add", "Add"), ("multiply", "Mult"), ("divide", "Div"), ("true_divide", "Div"),
                ("power", "Pow"), ("mod", "Mod"), ("remainder", "Mod"), ("floor_divide", "FloorDiv"), ("matmul", "MatMult"),
                ("logical_and", "BitAnd"), ("logical_or", "BitOr")):
    PRIMS["np." + _n] = _p_arith(_op)
for _n, _op in (("less", "Lt"), ("less_equal", "LtE"), ("greater", "Gt"), ("greater_equal", "GtE"), ("equal", "Eq"), ("not_equal", "NotEq")):
    PRIMS["np." + _n] = _p_cmp(_op)
for _n, _op in (("add", "Add"), ("sub", "Sub"), ("mul", "Mult"), ("truediv", "Div"), ("matmul", "MatMult"), ("mod", "Mod"), ("floordiv", "FloorDiv")):
    PRIMS["operator." + _n] = _p_arith(_op)
PRIMS["np.ptp"] = _p_ptp
PRIMS["np.amax"] = _p_reduce("max")
PRIMS["np.amin"] = _p_reduce("min")
PRIMS["np.negative"] = lambda I, args, kw, node: I.arith("Sub", ZERO, args[0])
PRIMS["np.square"] = lambda I, args, kw, node: I.arith("Mult", args[0], args[0])
PRIMS["np.logical_not"] = lambda I, args, kw, node: I.pointwise("not", [args[0]])


def _o_unbatch(I, args, kw, node):
    return I.unbatch(args[0], node)


def _o_prepare(I, args, kw, node):
    return ("batched", args[0])


OBJ_METHODS = {
    ("batch_processor", "unbatch_results"): _o_unbatch,
    ("batch_processor", "prepare_batches"): _o_prepare,
}


def solver_facts(extra=None):
    """Entry facts for analysing a solver method: symbolic problem / config / state."""
    f = {
        "problem": ("obj", "problem"),
        "config": ("obj", "config"),
        "batch_processor": ("obj", "batch_processor"),
        "batched_states": ("batched", S("problem.state_space")),
        "values": S("VALUES"),
        "gamma": S("GAMMA"),
        "epsilon": S("EPS"),
        "policy": S("POLICY"),
        "iteration": S("ITER"),
    }
    f.update(extra or {})
    return f
