"""Per-class effect summaries: attributes of `self` read / written (in place included),
transitively over calls resolved in the MRO of the class under analysis."""

from __future__ import annotations

import ast

from .classes import ClassInfo, ClassTable

TRANSFORMS = {"jax.pmap", "jax.jit", "jax.vmap", "jax.lax.scan", "functools.partial"}


def is_self_attr(node: ast.AST, name: str | None = None) -> bool:
    return (
        isinstance(node, ast.Attribute)
        and isinstance(node.value, ast.Name)
        and node.value.id == "self"
        and (name is None or node.attr == name)
    )


def is_super_call(node: ast.AST) -> str | None:
    """`super().m(...)` -> 'm'"""
    if (
        isinstance(node, ast.Call)
        and isinstance(node.func, ast.Attribute)
        and isinstance(node.func.value, ast.Call)
        and isinstance(node.func.value.func, ast.Name)
        and node.func.value.func.id == "super"
    ):
        return node.func.attr
    return None


class Effects:
    def __init__(self, ct: ClassTable, cls: ClassInfo):
        self.ct = ct
        self.cls = cls
        self._memo: dict[tuple[str, str], tuple[frozenset, frozenset]] = {}
        self._bound: dict[str, set[str]] | None = None

    # -- attribute-bound callables: self.X = jax.pmap(self.f, ...) / self.f / {..: (self.f, ..)}
    def bound_methods(self) -> dict[str, set[str]]:
        """attr -> names of methods of this class that the attribute may be bound to."""
        if self._bound is not None:
            return self._bound
        out: dict[str, set[str]] = {}
        methods = self.ct.methods_of(self.cls)
        for _name, (owner, fn) in methods.items():
            local_defs: dict[str, set[str]] = {}  # local name -> candidate methods
            for node in ast.walk(fn):
                if not isinstance(node, ast.Assign):
                    continue
                # a method *reference* (argument of pmap/jit, element of a dispatch table);
                # `self.m(...)` is a call whose result is stored, not a binding of m
                called = {id(c.func) for c in ast.walk(node.value) if isinstance(c, ast.Call)}
                cands = {
                    a.attr
                    for a in ast.walk(node.value)
                    if is_self_attr(a) and a.attr in methods and isinstance(a.ctx, ast.Load)
                    and id(a) not in called
                    and not self.ct.is_property(self.cls, a.attr)
                }
                # a local looked up in a dict of candidates: x = table[key]
                for a in ast.walk(node.value):
                    if isinstance(a, ast.Name) and a.id in local_defs:
                        cands |= local_defs[a.id]
                if not cands:
                    continue
                for t in node.targets:
                    for tt in ast.walk(t):
                        if is_self_attr(tt) and isinstance(tt.ctx, ast.Store):
                            out.setdefault(tt.attr, set()).update(cands)
                        elif isinstance(tt, ast.Name) and isinstance(tt.ctx, ast.Store):
                            local_defs.setdefault(tt.id, set()).update(cands)
        self._bound = out
        return out

    # -- direct effects of an arbitrary AST region
    def direct(self, region: ast.AST | list[ast.AST]):
        nodes = region if isinstance(region, list) else [region]
        R: set[str] = set()
        W: set[str] = set()
        for root in nodes:
            for n in ast.walk(root):
                if is_self_attr(n):
                    if isinstance(n.ctx, ast.Store):
                        W.add(n.attr)
                    elif isinstance(n.ctx, ast.Del):
                        W.add(n.attr)
                    else:
                        R.add(n.attr)
                if (isinstance(n, ast.Call) and isinstance(n.func, ast.Name) and n.func.id in ("getattr", "setattr", "hasattr")
                        and len(n.args) >= 2 and isinstance(n.args[0], ast.Name) and n.args[0].id == "self"
                        and isinstance(n.args[1], ast.Constant) and isinstance(n.args[1].value, str)):
                    if n.func.id == "getattr":
                        R.add(n.args[1].value)
                    elif n.func.id == "setattr":
                        W.add(n.args[1].value)
                if isinstance(n, (ast.Assign, ast.AugAssign, ast.AnnAssign)):
                    tg = n.targets if isinstance(n, ast.Assign) else [n.target]
                    for t in tg:
                        for s in ast.walk(t):
                            # self.a[i] = ... / self.a.b = ...  => in-place write of a
                            if isinstance(s, (ast.Subscript, ast.Attribute)) and isinstance(
                                s.ctx, ast.Store
                            ):
                                base = s.value
                                while isinstance(base, (ast.Subscript, ast.Attribute)) and not is_self_attr(base):
                                    base = base.value
                                if is_self_attr(base) and base is not s:
                                    W.add(base.attr)
                    if isinstance(n, ast.AugAssign) and is_self_attr(n.target):
                        R.add(n.target.attr)
        return R, W

    def callees(self, region, owner: ClassInfo):
        """Methods (owner, fn) that code in `region` may invoke on self."""
        nodes = region if isinstance(region, list) else [region]
        out = []
        bound = self.bound_methods()
        for root in nodes:
            for n in ast.walk(root):
                if is_self_attr(n) and isinstance(n.ctx, ast.Load):
                    r = self.ct.lookup(self.cls, n.attr)
                    if r:
                        out.append(r)
                    for m in bound.get(n.attr, ()):
                        r2 = self.ct.lookup(self.cls, m)
                        if r2:
                            out.append(r2)
                sname = is_super_call(n)
                if sname:
                    r = self.ct.lookup(self.cls, sname, after=owner)
                    if r:
                        out.append(r)
        return out

    def of_function(self, owner: ClassInfo, fn: ast.FunctionDef, _seen=None):
        key = (owner.qualname, fn.name)
        if key in self._memo:
            return self._memo[key]
        seen = _seen if _seen is not None else set()
        if key in seen:
            return frozenset(), frozenset()
        seen.add(key)
        R, W = self.direct(fn)
        for o2, f2 in self.callees(fn, owner):
            r2, w2 = self.of_function(o2, f2, seen)
            R |= r2
            W |= w2
        res = (frozenset(R), frozenset(W))
        if _seen is None:
            self._memo[key] = res
        return res

    def of_region(self, region, owner: ClassInfo):
        """Transitive (reads, writes) of a statement / list of statements in a method of owner."""
        R, W = self.direct(region)
        for o2, f2 in self.callees(region, owner):
            r2, w2 = self.of_function(o2, f2)
            R |= r2
            W |= w2
        return set(R), set(W)

    def reaches(self, region, owner: ClassInfo, pred) -> bool:
        """Does code in region (transitively through self-calls) contain a node satisfying pred?"""
        seen: set[tuple[str, str]] = set()

        def walk_region(reg, own) -> bool:
            nodes = reg if isinstance(reg, list) else [reg]
            for root in nodes:
                for n in ast.walk(root):
                    if pred(n):
                        return True
            for o2, f2 in self.callees(reg, own):
                k = (o2.qualname, f2.name)
                if k in seen:
                    continue
                seen.add(k)
                if walk_region(f2, o2):
                    return True
            return False

        return walk_region(region, owner)
