#!/usr/bin/env python3
"""Regenerate MANIFEST.json from the rule modules that exist (keeps it valid at all times)."""
import importlib, json, sys
from pathlib import Path
here = Path(__file__).resolve().parent
sys.path.insert(0, str(here))
NA_REASONS = json.loads((here / "not_applicable.json").read_text())
LEVEL_TEXT = json.loads((here / "levels.json").read_text())
checks, na = [], []
for n in range(1, 21):
    pid = f"C{n:02d}"
    try:
        mod = importlib.import_module(f"mdpaxlint.rules.{pid.lower()}")
    except ModuleNotFoundError:
        mod = None
    if mod is None or pid in NA_REASONS.get("force", {}):
        na.append({"property_id": pid, "reason": NA_REASONS.get("force", {}).get(pid) or NA_REASONS["pending"].get(pid, "designed in DESIGN.md section 6, rule set not built yet")})
        continue
    lt = LEVEL_TEXT.get(pid, {})
    checks.append({
        "property_id": pid,
        "quick_cmd": f"./check {pid} quick",
        "thorough_cmd": f"./check {pid} thorough",
        "evidence_file": f"/verif/evidence/{pid}.json",
        "replay_cmd_template": f"./check {pid} quick --explain {{path}}",
        "engine": "mdpaxlint",
        "level_claimed": {
            "category": "other",
            "text": lt.get("text", mod.EXPLANATION),
            "design_ref": f"DESIGN.md section 6, {pid}",
        },
        "level_note": lt.get("note", "; ".join(mod.ASSUMPTIONS)),
        "technique": lt.get("technique", "static analysis: AST / CFG path rules and abstract interpretation to Herbrand terms"),
    })
man = {
    "version": 1,
    "setup_cmd": "true",
    "hooks": {
        "guard": "MDPAX_VERIF",
        "enable": "no hooks: the checks read /repo/src/mdpax as text (python3 stdlib ast); nothing in /repo is built, imported or instrumented",
        "baseline_off_cmd": "cd /repo && /venv/bin/python -m pytest -ra -q -p no:cacheprovider --timeout=900 --continue-on-collection-errors",
        "source_commits": [],
        "add_only": True,
    },
    "engines": [{
        "name": "mdpaxlint",
        "path": "/verif/mdpaxlint",
        "serves_properties": [c["property_id"] for c in checks],
        "kind_free_text": "repository-specific static analyser: class table + MRO, statement CFG with dominators and path enumeration, transitive self-attribute effects, abstract interpretation of solver/problem kernels into Herbrand terms with a commutative-ring normaliser (JAX vmap/pmap/scan comprehension semantics), interval/segment domain; two-way self-test on in-memory source variants",
    }],
    "checks": checks,
    "notes": "All verdicts are computed from the source text of /repo/src/mdpax on every run; mdpax is never imported or executed. exit 0 holds / exit 1 VIOLATION / exit 2 ANALYSIS-ERROR. Each check decides the structural clauses listed in DESIGN.md section 6 for its property, not the numerical behaviour; see level_claimed.text.",
    "not_applicable": na,
}
(here / "MANIFEST.json").write_text(json.dumps(man, indent=1) + "\n")
print(f"{len(checks)} checks, {len(na)} not applicable")
