"""Scalar replacement of private collaborator objects (part of the canonical program form, see canon.py).

"Extract class" is a refactoring like "extract method": a solver that keeps two fields and three statements
in a small private object (`self._history = _ValueHistory(..)`, `self._history.push(v)`) behaves exactly like the
solver that keeps the fields itself.  The rules are written against the latter shape, so the former is rewritten
into it before any rule runs:

  * attribute-held objects:  `self.x = C(args)` where C is a plain class of the package (no bases, no decorators,
    no subclasses, no dunder methods besides __init__, `self` only ever used as `self.<name>`), no rule names C,
    and `self.x` never escapes (every use in the package is `self.x.<field | method call | property>` inside the
    host class or its subclasses):  C's methods are copied into the host class with C's fields renamed
    `x__<field>`, the constructor call becomes a call of the copied __init__, `self.x.m(..)` a call of the copied
    method, `self.x.f` the renamed field.  The ordinary helper inliner then dissolves the copied methods.
  * local objects:  `v = C(args)` in one function, every use `v.<field | method call>`:  the same with the fields
    as locals `v__<field>`; done only when every call dissolves (otherwise the function is left as it was).
  * a property pair that only forwards to one data attribute (`return self.B` / `self.B = value`) is the
    attribute: B is renamed to the property's name and the pair is dropped.

When a precondition fails nothing is rewritten: the rules then see the collaborator as before (and say that they
cannot follow it).  Nothing here executes mdpax code."""

from __future__ import annotations

import ast
import copy
import re

from .canon import Inliner, _assigned_names, _contains, anchor_names


def _parent_map(root: ast.AST) -> dict[int, ast.AST]:
    out: dict[int, ast.AST] = {}
    for p in ast.walk(root):
        for c in ast.iter_child_nodes(p):
            out[id(c)] = p
    return out


def _strip_doc(body):
    if body and isinstance(body[0], ast.Expr) and isinstance(body[0].value, ast.Constant) and isinstance(body[0].value.value, str):
        return body[1:]
    return body


class _Shape:
    """what a plain collaborator class consists of"""

    def __init__(self, ci):
        self.ci = ci
        self.methods: dict[str, ast.FunctionDef] = {}
        self.props: dict[str, ast.FunctionDef] = {}
        self.setters: dict[str, ast.FunctionDef] = {}
        self.statics: set[str] = set()
        self.class_attrs: dict[str, ast.AST] = {}
        self.fields: set[str] = set()


def _shape_of(ct, ci, anchors) -> _Shape | None:
    node = ci.node
    if node.bases or node.keywords or node.decorator_list or ci.name in anchors or ct.subclasses(ci):
        return None
    sh = _Shape(ci)
    for item in node.body:
        if isinstance(item, ast.FunctionDef):
            if item.name.startswith("__") and item.name != "__init__":
                return None
            decos = [ast.unparse(d) for d in item.decorator_list]
            if decos == ["property"]:
                sh.props[item.name] = item
            elif len(decos) == 1 and decos[0].endswith(".setter"):
                sh.setters[item.name] = item
            elif decos == ["staticmethod"]:
                sh.methods[item.name] = item
                sh.statics.add(item.name)
            elif not decos:
                sh.methods[item.name] = item
            else:
                return None
            a = item.args
            if a.vararg or a.kwarg or a.posonlyargs:
                return None
            if _contains(item.body, (ast.Yield, ast.YieldFrom, ast.Await, ast.Global, ast.Nonlocal, ast.ClassDef, ast.AsyncFunctionDef)):
                return None
        elif isinstance(item, ast.Assign) and len(item.targets) == 1 and isinstance(item.targets[0], ast.Name):
            if item.targets[0].id == "__slots__":
                if isinstance(item.value, (ast.Tuple, ast.List)) and all(isinstance(e, ast.Constant) and isinstance(e.value, str) for e in item.value.elts):
                    sh.fields |= {e.value for e in item.value.elts}
                    continue
                return None
            sh.class_attrs[item.targets[0].id] = item.value
        elif isinstance(item, ast.AnnAssign) and isinstance(item.target, ast.Name):
            if item.value is not None:
                sh.class_attrs[item.target.id] = item.value
            else:
                sh.fields.add(item.target.id)
        elif isinstance(item, ast.Pass) or (isinstance(item, ast.Expr) and isinstance(item.value, ast.Constant)):
            continue
        else:
            return None
    # `self` is only ever the receiver of an attribute access
    for fn in list(sh.methods.values()) + list(sh.props.values()) + list(sh.setters.values()):
        if fn.name in sh.statics:
            continue
        if not fn.args.args or fn.args.args[0].arg != "self":
            return None
        par = _parent_map(fn)
        for n in ast.walk(fn):
            if isinstance(n, ast.Name) and n.id == "self":
                p = par.get(id(n))
                if not (isinstance(p, ast.Attribute) and p.value is n):
                    return None
                if isinstance(p.ctx, ast.Store) or isinstance(p.ctx, ast.Del):
                    if isinstance(p.ctx, ast.Del):
                        return None
                    sh.fields.add(p.attr)
            if isinstance(n, ast.arg) and n.arg == "self" and n is not fn.args.args[0]:
                return None
    sh.fields |= set(sh.class_attrs)
    known = sh.fields | set(sh.methods) | set(sh.props)
    if set(sh.methods) & sh.fields or set(sh.props) & sh.fields:
        return None
    for fn in list(sh.methods.values()) + list(sh.props.values()) + list(sh.setters.values()):
        par = _parent_map(fn)
        for n in ast.walk(fn):
            if isinstance(n, ast.Attribute) and isinstance(n.value, ast.Name) and n.value.id == "self" and fn.name not in sh.statics:
                if n.attr not in known:
                    return None
                if n.attr in sh.methods:
                    p = par.get(id(n))
                    if not (isinstance(p, ast.Call) and p.func is n):
                        return None
    return sh


def _names_agree(ct, c, module) -> bool:
    """the collaborator's methods are copied into `module`: their free names must mean the same thing there"""
    if c.module is module:
        return True
    import builtins as _b

    for fn in [it for it in c.node.body if isinstance(it, ast.FunctionDef)]:
        bound = {a.arg for a in fn.args.args + fn.args.kwonlyargs} | _assigned_names(fn.body)
        for n in ast.walk(fn):
            if isinstance(n, ast.Name) and isinstance(n.ctx, ast.Load) and n.id not in bound and not hasattr(_b, n.id):
                here, there = module.imports.get(n.id), c.module.imports.get(n.id)
                if here is None or here != there:
                    return False
    return True


def _copy_method(fn: ast.FunctionDef, sh: _Shape, field_name, method_name, as_local: bool, free: bool = False):
    """fn with C's members renamed: fields -> `self.<field_name(f)>` (or the local `<field_name(f)>`), methods and
    properties -> `self.<method_name(m)>`"""
    new = copy.deepcopy(fn)
    new.name = method_name(fn.name)
    decos = []
    for d in new.decorator_list:
        s = ast.unparse(d)
        if s.endswith(".setter"):
            d = ast.Attribute(value=ast.Name(id=method_name(s[: -len(".setter")]), ctx=ast.Load()), attr="setter", ctx=ast.Load())
        decos.append(d)
    new.decorator_list = decos
    static = fn.name in sh.statics

    class R(ast.NodeTransformer):
        def visit_Attribute(self, n):
            self.generic_visit(n)
            if not static and isinstance(n.value, ast.Name) and n.value.id == "self":
                if n.attr in sh.fields:
                    if as_local:
                        return ast.copy_location(ast.Name(id=field_name(n.attr), ctx=n.ctx), n)
                    n.attr = field_name(n.attr)
                elif free:
                    return ast.copy_location(ast.Name(id=method_name(n.attr), ctx=ast.Load()), n)
                else:
                    n.attr = method_name(n.attr)
            return n

    new.body = [R().visit(s) for s in new.body]
    return new


def _class_ref(ct, module, e: ast.AST):
    if not isinstance(e, ast.Name):
        return None
    dotted = ct.resolve_name(module, e.id)
    ci = ct.by_qual.get(dotted)
    if ci is None:
        r = ct.repo.resolve_dotted(dotted)
        if r and isinstance(r[1], ast.ClassDef):
            ci = ct.by_qual.get(f"{r[0].name}.{r[1].name}")
    return ci


def _all_attr_nodes(ct, attr: str):
    out = []
    for m in ct.repo.modules.values():
        for n in ast.walk(m.tree):
            if isinstance(n, ast.Attribute) and n.attr == attr:
                out.append(n)
    return out


def _strings_mention(ct, name: str) -> bool:
    for m in ct.repo.modules.values():
        for n in ast.walk(m.tree):
            if isinstance(n, ast.Constant) and isinstance(n.value, str) and n.value == name:
                return True
    return False


def _register(ci, fn: ast.FunctionDef):
    ci.node.body.append(fn)
    decos_ = [ast.unparse(d) for d in fn.decorator_list]
    if any(d.endswith((".setter", ".deleter")) for d in decos_) and fn.name in ci.methods:
        return
    ci.methods[fn.name] = fn


# ------------------------------------------------------------------------------------------------ attribute-held objects
def _flatten_attribute_objects(ct, anchors, log, done):
    shapes: dict[str, _Shape | None] = {}

    def shape(ci):
        if ci.qualname not in shapes:
            shapes[ci.qualname] = _shape_of(ct, ci, anchors)
        return shapes[ci.qualname]

    # constructor sites  self.x = C(..)
    sites: dict[str, list] = {}
    for host in list(ct.by_qual.values()):
        for fn in host.methods.values():
            for st in ast.walk(fn):
                if isinstance(st, ast.Assign) and len(st.targets) == 1 and isinstance(st.value, ast.Call):
                    t = st.targets[0]
                    if isinstance(t, ast.Attribute) and isinstance(t.value, ast.Name) and t.value.id == "self":
                        c = _class_ref(ct, host.module, st.value.func)
                        if c is not None and c != host and shape(c) is not None:
                            sites.setdefault(t.attr, []).append((host, st, c))
    for x, lst in sorted(sites.items()):
        cs = {c.qualname for _h, _s, c in lst}
        if len(cs) != 1 or x in anchors:
            continue
        c = lst[0][2]
        sh = shape(c)
        hosts = []
        for h, _s, _c in lst:
            if h not in hosts:
                hosts.append(h)
        top = [h for h in hosts if all(o == h or h in ct.mro(o) for o in hosts)]
        if not top:
            continue
        host = top[0]
        family = [host] + ct.subclasses(host)
        if any(x in k.methods or x in k.attrs or x in k.fields for k in ct.mro(host) + family):
            continue
        if _strings_mention(ct, x) or not _names_agree(ct, c, host.module):
            continue
        everywhere = _all_attr_nodes(ct, x)
        inside = []
        ok = True
        for k in family:
            par = _parent_map(k.node)
            for n in ast.walk(k.node):
                if isinstance(n, ast.Attribute) and n.attr == x:
                    inside.append(n)
                    if not (isinstance(n.value, ast.Name) and n.value.id == "self"):
                        ok = False
                        continue
                    p = par.get(id(n))
                    if isinstance(n.ctx, ast.Store):
                        if not (isinstance(p, ast.Assign) and len(p.targets) == 1 and p.targets[0] is n and any(p is s for _h, s, _c in lst)):
                            ok = False
                    elif isinstance(n.ctx, ast.Load):
                        if not (isinstance(p, ast.Attribute) and p.value is n):
                            ok = False
                            continue
                        if p.attr in sh.methods:
                            g = par.get(id(p))
                            if not (isinstance(g, ast.Call) and g.func is p):
                                ok = False
                        elif p.attr in sh.fields or p.attr in sh.props:
                            if p.attr in sh.props and isinstance(p.ctx, ast.Store) and p.attr not in sh.setters:
                                ok = False
                        else:
                            ok = False
                    else:
                        ok = False
        # subclasses are visited through their own ClassDef as well as (for nested definitions) their parents': count ids
        if not ok or {id(n) for n in inside} != {id(n) for n in everywhere}:
            continue
        stem = x.lstrip("_")

        def field_name(f, x=x):
            return f"{x}__{f}"

        def method_name(m_, stem=stem):
            return f"_{stem}_m_{m_.strip('_')}"

        new_names = {field_name(f) for f in sh.fields} | {method_name(m_) for m_ in list(sh.methods) + list(sh.props)}
        clash = False
        for m in ct.repo.modules.values():
            for n in ast.walk(m.tree):
                if isinstance(n, ast.Attribute) and n.attr in new_names:
                    clash = True
        if clash:
            continue
        # copy C's members into the host
        for name, v in sh.class_attrs.items():
            a = ast.Assign(targets=[ast.Name(id=field_name(name), ctx=ast.Store())], value=copy.deepcopy(v))
            ast.copy_location(a, v)
            ast.fix_missing_locations(a)
            host.node.body.append(a)
            host.attrs[field_name(name)] = a.value
        for item in c.node.body:
            if isinstance(item, ast.FunctionDef):
                new = _copy_method(item, sh, field_name, method_name, as_local=False)
                ast.fix_missing_locations(new)
                _register(host, new)
        has_init = "__init__" in sh.methods

        class RW(ast.NodeTransformer):
            def visit_Assign(self, st):
                if any(st is s for _h, s, _c in lst):
                    args = [self.visit(a) for a in st.value.args]
                    kws = [ast.keyword(arg=k.arg, value=self.visit(k.value)) for k in st.value.keywords]
                    if not has_init:
                        return ast.copy_location(ast.Pass(), st)
                    call = ast.Call(func=ast.Attribute(value=ast.Name(id="self", ctx=ast.Load()), attr=method_name("__init__"), ctx=ast.Load()),
                                    args=args, keywords=kws)
                    return ast.fix_missing_locations(ast.copy_location(ast.Expr(value=ast.copy_location(call, st.value)), st))
                return self.generic_visit(st)

            def visit_Attribute(self, n):
                self.generic_visit(n)
                v = n.value
                if isinstance(v, ast.Attribute) and v.attr == x and isinstance(v.value, ast.Name) and v.value.id == "self":
                    new_attr = field_name(n.attr) if n.attr in sh.fields else method_name(n.attr)
                    return ast.copy_location(ast.Attribute(value=ast.Name(id="self", ctx=ast.Load()), attr=new_attr, ctx=n.ctx), n)
                return n

        for k in family:
            RW().visit(k.node)
            ast.fix_missing_locations(k.node)
        log.append(f"{host.module.relpath}:{lst[0][1].lineno} self.{x} = {c.name}(..) flattened into {host.name}")
        done.append(c)


# ------------------------------------------------------------------------------------------------ forwarding property pairs
def _collapse_forwarding_properties(ct, anchors, log):
    for k in list(ct.by_qual.values()):
        getters = {}
        setters = {}
        for item in k.node.body:
            if isinstance(item, ast.FunctionDef):
                decos = [ast.unparse(d) for d in item.decorator_list]
                if decos == ["property"]:
                    getters[item.name] = item
                elif len(decos) == 1 and decos[0].endswith(".setter"):
                    setters[decos[0][: -len(".setter")]] = item
                elif any(d.endswith(".deleter") for d in decos):
                    getters.pop(item.name, None)
        for p, g in getters.items():
            s = setters.get(p)
            if s is None or s.name != p:
                continue
            gb, sb = _strip_doc(g.body), _strip_doc(s.body)
            if len(gb) != 1 or len(sb) != 1 or not isinstance(gb[0], ast.Return) or not isinstance(sb[0], ast.Assign):
                continue
            r = gb[0].value
            if not (isinstance(r, ast.Attribute) and isinstance(r.value, ast.Name) and r.value.id == "self"):
                continue
            b = r.attr
            a = sb[0]
            if len(s.args.args) != 2 or len(a.targets) != 1:
                continue
            t = a.targets[0]
            if not (isinstance(t, ast.Attribute) and isinstance(t.value, ast.Name) and t.value.id == "self" and t.attr == b
                    and isinstance(a.value, ast.Name) and a.value.id == s.args.args[1].arg):
                continue
            family = [k] + ct.subclasses(k)
            if any(b in c.methods or b in c.attrs for c in ct.mro(k) + family) or b in anchors or _strings_mention(ct, b):
                continue
            # the property must not be overridden below, nor defined above
            if any(p in c.methods for c in family[1:]) or any(p in c.methods for c in ct.mro(k)[1:]):
                continue
            inside = [n for c in family for n in ast.walk(c.node) if isinstance(n, ast.Attribute) and n.attr == b]
            if {id(n) for n in inside} != {id(n) for n in _all_attr_nodes(ct, b)}:
                continue
            if not all(isinstance(n.value, ast.Name) and n.value.id == "self" for n in inside):
                continue
            k.node.body = [it for it in k.node.body if it is not g and it is not s] or [ast.Pass()]
            k.methods.pop(p, None)
            for n in inside:
                n.attr = p
            log.append(f"{k.module.relpath}:{g.lineno} property {k.name}.{p} only forwards to self.{b}: collapsed")


# ------------------------------------------------------------------------------------------------ local objects
def _flatten_local_objects(ct, anchors, log, done):
    shapes: dict[str, _Shape | None] = {}

    def shape(ci):
        if ci.qualname not in shapes:
            shapes[ci.qualname] = _shape_of(ct, ci, anchors)
        return shapes[ci.qualname]

    def functions():
        for ci in list(ct.by_qual.values()):
            for name, fn in list(ci.methods.items()):
                yield ci, ci.module, fn
        for m in ct.repo.modules.values():
            for fn in list(m.functions.values()):
                yield None, m, fn

    for owner, module, fn in functions():
        cands = []
        for st in fn.body:
            if isinstance(st, ast.Assign) and len(st.targets) == 1 and isinstance(st.targets[0], ast.Name) and isinstance(st.value, ast.Call):
                c = _class_ref(ct, module, st.value.func)
                if c is not None and c != owner and shape(c) is not None:
                    cands.append((st, st.targets[0].id, c))
        for st, v, c in cands:
            sh = shape(c)
            if sh.props or sh.setters or sh.statics or not _names_agree(ct, c, module):
                continue
            par = _parent_map(fn)
            ok = True
            for n in ast.walk(fn):
                if isinstance(n, ast.Name) and n.id == v:
                    if n is st.targets[0]:
                        continue
                    p = par.get(id(n))
                    if not (isinstance(n.ctx, ast.Load) and isinstance(p, ast.Attribute) and p.value is n):
                        ok = False
                        break
                    if p.attr in sh.methods:
                        g = par.get(id(p))
                        if not (isinstance(g, ast.Call) and g.func is p):
                            ok = False
                    elif p.attr not in sh.fields:
                        ok = False
                if isinstance(n, (ast.FunctionDef, ast.Lambda)) and n is not fn and any(isinstance(q, ast.Name) and q.id == v for q in ast.walk(n)):
                    ok = False
                if isinstance(n, ast.arg) and n.arg == v:
                    ok = False
            if not ok:
                continue

            def field_name(f, v=v):
                return f"{v}__{f}"

            def method_name(m_, v=v, c=c):
                return f"_{c.name.strip('_')}_of_{v}_m_{m_.strip('_')}"

            trial = copy.deepcopy(fn)
            tst = trial.body[fn.body.index(st)]
            # temporary copies of C's methods with the fields as names of the calling function's scope
            temp = []
            for item in c.node.body:
                if isinstance(item, ast.FunctionDef):
                    new = _copy_method(item, sh, field_name, method_name, as_local=True, free=owner is None)
                    new._caller_scope = {field_name(f) for f in sh.fields}  # type: ignore[attr-defined]
                    if owner is None:
                        new.args.args = new.args.args[1:]
                    ast.fix_missing_locations(new)
                    temp.append(new)

            def recv():
                return ast.Name(id="self", ctx=ast.Load())

            class RW(ast.NodeTransformer):
                def visit_Attribute(self, n):
                    self.generic_visit(n)
                    if isinstance(n.value, ast.Name) and n.value.id == v:
                        if n.attr in sh.fields:
                            return ast.copy_location(ast.Name(id=field_name(n.attr), ctx=n.ctx), n)
                        if owner is None:
                            return ast.copy_location(ast.Name(id=method_name(n.attr), ctx=ast.Load()), n)
                        return ast.copy_location(ast.Attribute(value=recv(), attr=method_name(n.attr), ctx=ast.Load()), n)
                    return n

            if "__init__" in sh.methods:
                f_ = ast.Name(id=method_name("__init__"), ctx=ast.Load()) if owner is None else \
                    ast.Attribute(value=recv(), attr=method_name("__init__"), ctx=ast.Load())
                call = ast.Call(func=f_, args=tst.value.args, keywords=tst.value.keywords)
                repl = ast.copy_location(ast.Expr(value=ast.copy_location(call, tst.value)), tst)
            else:
                repl = ast.copy_location(ast.Pass(), tst)
            trial.body[fn.body.index(st)] = repl
            RW().visit(trial)
            ast.fix_missing_locations(trial)
            # class-level constants of C become locals initialised in front
            pre = []
            for name, val in sh.class_attrs.items():
                pre.append(ast.fix_missing_locations(ast.copy_location(
                    ast.Assign(targets=[ast.Name(id=field_name(name), ctx=ast.Store())], value=copy.deepcopy(val)), st)))
            i0 = trial.body.index(repl)
            trial.body[i0:i0] = pre
            # register the temporaries, dissolve them, and keep the result only if nothing of them is left
            for t in temp:
                if owner is None:
                    module.functions[t.name] = t
                else:
                    owner.methods[t.name] = t
            try:
                inl = Inliner(ct)
                inl.anchors = set(inl.anchors) - {t.name for t in temp}
                inl.run_function(trial, owner, module)
            finally:
                for t in temp:
                    if owner is None:
                        module.functions.pop(t.name, None)
                    else:
                        owner.methods.pop(t.name, None)
            names = {t.name for t in temp}
            left = any((isinstance(n, ast.Attribute) and n.attr in names) or (isinstance(n, ast.Name) and n.id in names) for n in ast.walk(trial))
            if left:
                continue
            fn.body = trial.body
            ast.fix_missing_locations(fn)
            _fold_bound_method_fields(ct, owner, fn, {field_name(f) for f in sh.fields})
            log.append(f"{module.relpath}:{st.lineno} {v} = {c.name}(..) flattened into {fn.name}")
            done.append(c)
            break  # one object per function and pass; statement indices have moved


_INVENTED = re.compile(r"__i\d+$")


def _fold_bound_method_fields(ct, owner, fn, locals_):
    """Copy propagation over the names the flattening invented (the object's fields, parameter temporaries of the inliner):
    `t = u` with both bound once -> uses of t are u;  `t = self.m` (a plain method of the host) or a constant -> uses of t are
    that;  `self.m is None` is False."""
    params = {a.arg for a in fn.args.args + fn.args.kwonlyargs}
    for _round in range(6):
        stores: dict[str, int] = {}
        for n in ast.walk(fn):
            if isinstance(n, ast.Name) and isinstance(n.ctx, (ast.Store, ast.Del)):
                stores[n.id] = stores.get(n.id, 0) + 1
        subst: dict[str, ast.AST] = {}
        for st in fn.body:
            if not (isinstance(st, ast.Assign) and len(st.targets) == 1 and isinstance(st.targets[0], ast.Name)):
                continue
            t = st.targets[0].id
            if not (t in locals_ or _INVENTED.search(t)) or stores.get(t, 0) != 1 or t in params:
                continue
            v = st.value
            if isinstance(v, ast.Name) and v.id != t and ((v.id in params and stores.get(v.id, 0) == 0) or stores.get(v.id, 0) == 1):
                subst[t] = v
            elif owner is not None and isinstance(v, ast.Attribute) and isinstance(v.value, ast.Name) and v.value.id == "self":
                r = ct.lookup(owner, v.attr)
                if r is not None and not r[1].decorator_list:
                    subst[t] = v
            elif isinstance(v, ast.Constant):
                subst[t] = v
        if not subst:
            break
        for t in list(subst):  # chains t -> u -> e decided in the same round
            seen = {t}
            while isinstance(subst[t], ast.Name) and subst[t].id in subst and subst[t].id not in seen:
                seen.add(subst[t].id)
                subst[t] = subst[subst[t].id]
        methods = [ast.dump(s_) for s_ in subst.values() if isinstance(s_, ast.Attribute)]

        class S(ast.NodeTransformer):
            def visit_Name(self, n):
                if isinstance(n.ctx, ast.Load) and n.id in subst:
                    return ast.copy_location(copy.deepcopy(subst[n.id]), n)
                return n

            def visit_Compare(self, n):
                self.generic_visit(n)
                if len(n.ops) == 1 and isinstance(n.ops[0], (ast.Is, ast.IsNot)) and isinstance(n.comparators[0], ast.Constant) \
                        and n.comparators[0].value is None:
                    lhs = n.left
                    if isinstance(lhs, ast.Attribute) and ast.dump(lhs) in methods:
                        return ast.copy_location(ast.Constant(value=isinstance(n.ops[0], ast.IsNot)), n)
                    if isinstance(lhs, ast.Constant):
                        same = lhs.value is None
                        return ast.copy_location(ast.Constant(value=same if isinstance(n.ops[0], ast.Is) else not same), n)
                return n

        fn.body = [s_ for s_ in fn.body if not (isinstance(s_, ast.Assign) and len(s_.targets) == 1 and isinstance(s_.targets[0], ast.Name)
                                                and s_.targets[0].id in subst)]
        fn.body = [S().visit(s_) for s_ in fn.body] or [ast.Pass()]
        ast.fix_missing_locations(fn)


def _drop_dead_collaborators(ct, classes, log):
    for c in classes:
        used = False
        for m in ct.repo.modules.values():
            for n in ast.walk(m.tree):
                if isinstance(n, ast.Name) and n.id == c.name and isinstance(n.ctx, ast.Load):
                    used = True
                elif isinstance(n, ast.Attribute) and n.attr == c.name:
                    used = True
                elif isinstance(n, ast.Constant) and n.value == c.name:
                    used = True
        if used or c.qualname not in ct.by_qual:
            continue
        del ct.by_qual[c.qualname]
        ct.by_name[c.name] = [k for k in ct.by_name.get(c.name, []) if k != c]
        c.module.classes.pop(c.name, None)
        c.module.tree.body = [b for b in c.module.tree.body if b is not c.node]
        log.append(f"{c.module.relpath}:{c.node.lineno} class {c.name} (dissolved into its only user: dropped)")


def synthesize_dataclass_init(ct, log) -> None:
    """A class turned into a dataclass with InitVar / field(init=False) fields and its constructor body moved into __post_init__ has the
    constructor `__init__(self, <init fields and InitVars>)`: store the init fields, then run __post_init__ with the InitVars.  That
    constructor is written out (the generated one is invisible to a reader of the source), so rules anchored on `__init__` find it."""
    for ci in list(ct.by_qual.values()):
        decos = [ast.unparse(d.func if isinstance(d, ast.Call) else d) for d in ci.node.decorator_list]
        if not any(d.split(".")[-1] == "dataclass" for d in decos) or "__init__" in ci.methods or "__post_init__" not in ci.methods:
            continue
        if any(b.is_dataclass() for b in ct.mro(ci)[1:]):
            continue
        params, initvars, stores = [], [], []
        special = False
        okc = True
        for item in ci.node.body:
            if not (isinstance(item, ast.AnnAssign) and isinstance(item.target, ast.Name)):
                continue
            ann = ast.unparse(item.annotation)
            name = item.target.id
            if ann.startswith(("ClassVar", "typing.ClassVar")):
                continue
            default = item.value
            if isinstance(default, ast.Call) and ast.unparse(default.func).split(".")[-1] == "field":
                kws = {k.arg: k.value for k in default.keywords}
                if isinstance(kws.get("init"), ast.Constant) and kws["init"].value is False:
                    special = True
                    continue
                if "default_factory" in kws:
                    okc = False
                    break
                default = kws.get("default")
            if ann.startswith(("InitVar", "dataclasses.InitVar")):
                special = True
                initvars.append(name)
            else:
                stores.append(name)
            params.append((name, default))
        post = ci.methods["__post_init__"]
        if not okc or not special or [a.arg for a in post.args.args][1:] != initvars or post.args.vararg or post.args.kwarg or post.args.kwonlyargs:
            continue
        seen_default = False
        for _n, d in params:
            if d is not None:
                seen_default = True
            elif seen_default:
                okc = False
        if not okc:
            continue
        args = ast.arguments(posonlyargs=[], args=[ast.arg(arg="self")] + [ast.arg(arg=n) for n, _d in params], vararg=None, kwonlyargs=[],
                             kw_defaults=[], kwarg=None, defaults=[copy.deepcopy(d) for _n, d in params if d is not None])
        body = [ast.Assign(targets=[ast.Attribute(value=ast.Name(id="self", ctx=ast.Load()), attr=n, ctx=ast.Store())], value=ast.Name(id=n, ctx=ast.Load()))
                for n in stores]
        pbody = copy.deepcopy(post.body)
        if pbody and isinstance(pbody[0], ast.Expr) and isinstance(pbody[0].value, ast.Constant) and isinstance(pbody[0].value.value, str):
            pbody = pbody[1:]
        init = ast.FunctionDef(name="__init__", args=args, body=body + pbody or [ast.Pass()], decorator_list=[], returns=None, type_comment=None)
        if hasattr(post, "type_params"):
            init.type_params = []
        ast.copy_location(init, post)
        for st in body:
            ast.copy_location(st, post)
        ast.fix_missing_locations(init)
        ci.node.body.append(init)
        ci.methods["__init__"] = init
        log.append(f"{ci.module.relpath}:{post.lineno} {ci.name}.__init__ written out from the dataclass fields and __post_init__")


def flatten_objects(ct) -> list[str]:
    anchors = anchor_names()
    log: list[str] = []
    done: list = []
    synthesize_dataclass_init(ct, log)
    _flatten_attribute_objects(ct, anchors, log, done)
    _flatten_local_objects(ct, anchors, log, done)
    _collapse_forwarding_properties(ct, anchors, log)
    _drop_dead_collaborators(ct, done, log)
    return log
