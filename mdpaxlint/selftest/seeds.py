"""The independently seeded changes stored under /verif/seeded/ as standing regression variants: each patch is
applied in memory (unified-diff hunks against today's source) and the checks recorded in its meta.json as
reporting it must still report it.  A patch whose context no longer matches the tree is skipped, not failed."""

from __future__ import annotations

import json
import re
from pathlib import Path

SEEDED = Path(__file__).resolve().parents[2] / "seeded"
_HUNK = re.compile(r"^@@ -(\d+)(?:,(\d+))? \+(\d+)(?:,(\d+))? @@")


def apply_unified(diff_text: str, read) -> dict[str, str] | None:
    """{relpath: new source} or None if some hunk does not match. `read(relpath)` returns the current source."""
    files: dict[str, list] = {}
    created: set[str] = set()
    cur = None
    hunk = None
    from_null = False
    for line in diff_text.splitlines():
        if line.startswith("+++ "):
            path = line[4:].strip()
            cur = path[2:] if path.startswith("b/") else path
            files[cur] = []
            if from_null:
                created.add(cur)
            hunk = None
        elif line.startswith("--- "):
            from_null = line[4:].strip() == "/dev/null"
            hunk = None
            continue
        elif hunk is None and line.startswith(("diff ", "index ", "new file mode", "deleted file mode", "old mode", "new mode", "similarity index",
                                               "rename from", "rename to")):
            if line.startswith(("deleted file mode", "rename from")):
                return None  # not used by any stored patch; would need the overlay to drop a module
            continue
        elif line.startswith("diff "):
            hunk = None
            continue
        elif line.startswith("@@"):
            m = _HUNK.match(line)
            if not m or cur is None:
                return None
            hunk = {"start": int(m.group(1)), "lines": []}
            files[cur].append(hunk)
        elif hunk is not None and (line[:1] in (" ", "+", "-") or line == ""):
            hunk["lines"].append(line if line else " ")
        elif line.startswith("\\"):
            continue
    out = {}
    for rel, hunks in files.items():
        if rel in created:
            src = []
        else:
            try:
                src = read(rel).split("\n")
            except OSError:
                return None
        offset = 0
        for h in hunks:
            old = [l[1:] for l in h["lines"] if l[0] in (" ", "-")]
            new = [l[1:] for l in h["lines"] if l[0] in (" ", "+")]
            pos = h["start"] - 1 + offset
            found = None
            for delta in [0] + [d for k in range(1, 60) for d in (k, -k)]:
                p = pos + delta
                if 0 <= p and src[p:p + len(old)] == old:
                    found = p
                    break
            if found is None:
                return None
            src[found:found + len(old)] = new
            offset += len(new) - len(old) + (found - pos)
        out[rel] = "\n".join(src)
    return out


def seed_variants(prop: str, root: Path):
    out = []
    if not SEEDED.is_dir():
        return out
    for d in sorted(SEEDED.iterdir()):
        mp, pp = d / "meta.json", d / "patch.diff"
        if not (mp.exists() and pp.exists()):
            continue
        try:
            meta = json.loads(mp.read_text())
        except ValueError:
            continue
        rep = meta.get("reported_by") or {}
        if prop not in rep:
            continue
        overlay = apply_unified(pp.read_text(), lambda rel: (root / rel).read_text())
        out.append({"id": d.name.split("-")[0], "seed": d.name, "overlay": overlay, "note": f"seeded change {d.name}"})
    return out


BENIGN_DIR = Path(__file__).resolve().parents[2] / "benign_refactors"


def benign_patch_variants(root: Path):
    """Behaviour-preserving refactorings written by independent sub-agents (stored as patches): every check must stay
    silent on each of them."""
    out = []
    if not BENIGN_DIR.is_dir():
        return out
    for f in sorted(BENIGN_DIR.glob("*.diff")):
        overlay = apply_unified(f.read_text(), lambda rel: (root / rel).read_text())
        out.append({"id": f.stem, "seed": f.stem, "overlay": overlay, "note": f"independent behaviour-preserving refactoring {f.name}"})
    return out
