"""Behaviour-preserving normal forms applied to the parsed program before any rule looks at it.

The rules of this analyser are written against the shapes the code has today.  A maintainer's refactoring
(extract a helper, hoist a constant, turn four `if` statements into a table-driven loop, use a conditional
expression) changes shape but not behaviour, and must not change a verdict.  Instead of teaching every rule
every shape, the program is first brought to one normal form:

  * statement level (per module, `canonical_stmts`):
      - `x = a if c else b`            ->  `if c: x = a else: x = b`        (also for `return`)
      - `setattr(o, "name", v)`        ->  `o.name = v`;   `getattr(o, "name")` -> `o.name`
      - `for k, v in {<literal>}.items(): body` (also via a local bound once to a dict / tuple literal)
                                         ->  the body unrolled per entry, k / v substituted
      - a module-level constant bound once to a literal is substituted at its uses inside functions
  * program level (`inline_helpers`, after the class table is built):
      - a call, in statement position, to a helper that no rule refers to by name (i.e. a helper that did not
        exist when the rules were written, or that no rule cares about) is replaced by the helper's body
        (parameters bound, locals renamed, `return` eliminated).  Only simple callees are inlined: resolved
        uniquely (no subclass overrides them), no decorators other than staticmethod / classmethod, no
        *args / **kwargs, no generators, returns only in tail position of if-trees.

Every rewrite keeps line numbers of the statements it moves, so reports still point into the user's file.
Nothing here executes mdpax code."""

from __future__ import annotations

import ast
import copy
import itertools
import re
from pathlib import Path

_ctr = itertools.count(1)

# ------------------------------------------------------------------------------------------------ helpers
_LITERAL = (ast.Constant,)


def _closed_lambda(e: ast.AST) -> bool:
    if not isinstance(e, ast.Lambda) or e.args.vararg or e.args.kwarg or e.args.defaults or e.args.kw_defaults:
        return False
    import builtins as _b
    params = {a.arg for a in e.args.args + e.args.kwonlyargs}
    inner_bound = {n.id for n in ast.walk(e.body) if isinstance(n, ast.Name) and isinstance(n.ctx, ast.Store)}
    return all(n.id in params or n.id in inner_bound or hasattr(_b, n.id) for n in ast.walk(e.body) if isinstance(n, ast.Name) and isinstance(n.ctx, ast.Load))


def _is_literal(e: ast.AST) -> bool:
    if isinstance(e, ast.Constant):
        return True
    if _closed_lambda(e):
        return True
    if isinstance(e, ast.UnaryOp) and isinstance(e.op, (ast.USub, ast.UAdd)) and isinstance(e.operand, ast.Constant):
        return True
    if isinstance(e, (ast.Tuple, ast.List, ast.Set)):
        return all(_is_literal(x) for x in e.elts)
    if isinstance(e, ast.Dict):
        return all(k is not None and _is_literal(k) and _is_literal(v) for k, v in zip(e.keys, e.values))
    return False


def _assigned_names(nodes) -> set[str]:
    out = set()
    for root in nodes:
        for n in ast.walk(root):
            if isinstance(n, ast.Name) and isinstance(n.ctx, (ast.Store, ast.Del)):
                out.add(n.id)
            elif isinstance(n, ast.ExceptHandler) and n.name:
                out.add(n.name)
            elif isinstance(n, (ast.FunctionDef, ast.ClassDef)):
                out.add(n.name)
            elif isinstance(n, (ast.Import, ast.ImportFrom)):
                for a in n.names:
                    out.add((a.asname or a.name).split(".")[0])
    return out


class _Subst(ast.NodeTransformer):
    """Replace loads of the given names by (copies of) expressions; stores are renamed when the replacement is a Name."""

    def __init__(self, mapping: dict[str, ast.AST]):
        self.m = mapping

    def visit_Name(self, n):
        r = self.m.get(n.id)
        if r is None:
            return n
        if isinstance(n.ctx, ast.Load):
            return ast.copy_location(copy.deepcopy(r), n)
        if isinstance(r, ast.Name):
            return ast.copy_location(ast.Name(id=r.id, ctx=n.ctx), n)
        return n

    def visit_ExceptHandler(self, n):
        self.generic_visit(n)
        r = self.m.get(n.name) if n.name else None
        if isinstance(r, ast.Name):
            n.name = r.id
        return n

    def visit_Lambda(self, n):
        shadow = {a.arg for a in n.args.args + n.args.kwonlyargs}
        if shadow & set(self.m):
            inner = _Subst({k: v for k, v in self.m.items() if k not in shadow})
            n.body = inner.visit(n.body)
            return n
        return self.generic_visit(n)

    def _comp(self, n):
        shadow = set()
        for g in n.generators:
            shadow |= {x.id for x in ast.walk(g.target) if isinstance(x, ast.Name)}
        if shadow & set(self.m):
            return _Subst({k: v for k, v in self.m.items() if k not in shadow}).generic_visit(n)
        return self.generic_visit(n)

    visit_ListComp = visit_SetComp = visit_GeneratorExp = visit_DictComp = _comp


def _subst(nodes, mapping):
    s = _Subst(mapping)
    return [s.visit(copy.deepcopy(n)) for n in nodes]


# ------------------------------------------------------------------------------------------------ statement level
def _expand_kwargs_comprehension(kw: ast.keyword):
    """keywords of `**{k: e for k in <literal tuple of identifier strings>}`, or None"""
    d = kw.value
    if isinstance(d, ast.Dict) and all(isinstance(k, ast.Constant) and isinstance(k.value, str) and k.value.isidentifier() for k in d.keys):
        return [ast.copy_location(ast.keyword(arg=k.value, value=v), kw.value) for k, v in zip(d.keys, d.values)]
    if not isinstance(d, ast.DictComp) or len(d.generators) != 1:
        return None
    g = d.generators[0]
    if g.ifs or g.is_async or not isinstance(g.target, ast.Name) or not isinstance(g.iter, (ast.Tuple, ast.List)):
        return None
    if not (isinstance(d.key, ast.Name) and d.key.id == g.target.id):
        return None
    if not all(isinstance(e, ast.Constant) and isinstance(e.value, str) and e.value.isidentifier() for e in g.iter.elts):
        return None
    names = [e.value for e in g.iter.elts]
    if len(set(names)) != len(names):
        return None
    return [ast.copy_location(ast.keyword(arg=e.value, value=_Subst({g.target.id: e}).visit(copy.deepcopy(d.value))), kw.value)
            for e in g.iter.elts]


class _StmtCanon(ast.NodeTransformer):
    def __init__(self, module_consts: dict[str, ast.AST]):
        self.consts = module_consts
        self.depth = 0  # inside a function?

    # --- expressions
    def visit_Call(self, n):
        # f(**{k: e(k) for k in ("a", "b")})  ->  f(a=e("a"), b=e("b"))  (a table-driven keyword list is the keyword list)
        if any(kw.arg is None for kw in n.keywords):
            kws = []
            for kw in n.keywords:
                exp = _expand_kwargs_comprehension(kw) if kw.arg is None else None
                kws.extend(exp if exp is not None else [kw])
            n.keywords = kws
        self.generic_visit(n)
        if isinstance(n.func, ast.Lambda) and not n.keywords and len(n.args) == len(n.func.args.args) and not n.func.args.vararg \
                and not n.func.args.kwonlyargs and all(isinstance(a, (ast.Name, ast.Constant)) for a in n.args):
            # (lambda c: body)(x) -> body[c := x]
            m = {p.arg: a for p, a in zip(n.func.args.args, n.args)}
            return self.visit(ast.copy_location(_Subst(m).visit(copy.deepcopy(n.func.body)), n))
        if ast.unparse(n.func) in ("cast", "typing.cast", "t.cast") and len(n.args) == 2 and not n.keywords:
            return n.args[1]  # typing.cast(T, x) is x
        if isinstance(n.func, ast.Name) and n.func.id == "getattr" and len(n.args) == 2 and not n.keywords \
                and isinstance(n.args[1], ast.Constant) and isinstance(n.args[1].value, str) and n.args[1].value.isidentifier():
            return ast.copy_location(ast.Attribute(value=n.args[0], attr=n.args[1].value, ctx=ast.Load()), n)
        return n

    def visit_Name(self, n):
        if self.depth and isinstance(n.ctx, ast.Load) and n.id in self.consts and n.id not in self.shadow:
            return ast.copy_location(copy.deepcopy(self.consts[n.id]), n)
        return n

    shadow: set = set()

    def visit_FunctionDef(self, fn):
        saved_shadow, saved_depth = self.shadow, self.depth
        params = {a.arg for a in fn.args.args + fn.args.kwonlyargs + fn.args.posonlyargs}
        self.shadow = saved_shadow | params | _assigned_names(fn.body)
        self.depth += 1
        fn.body = self._stmts(fn.body)
        self.shadow, self.depth = saved_shadow, saved_depth
        # a display of names / constants bound to a local that nothing reads any more (its loop was unrolled) is dead
        loads = {n.id for n in ast.walk(fn) if isinstance(n, ast.Name) and isinstance(n.ctx, ast.Load)}

        def pure_display(e):
            if isinstance(e, (ast.Name, ast.Constant)):
                return True
            if isinstance(e, (ast.Tuple, ast.List, ast.Set)):
                return all(pure_display(x) for x in e.elts)
            if isinstance(e, ast.Dict):
                return all(k is not None and pure_display(k) and pure_display(v) for k, v in zip(e.keys, e.values))
            return False

        def prune(body):
            out = []
            for st in body:
                for field in ("body", "orelse", "finalbody"):
                    v = getattr(st, field, None)
                    if isinstance(v, list) and v and isinstance(v[0], ast.stmt) and not isinstance(st, (ast.FunctionDef, ast.ClassDef)):
                        setattr(st, field, prune(v) or [ast.copy_location(ast.Pass(), st)])
                if isinstance(st, ast.Assign) and len(st.targets) == 1 and isinstance(st.targets[0], ast.Name) \
                        and st.targets[0].id not in loads and isinstance(st.value, (ast.Tuple, ast.List, ast.Dict, ast.Set)) and pure_display(st.value):
                    continue
                out.append(st)
            return out

        fn.body = prune(fn.body) or [ast.copy_location(ast.Pass(), fn)]
        return fn

    visit_AsyncFunctionDef = visit_FunctionDef

    # --- statements
    def _stmts(self, body):
        out = []
        for i, st in enumerate(body):
            r = self._one(st, body[:i])
            out.extend(r)
        if len(out) > 1 and any(isinstance(s, ast.Pass) for s in out):
            out = [s for s in out if not isinstance(s, ast.Pass)] or out[:1]  # `pass` next to other statements says nothing
        return out

    def generic_visit(self, node):
        for field in ("body", "orelse", "finalbody"):
            v = getattr(node, field, None)
            if isinstance(v, list) and v and isinstance(v[0], ast.stmt):
                setattr(node, field, self._stmts(v))
        for field, v in ast.iter_fields(node):
            if field in ("body", "orelse", "finalbody") and isinstance(v, list) and v and isinstance(v[0], ast.stmt):
                continue
            if isinstance(v, list):
                v[:] = [self.visit(x) if isinstance(x, ast.AST) else x for x in v]
            elif isinstance(v, ast.AST):
                setattr(node, field, self.visit(v))
        return node

    def _one(self, st, before):
        # `x: T = v` inside a function is `x = v`
        if isinstance(st, ast.AnnAssign) and self.depth and st.value is not None and st.simple and isinstance(st.target, ast.Name):
            return self._one(ast.copy_location(ast.Assign(targets=[st.target], value=st.value), st), before)
        if isinstance(st, ast.AnnAssign) and self.depth and st.value is None:
            return []  # a bare declaration
        # setattr(o, "name", v) as a statement
        if isinstance(st, ast.Expr) and isinstance(st.value, ast.Call) and isinstance(st.value.func, ast.Name) \
                and st.value.func.id == "setattr" and len(st.value.args) == 3 and not st.value.keywords \
                and isinstance(st.value.args[1], ast.Constant) and isinstance(st.value.args[1].value, str) \
                and st.value.args[1].value.isidentifier():
            o, name, v = st.value.args
            tgt = ast.copy_location(ast.Attribute(value=self.visit(o), attr=name.value, ctx=ast.Store()), st)
            return [ast.copy_location(ast.Assign(targets=[tgt], value=self.visit(v)), st)]
        # `self.a, self.b = x, None`: a parallel assignment of displays whose right-hand sides are names / constants that none of the
        # targets rebinds is the sequence of the single assignments
        if isinstance(st, ast.Assign) and self.depth and len(st.targets) == 1 and isinstance(st.targets[0], (ast.Tuple, ast.List)) \
                and isinstance(st.value, (ast.Tuple, ast.List)) and len(st.targets[0].elts) == len(st.value.elts) >= 2 \
                and all(isinstance(v, (ast.Name, ast.Constant)) for v in st.value.elts) \
                and all(isinstance(t, (ast.Name, ast.Attribute)) and not isinstance(t, ast.Starred) for t in st.targets[0].elts) \
                and any(isinstance(t, ast.Attribute) for t in st.targets[0].elts):
            tnames = {t.id for t in st.targets[0].elts if isinstance(t, ast.Name)}
            if not any(isinstance(v, ast.Name) and v.id in tnames for v in st.value.elts):
                out = []
                for t, v in zip(st.targets[0].elts, st.value.elts):
                    out += self._one(ast.copy_location(ast.Assign(targets=[t], value=v), st), before + out)
                return out
        # conditional expression as the whole right-hand side / return value
        if isinstance(st, (ast.Assign, ast.Return, ast.AnnAssign)) and isinstance(getattr(st, "value", None), ast.IfExp) and self.depth:
            ife = st.value
            a, b = copy.copy(st), copy.copy(st)
            a.value, b.value = ife.body, ife.orelse
            new = ast.copy_location(ast.If(test=ife.test, body=[a], orelse=[b]), st)
            return self._one(new, before)
        # `if not (p := e).exists(): ...` -> `p = e` first, when the walrus is the first thing the statement evaluates
        if isinstance(st, (ast.If, ast.Assign, ast.Expr, ast.Return)) and self.depth:
            root = st.test if isinstance(st, ast.If) else st.value
            w = _first_evaluated_walrus(root) if root is not None else None
            if w is not None and isinstance(w.target, ast.Name):
                pre = ast.copy_location(ast.Assign(targets=[ast.Name(id=w.target.id, ctx=ast.Store())], value=w.value), st)
                _replace_node(st, w, ast.copy_location(ast.Name(id=w.target.id, ctx=ast.Load()), w))
                return self._one(pre, before) + self._one(st, before + [pre])
        # `match x: case "a": ... case "b" | "c": ... case _: ...` over literals is an if / elif chain on equality
        if isinstance(st, ast.Match) and self.depth:
            chain = _match_to_if(st)
            if chain is not None:
                return self._stmts([ast.fix_missing_locations(x) for x in chain])
        # `try: S except C as e: ... raise [C(..) from e]`: every handler ends by raising the class it caught (a clearer message for an
        # input that fails anyway), nothing is swallowed or converted: for every run that does not raise, the statement is S
        if isinstance(st, ast.Try) and self.depth and not st.orelse and not st.finalbody and st.handlers and all(_reraises_same(h) for h in st.handlers):
            return self._stmts(st.body)
        # `assert <test without calls other than isinstance / len / all / any ...>`: on every run that does not raise it does nothing (and with
        # -O it is not even evaluated); the rules describe what the statements around it do
        if isinstance(st, ast.Assert) and self.depth and _assert_is_inert(st):
            return [ast.copy_location(ast.Pass(), st)]
        # table-driven loop over a literal
        if isinstance(st, ast.For) and not st.orelse and self.depth:
            un = self._unroll(st, before)
            if un is not None:
                return self._stmts(un)
        return [self.visit(st)]

    def _unroll(self, st: ast.For, before):
        it = st.iter
        items = None
        src = it.func.value if isinstance(it, ast.Call) and isinstance(it.func, ast.Attribute) and it.func.attr == "items" and not it.args else it
        lit = src
        if isinstance(src, ast.Name) and src.id in self.consts and src.id not in self.shadow:
            lit = self.consts[src.id]
        elif isinstance(src, ast.Name):
            # a local bound exactly once, by a literal-shaped display, in the statements before the loop
            defs = [s for s in before if isinstance(s, ast.Assign) and len(s.targets) == 1 and isinstance(s.targets[0], ast.Name) and s.targets[0].id == src.id]
            stores = [n for s in before for n in ast.walk(s) if isinstance(n, ast.Name) and n.id == src.id and isinstance(n.ctx, ast.Store)]
            mutated = any(isinstance(n, ast.Attribute) and isinstance(n.value, ast.Name) and n.value.id == src.id and n.attr in
                          ("update", "pop", "setdefault", "clear", "append", "extend", "insert", "remove", "popitem")
                          for s in before + st.body for n in ast.walk(s)) or any(
                isinstance(n, ast.Subscript) and isinstance(n.ctx, (ast.Store, ast.Del)) and isinstance(n.value, ast.Name) and n.value.id == src.id
                for s in before + st.body for n in ast.walk(s))
            if len(defs) != 1 or len(stores) != 1 or mutated:
                return None
            lit = defs[0].value
        if src is not it:  # <dict>.items()
            if not isinstance(lit, ast.Dict) or any(k is None for k in lit.keys) or not all(isinstance(k, ast.Constant) for k in lit.keys):
                return None
            if not (isinstance(st.target, ast.Tuple) and len(st.target.elts) == 2 and all(isinstance(e, ast.Name) for e in st.target.elts)):
                return None
            kname, vname = st.target.elts[0].id, st.target.elts[1].id
            # the values are evaluated when the display is built: only names / constants may be substituted textually
            if not all(_pure_elem(v) for v in lit.values):
                return None
            # a value name must not be rebound between the display and the loop body
            rebound = _assigned_names(st.body)
            if any(isinstance(v, ast.Name) and v.id in rebound for v in lit.values):
                return None
            items = [{kname: k, vname: v} for k, v in zip(lit.keys, lit.values)]
        else:
            if not isinstance(lit, (ast.Tuple, ast.List)) or len(lit.elts) > 16:
                return None
            if not lit.elts:  # a loop over the empty display runs no statement
                return [ast.copy_location(ast.Pass(), st)]
            if isinstance(st.target, ast.Name):
                if not all(_pure_elem(e) for e in lit.elts):
                    return None
                items = [{st.target.id: e} for e in lit.elts]
            elif isinstance(st.target, ast.Tuple) and all(isinstance(e, ast.Name) for e in st.target.elts):
                n = len(st.target.elts)
                if not all(isinstance(e, (ast.Tuple, ast.List)) and len(e.elts) == n and all(_pure_elem(x) for x in e.elts) for e in lit.elts):
                    return None
                items = [{t.id: x for t, x in zip(st.target.elts, e.elts)} for e in lit.elts]
            else:
                return None
        if any(isinstance(n, (ast.Break, ast.Continue)) for s in st.body for n in ast.walk(s)):
            return None
        targets = {n.id for n in ast.walk(st.target) if isinstance(n, ast.Name)}
        if targets & _assigned_names(st.body):
            return None
        out = []
        for m in items:
            for s in _subst(st.body, m):
                out.append(_fold_const_attr(s))
        return out


def _assert_is_inert(st: ast.Assert) -> bool:
    for n in ast.walk(st):
        if isinstance(n, (ast.NamedExpr, ast.Await, ast.Yield, ast.YieldFrom, ast.Lambda)):
            return False
        if isinstance(n, ast.Call):
            f = n.func
            name = f.id if isinstance(f, ast.Name) else f.attr if isinstance(f, ast.Attribute) else None
            if name not in ("isinstance", "len", "all", "any", "hasattr", "callable", "issubclass", "tuple", "int", "float", "abs", "max", "min", "sum", "sorted",
                            "set", "list", "range", "type", "str", "repr", "is_dataclass", "isfinite", "isnan", "ndim", "issubdtype", "result_type", "shape"):
                return False
    return True


def _strip_docstring(body):
    if body and isinstance(body[0], ast.Expr) and isinstance(body[0].value, ast.Constant) and isinstance(body[0].value.value, str):
        return body[1:]
    return body


def _reraises_same(h: ast.ExceptHandler) -> bool:
    """the handler catches one named class and every path through it ends in a bare `raise` or `raise <that class>(..)`; it has no
    other effect than building the message (assignments to locals, no calls in statement position, no attribute / subscript stores)"""
    if h.type is None or not isinstance(h.type, (ast.Name, ast.Attribute)):
        return False
    cls = ast.unparse(h.type)

    def ends_raising(body) -> bool:
        if not body:
            return False
        last = body[-1]
        if isinstance(last, ast.Raise):
            if last.exc is None:
                return True
            e = last.exc.func if isinstance(last.exc, ast.Call) else last.exc
            return ast.unparse(e) == cls or (h.name is not None and isinstance(last.exc, ast.Name) and last.exc.id == h.name)
        if isinstance(last, ast.If):
            return bool(last.orelse) and ends_raising(last.body) and ends_raising(last.orelse)
        return False

    def guard_raises_ok(body) -> bool:
        for st in body:
            if isinstance(st, ast.Raise):
                if st.exc is not None:
                    e = st.exc.func if isinstance(st.exc, ast.Call) else st.exc
                    if ast.unparse(e) != cls and not (h.name is not None and isinstance(st.exc, ast.Name) and st.exc.id == h.name):
                        return False
            elif isinstance(st, ast.If):
                if not guard_raises_ok(st.body) or not guard_raises_ok(st.orelse):
                    return False
            elif isinstance(st, ast.Assign):
                if not all(isinstance(t, ast.Name) for t in st.targets):
                    return False
            elif isinstance(st, (ast.Pass,)):
                continue
            else:
                return False
        return True

    return guard_raises_ok(h.body) and ends_raising(h.body)


def _dotted_name(e) -> bool:
    while isinstance(e, ast.Attribute):
        e = e.value
    return isinstance(e, ast.Name)


def _match_to_if(m: ast.Match):
    """[statements] equivalent to a `match` whose patterns are literals, or-patterns of literals, `cls()` class patterns of a
    builtin type, a bare capture name or the wildcard; None for anything else (sequence / mapping / nested patterns, guards)."""
    subj = m.subject
    pre = []
    simple = isinstance(subj, (ast.Name, ast.Constant)) or (isinstance(subj, ast.Attribute) and isinstance(subj.value, ast.Name))
    if not simple:
        tmp = f"match_subject__{next(_ctr)}"
        pre.append(ast.copy_location(ast.Assign(targets=[ast.Name(id=tmp, ctx=ast.Store())], value=subj), m))
        subj = ast.Name(id=tmp, ctx=ast.Load())

    def test_of(pat):
        if isinstance(pat, ast.MatchValue) and isinstance(pat.value, ast.Constant):
            return ast.Compare(left=copy.deepcopy(subj), ops=[ast.Eq()], comparators=[pat.value])
        if isinstance(pat, ast.MatchValue) and isinstance(pat.value, ast.Attribute) and _dotted_name(pat.value):
            return ast.Compare(left=copy.deepcopy(subj), ops=[ast.Eq()], comparators=[pat.value])  # `case Mode.FULL:` compares with ==
        if isinstance(pat, ast.MatchOr) and all(isinstance(p, ast.MatchValue) and isinstance(p.value, ast.Attribute) and _dotted_name(p.value) for p in pat.patterns):
            return ast.BoolOp(op=ast.Or(), values=[ast.Compare(left=copy.deepcopy(subj), ops=[ast.Eq()], comparators=[p.value]) for p in pat.patterns])
        if isinstance(pat, ast.MatchSingleton):
            return ast.Compare(left=copy.deepcopy(subj), ops=[ast.Is()], comparators=[ast.Constant(value=pat.value)])
        if isinstance(pat, ast.MatchOr) and all(isinstance(p, ast.MatchValue) and isinstance(p.value, ast.Constant) for p in pat.patterns):
            return ast.Compare(left=copy.deepcopy(subj), ops=[ast.In()], comparators=[ast.Tuple(elts=[p.value for p in pat.patterns], ctx=ast.Load())])
        if isinstance(pat, ast.MatchClass) and not pat.patterns and not pat.kwd_patterns and isinstance(pat.cls, ast.Name) \
                and pat.cls.id in ("str", "int", "float", "bool", "bytes", "list", "tuple", "dict", "set"):
            return ast.Call(func=ast.Name(id="isinstance", ctx=ast.Load()), args=[copy.deepcopy(subj), ast.Name(id=pat.cls.id, ctx=ast.Load())], keywords=[])
        return None

    head = None
    cur = None
    for case in m.cases:
        if case.guard is not None:
            return None
        if isinstance(case.pattern, ast.MatchAs) and case.pattern.pattern is None:
            body = list(case.body)
            if case.pattern.name is not None:  # `case name:` binds the subject and always matches
                body = [ast.copy_location(ast.Assign(targets=[ast.Name(id=case.pattern.name, ctx=ast.Store())], value=copy.deepcopy(subj)), case.body[0])] + body
            if cur is None:
                return pre + body
            cur.orelse = body
            return pre + [ast.fix_missing_locations(ast.copy_location(head, m))]
        t = test_of(case.pattern)
        if t is None:
            return None
        node = ast.copy_location(ast.If(test=t, body=list(case.body), orelse=[]), case.body[0])
        if cur is None:
            head = node
        else:
            cur.orelse = [node]
        cur = node
    return pre + [ast.fix_missing_locations(ast.copy_location(head, m))] if head is not None else None


def _pure_elem(e) -> bool:
    """an element of a table that may be substituted textually where the loop variable is used: a name, a constant, an
    attribute chain on a name (a bound-method reference), or a closed lambda"""
    if isinstance(e, (ast.Name, ast.Constant)) or _closed_lambda(e):
        return True
    if isinstance(e, ast.Attribute):
        v = e
        while isinstance(v, ast.Attribute):
            v = v.value
        return isinstance(v, ast.Name)
    return False


def _first_evaluated_walrus(e):
    """the NamedExpr that is evaluated before anything else in expression e (None if there is none in that position)"""
    while True:
        if isinstance(e, ast.NamedExpr):
            return e
        if isinstance(e, ast.UnaryOp):
            e = e.operand
        elif isinstance(e, ast.Call):
            e = e.func
        elif isinstance(e, (ast.Attribute, ast.Subscript, ast.Starred)):
            e = e.value
        elif isinstance(e, ast.Compare):
            e = e.left
        elif isinstance(e, ast.BoolOp):
            e = e.values[0]
        elif isinstance(e, ast.BinOp):
            e = e.left
        else:
            return None


def _replace_node(root, old, new):
    for parent in ast.walk(root):
        for field, v in ast.iter_fields(parent):
            if v is old:
                setattr(parent, field, new)
                return True
            if isinstance(v, list):
                for i, x in enumerate(v):
                    if x is old:
                        v[i] = new
                        return True
    return False


def _fold_const_attr(st):
    """after substitution: setattr(o, "k", v) / getattr(o, "k") with a now-constant name"""
    return st


def canonical_stmts(tree: ast.Module) -> ast.Module:
    consts = {}
    counts = {}
    for node in tree.body:
        for n in ast.walk(node) if not isinstance(node, (ast.FunctionDef, ast.ClassDef)) else []:
            if isinstance(n, ast.Name) and isinstance(n.ctx, ast.Store):
                counts[n.id] = counts.get(n.id, 0) + 1
    for node in tree.body:
        if isinstance(node, ast.Assign) and len(node.targets) == 1 and isinstance(node.targets[0], ast.Name) and _is_literal(node.value):
            name = node.targets[0].id
            if counts.get(name) == 1 and not name.startswith("__"):
                consts[name] = node.value
        elif isinstance(node, ast.AnnAssign) and isinstance(node.target, ast.Name) and node.value is not None and _is_literal(node.value):
            if counts.get(node.target.id) == 1:
                consts[node.target.id] = node.value
    # derived constants: a name bound once to another constant, or typing.get_args(<Literal[...] alias>)
    literal_alias = {}
    for node in tree.body:
        if isinstance(node, ast.Assign) and len(node.targets) == 1 and isinstance(node.targets[0], ast.Name) and isinstance(node.value, ast.Subscript) \
                and ast.unparse(node.value.value).split(".")[-1] == "Literal":
            sl = node.value.slice
            elts = sl.elts if isinstance(sl, ast.Tuple) else [sl]
            if all(isinstance(e, ast.Constant) for e in elts):
                literal_alias[node.targets[0].id] = ast.Tuple(elts=list(elts), ctx=ast.Load())
    for node in tree.body:
        tgt = node.targets[0] if isinstance(node, ast.Assign) and len(node.targets) == 1 else getattr(node, "target", None) if isinstance(node, ast.AnnAssign) else None
        val = getattr(node, "value", None)
        if isinstance(tgt, ast.Name) and val is not None and counts.get(tgt.id) == 1 and tgt.id not in consts:
            if isinstance(val, ast.Name) and val.id in consts:
                consts[tgt.id] = consts[val.id]
            elif isinstance(val, ast.Call) and ast.unparse(val.func).split(".")[-1] == "get_args" and len(val.args) == 1 \
                    and isinstance(val.args[0], ast.Name) and val.args[0].id in literal_alias:
                consts[tgt.id] = literal_alias[val.args[0].id]
    # `class _Layout: CONFIG_FILE = "config.yaml"` - a namespace class of literal constants: `_Layout.CONFIG_FILE` is the literal
    ns_consts: dict[tuple[str, str], ast.AST] = {}
    for node in tree.body:
        if isinstance(node, ast.ClassDef) and not node.decorator_list and not node.keywords \
                and all(ast.unparse(b) in ("object",) for b in node.bases):
            members = [b for b in node.body if not (isinstance(b, ast.Expr) and isinstance(b.value, ast.Constant)) and not isinstance(b, ast.Pass)]
            local: dict[str, ast.AST] = {}

            def resolve(v):
                # a literal, an earlier member, or a display of those (ALL = (SPAN, MAX_DIFF))
                if _is_literal(v):
                    return v
                if isinstance(v, ast.Name) and v.id in local:
                    return local[v.id]
                if isinstance(v, (ast.Tuple, ast.List)):
                    items = [resolve(x) for x in v.elts]
                    if all(x is not None for x in items):
                        return ast.copy_location(type(v)(elts=[copy.deepcopy(x) for x in items], ctx=ast.Load()), v)
                return None

            okc = bool(members)
            for b in members:
                tgt_ = b.targets[0] if isinstance(b, ast.Assign) and len(b.targets) == 1 else b.target if isinstance(b, ast.AnnAssign) else None
                val_ = getattr(b, "value", None)
                r_ = resolve(val_) if isinstance(tgt_, ast.Name) and val_ is not None else None
                if r_ is None:
                    okc = False
                    break
                local[tgt_.id] = r_
            if okc:
                for k_, v_ in local.items():
                    ns_consts[(node.name, k_)] = v_
    if ns_consts:
        stores = {(n.value.id, n.attr) for n in ast.walk(tree) if isinstance(n, ast.Attribute) and isinstance(n.ctx, (ast.Store, ast.Del))
                  and isinstance(n.value, ast.Name)}
        # a member that is a list / dict / set display and that anything mutates in place (X.append, X[k] = v) is shared state, not a constant
        _mut_ns = ("append", "extend", "insert", "update", "setdefault", "pop", "popitem", "clear", "remove", "add", "discard", "sort", "reverse")
        for n in ast.walk(tree):
            b = None
            if isinstance(n, ast.Subscript) and isinstance(n.ctx, (ast.Store, ast.Del)):
                b = n.value
            elif isinstance(n, ast.Call) and isinstance(n.func, ast.Attribute) and n.func.attr in _mut_ns:
                b = n.func.value
            if isinstance(b, ast.Attribute):
                for key_ in list(ns_consts):
                    if key_[1] == b.attr:
                        ns_consts.pop(key_, None)

        class _NS(ast.NodeTransformer):
            def visit_Attribute(self, n):
                self.generic_visit(n)
                if isinstance(n.ctx, ast.Load) and isinstance(n.value, ast.Name) and (n.value.id, n.attr) in ns_consts \
                        and (n.value.id, n.attr) not in stores:
                    return ast.copy_location(copy.deepcopy(ns_consts[(n.value.id, n.attr)]), n)
                return n

        for i_, node in enumerate(tree.body):
            if isinstance(node, (ast.FunctionDef, ast.ClassDef)) and not (isinstance(node, ast.ClassDef) and any(k[0] == node.name for k in ns_consts)):
                tree.body[i_] = _NS().visit(node)
    # a display that some function mutates (`_cache[key] = v`, `_items.append(x)`) is state, not a constant
    _mut = ("append", "extend", "insert", "update", "setdefault", "pop", "popitem", "clear", "remove", "add", "discard", "sort", "reverse")
    for n in ast.walk(tree):
        if isinstance(n, ast.Subscript) and isinstance(n.ctx, (ast.Store, ast.Del)) and isinstance(n.value, ast.Name):
            consts.pop(n.value.id, None)
        elif isinstance(n, ast.Call) and isinstance(n.func, ast.Attribute) and n.func.attr in _mut and isinstance(n.func.value, ast.Name):
            consts.pop(n.func.value.id, None)
        elif isinstance(n, ast.AugAssign) and isinstance(n.target, ast.Name):
            consts.pop(n.target.id, None)
    # a constant that any function rebinds through `global` is not a constant
    for n in ast.walk(tree):
        if isinstance(n, ast.Global):
            for name in n.names:
                consts.pop(name, None)
    tree._mdpax_consts = dict(consts)
    tree._mdpax_ns = dict(ns_consts)
    c = _StmtCanon(consts)
    for i, node in enumerate(tree.body):
        if isinstance(node, (ast.FunctionDef, ast.ClassDef)):
            tree.body[i] = c.visit(node)
    return ast.fix_missing_locations(tree)


def recanonicalise_function(fn: ast.FunctionDef) -> ast.FunctionDef:
    """statement normal forms once more for one function (after program-level passes exposed new literal tables)"""
    _StmtCanon({}).visit(fn)
    return ast.fix_missing_locations(fn)


# ------------------------------------------------------------------------------------------------ inlining
_ANCHORS: set[str] | None = None


def anchor_names() -> set[str]:
    """Every identifier the rule modules mention in a string literal: functions the rules anchor on by name are
    never inlined (their call sites are part of the protocols the rules describe)."""
    global _ANCHORS
    if _ANCHORS is None:
        names: set[str] = set()
        here = Path(__file__).resolve().parent
        for f in sorted((here / "rules").glob("*.py")) + [here / "interp.py", here / "effects.py", here / "classes.py"]:
            try:
                tree = ast.parse(f.read_text())
            except (OSError, SyntaxError):
                continue
            for n in ast.walk(tree):
                if isinstance(n, ast.Constant) and isinstance(n.value, str) and len(n.value) < 200:
                    names.update(re.findall(r"[A-Za-z_][A-Za-z0-9_]*", n.value))
        _ANCHORS = names
    return _ANCHORS


def _contains(nodes, kinds) -> bool:
    return any(isinstance(n, kinds) for r in nodes for n in ast.walk(r))


def _always_returns(body) -> bool:
    if not body:
        return False
    last = body[-1]
    if isinstance(last, (ast.Return, ast.Raise)):
        return True
    if isinstance(last, ast.If):
        return _always_returns(last.body) and _always_returns(last.orelse)
    return False


def _elim_returns(stmts, res: str | None):
    """Rewrite a statement list so that `return e` becomes `res = e` and nothing follows it; returns the new list,
    or None when a return sits inside a loop / try / with (not handled)."""
    out = []
    for i, st in enumerate(stmts):
        if isinstance(st, ast.Return):
            if res is not None:
                val = st.value if st.value is not None else ast.Constant(value=None)
                out.append(ast.copy_location(ast.Assign(targets=[ast.Name(id=res, ctx=ast.Store())], value=val), st))
            elif st.value is not None and isinstance(st.value, ast.Call):
                out.append(ast.copy_location(ast.Expr(value=st.value), st))
            return out
        if isinstance(st, ast.Raise):
            out.append(st)
            return out
        if isinstance(st, ast.If) and _contains([st], ast.Return):
            rest = list(stmts[i + 1:])
            b = _elim_returns(list(st.body) + ([] if _always_returns(st.body) else copy.deepcopy(rest)), res)
            o = _elim_returns(list(st.orelse) + ([] if _always_returns(st.orelse) else copy.deepcopy(rest)), res)
            if b is None or o is None:
                return None
            out.append(ast.copy_location(ast.If(test=st.test, body=b or [ast.Pass()], orelse=o), st))
            return out
        if _contains([st], ast.Return) and not isinstance(st, (ast.FunctionDef, ast.ClassDef)):
            return None
        out.append(st)
    if res is not None:
        # falls off the end: the call evaluates to None
        pass
    return out


def _transparent_decorator(d: ast.AST) -> bool:
    """memoisation / compilation wrappers do not change what a pure helper returns"""
    src = ast.unparse(d.func if isinstance(d, ast.Call) else d)
    if src in ("lru_cache", "functools.lru_cache", "cache", "functools.cache", "jax.jit", "jit"):
        return True
    if isinstance(d, ast.Call) and src in ("partial", "functools.partial") and d.args and ast.unparse(d.args[0]) in ("jax.jit", "jit"):
        return True
    return False


class Inliner:
    def __init__(self, ct, max_depth: int = 3):
        self.ct = ct
        self.anchors = anchor_names()
        self.max_depth = max_depth
        self.log: list[str] = []

    # ---- resolution
    def _resolve(self, call: ast.Call, owner, module):
        f = call.func
        # `super().m(...)` inside m itself (an override that delegates, e.g. `def solve(..): return super().solve(..)`): the
        # parent's body runs on the same object, so for this class the method IS the parent's body with the surrounding code
        if isinstance(f, ast.Attribute) and isinstance(f.value, ast.Call) and isinstance(f.value.func, ast.Name) and f.value.func.id == "super" \
                and not f.value.args and owner is not None and getattr(self, "_current", None) is not None and self._current.name == f.attr:
            r = self.ct.lookup(owner, f.attr, after=owner)
            if r is not None and not any(isinstance(n, ast.Call) and isinstance(n.func, ast.Name) and n.func.id == "super" for n in ast.walk(r[1])):
                if r[0].module is not module and not self._free_names_agree(r[1], r[0].module, module):
                    return None
                return r[0], r[1], "super"
            return None
        if isinstance(f, ast.Attribute) and isinstance(f.value, ast.Name) and owner is not None:
            recv = f.value.id
            if recv in ("self", "cls"):
                r = self.ct.lookup(owner, f.attr)
                if r is None:
                    return None
                k, fn = r
                # dynamic dispatch: a subclass of the defining class (or of the caller's class) may override it
                for sub in self.ct.subclasses(k) + self.ct.subclasses(owner):
                    if sub != k and f.attr in sub.methods and sub.methods[f.attr] is not fn:
                        return None
                if k.module is not module and not self._free_names_agree(fn, k.module, module):
                    return None
                return k, fn, recv
            ci = None
            if recv in module.classes:
                ci = self.ct.by_qual.get(f"{module.name}.{recv}")
            if ci is not None:
                r = self.ct.lookup(ci, f.attr)
                if r is not None and any(ast.unparse(d) in ("staticmethod", "classmethod") for d in r[1].decorator_list):
                    return r[0], r[1], recv
            return None
        if isinstance(f, ast.Name):
            fn = module.functions.get(f.id)
            if fn is not None:
                return None, fn, None
            dotted = module.imports.get(f.id)
            if dotted:
                r = self.ct.repo.resolve_dotted(dotted)
                if r is not None and isinstance(r[1], ast.FunctionDef) and not isinstance(r[1], ast.AsyncFunctionDef):
                    # a helper imported from another module of the package: its free names must mean the same thing here
                    rm, fn = r
                    if not self._free_names_agree(fn, rm, module):
                        return None
                    # a method that hands its whole job to a function of the same name (the body moved to a module function, the method kept
                    # for the public API): for the rules the method still is that body, also when they anchor on its name
                    same = getattr(self, "_current", None) is not None and self._current.name == fn.name
                    return None, fn, ("samename" if same else None)
        return None

    def _free_names_agree(self, fn, rm, module) -> bool:
        """Code of `fn` (defined in module rm) is about to be placed in `module`: its free names must mean the same thing there.  A name
        the target module does not bind at all is adopted (inlining then amounts to adding rm's import, which changes nothing else)."""
        if rm is module:
            return True
        import builtins as _b

        bound = {a.arg for a in fn.args.args + fn.args.kwonlyargs} | _assigned_names(fn.body)
        if fn.args.vararg:
            bound.add(fn.args.vararg.arg)
        if fn.args.kwarg:
            bound.add(fn.args.kwarg.arg)
        # names bound in nested scopes (parameters of nested functions / lambdas, comprehension targets, their locals)
        for n in ast.walk(fn):
            if isinstance(n, ast.arg):
                bound.add(n.arg)
            elif isinstance(n, ast.Name) and isinstance(n.ctx, ast.Store):
                bound.add(n.id)
            elif isinstance(n, (ast.FunctionDef, ast.ClassDef)) and n is not fn:
                bound.add(n.name)
        adopt: dict[str, str] = {}
        top = getattr(module, "_toplevel_names", None)
        if top is None:
            top = set(module.classes) | set(module.functions) | _assigned_names([st_ for st_ in module.tree.body
                                                                                   if not isinstance(st_, (ast.FunctionDef, ast.ClassDef))])
            module._toplevel_names = top
        for n in ast.walk(fn):
            if isinstance(n, ast.Name) and isinstance(n.ctx, ast.Load) and n.id not in bound and not hasattr(_b, n.id):
                here = module.imports.get(n.id)
                there = rm.imports.get(n.id)
                if there is None and (n.id in rm.functions or n.id in rm.classes):
                    there = f"{rm.name}.{n.id}"  # a sibling definition of the helper's module
                if there is None:
                    return False
                if here is None and n.id not in top and adopt.get(n.id, there) == there:
                    adopt[n.id] = there
                    continue
                if here != there:
                    return False
        module.imports.update(adopt)
        return True

    def _inlinable(self, fn: ast.FunctionDef, via_super: bool = False, passthrough: bool = False) -> bool:
        if (fn.name in self.anchors and not via_super) or fn.name.startswith("__"):
            return False
        if fn.args.kwarg is not None and passthrough and not fn.args.vararg and not fn.args.posonlyargs:
            # `def h(self, **kwargs)` called as `h(**kw)`: the same mapping under another name, unless h changes it
            kn = fn.args.kwarg.arg
            for n in ast.walk(fn):
                if isinstance(n, ast.Name) and n.id == kn and not isinstance(n.ctx, ast.Load):
                    return False
                if isinstance(n, ast.Subscript) and isinstance(n.ctx, (ast.Store, ast.Del)) and isinstance(n.value, ast.Name) and n.value.id == kn:
                    return False
                if isinstance(n, ast.Call) and isinstance(n.func, ast.Attribute) and isinstance(n.func.value, ast.Name) and n.func.value.id == kn \
                        and n.func.attr in ("pop", "popitem", "update", "setdefault", "clear", "__setitem__", "__delitem__"):
                    return False
            saved = fn.args.kwarg
            fn.args.kwarg = None
            try:
                return self._inlinable(fn, via_super)
            finally:
                fn.args.kwarg = saved
        decos = [ast.unparse(d) for d in fn.decorator_list if not _transparent_decorator(d)]
        if any(d not in ("staticmethod", "classmethod") for d in decos):
            return False
        a = fn.args
        if a.vararg or a.kwarg or a.posonlyargs:
            return False
        if any(d is not None and not _is_literal(d) for d in list(a.defaults) + list(a.kw_defaults)):
            return False
        body = fn.body
        if _contains(body, (ast.Yield, ast.YieldFrom, ast.Await, ast.Global, ast.Nonlocal, ast.FunctionDef, ast.ClassDef, ast.AsyncFunctionDef)):
            return False
        if any(isinstance(n, ast.Call) and isinstance(n.func, ast.Name) and n.func.id in ("super", "locals", "vars", "eval", "exec")
               for r in body for n in ast.walk(r)):
            return False
        return True

    # ---- one call
    def _expand(self, call: ast.Call, owner, module, want_result: bool, at: ast.stmt, caller_names: set[str]):
        r = self._resolve(call, owner, module)
        if r is None:
            return None
        k, fn, recv = r
        if not self._inlinable(fn, via_super=(recv in ("super", "samename"))):
            return None
        if recv == "super":
            recv = "self"
        if recv == "samename":
            recv = None
        decos = [ast.unparse(d) for d in fn.decorator_list if not _transparent_decorator(d)]
        params = [a.arg for a in fn.args.args]
        defaults = dict(zip(params[len(params) - len(fn.args.defaults):], fn.args.defaults))
        kwonly = [a.arg for a in fn.args.kwonlyargs]
        for name, d in zip(kwonly, fn.args.kw_defaults):
            if d is not None:
                defaults[name] = d
        bind: dict[str, ast.AST] = {}
        first = None
        if k is not None and "staticmethod" not in decos:
            if not params:
                return None
            first, params = params[0], params[1:]
            if "classmethod" in decos:
                if recv == "cls":
                    bind[first] = ast.Name(id="cls", ctx=ast.Load())
                elif recv == "self":
                    bind[first] = ast.Call(func=ast.Name(id="type", ctx=ast.Load()), args=[ast.Name(id="self", ctx=ast.Load())], keywords=[])
                else:
                    bind[first] = ast.Name(id=recv, ctx=ast.Load())
            else:
                if recv != "self":
                    return None
                bind[first] = ast.Name(id="self", ctx=ast.Load())
        if any(isinstance(a, ast.Starred) for a in call.args) or any(kw.arg is None for kw in call.keywords):
            return None
        if len(call.args) > len(params):
            return None
        actual: dict[str, ast.AST] = {}
        for p, a in zip(params, call.args):
            actual[p] = a
        for kw in call.keywords:
            if kw.arg in actual or kw.arg not in params + kwonly:
                return None
            actual[kw.arg] = kw.value
        for p in params + kwonly:
            if p not in actual:
                if p not in defaults:
                    return None
                actual[p] = defaults[p]
        body = copy.deepcopy(fn.body)
        if body and isinstance(body[0], ast.Expr) and isinstance(body[0].value, ast.Constant) and isinstance(body[0].value.value, str):
            body = body[1:]
        tag = next(_ctr)
        # names a synthesized callee shares with its caller's scope (flatten.py: the fields of a dissolved local object)
        assigned = _assigned_names(body) - set(getattr(fn, "_caller_scope", ()))
        pre = []
        mapping: dict[str, ast.AST] = dict(bind)
        # the callee's returned locals take the names of the variables the call assigns to, when that cannot capture:
        # `a, b = self.h(a, c)` with `def h(self, a, c): a = ..; b = ..; return a, b` inlines to the original statements
        rename_out: dict[str, str] = {}
        tgt = at.targets[0] if isinstance(at, ast.Assign) and len(at.targets) == 1 else None
        tnames = [tgt.id] if isinstance(tgt, ast.Name) else \
            [e.id for e in tgt.elts] if isinstance(tgt, ast.Tuple) and all(isinstance(e, ast.Name) for e in tgt.elts) else None
        last = body[-1] if body else None
        if tnames and isinstance(last, ast.Return) and last.value is not None and not _contains(body[:-1], ast.Return):
            rv = last.value
            lnames = [rv.id] if isinstance(rv, ast.Name) else \
                [e.id for e in rv.elts] if isinstance(rv, ast.Tuple) and all(isinstance(e, ast.Name) for e in rv.elts) else None
            if lnames and len(lnames) == len(tnames) and len(set(lnames)) == len(lnames) and len(set(tnames)) == len(tnames):
                arg_names = {}
                for p_, a_ in actual.items():
                    for n_ in ast.walk(a_):
                        if isinstance(n_, ast.Name):
                            arg_names.setdefault(n_.id, []).append((p_, a_))
                for t_, l_ in zip(tnames, lnames):
                    if l_ not in assigned and l_ not in actual:
                        continue  # a global / closure name: leave
                    uses = arg_names.get(t_, [])
                    if not uses:
                        ok_ = True
                    else:
                        ok_ = len(uses) == 1 and uses[0][0] == l_ and isinstance(uses[0][1], ast.Name)
                    if ok_ and l_ in assigned | set(actual) and t_ not in rename_out.values():
                        rename_out[l_] = t_
        for p, a in actual.items():
            if p in rename_out:
                mapping[p] = ast.Name(id=rename_out[p], ctx=ast.Load())
                if not (isinstance(a, ast.Name) and a.id == rename_out[p]):
                    pre.append(ast.copy_location(ast.Assign(targets=[ast.Name(id=rename_out[p], ctx=ast.Store())], value=copy.deepcopy(a)), at))
                continue
            if p not in assigned and isinstance(a, (ast.Name, ast.Constant)):
                mapping[p] = a
            else:
                newp = f"{p}__i{tag}"
                mapping[p] = ast.Name(id=newp, ctx=ast.Load())
                pre.append(ast.copy_location(ast.Assign(targets=[ast.Name(id=newp, ctx=ast.Store())], value=copy.deepcopy(a)), at))
        for name in assigned:
            if name not in mapping:
                mapping[name] = ast.Name(id=rename_out.get(name, f"{name}__i{tag}"), ctx=ast.Load())
        res = f"result__i{tag}" if want_result else None
        body = _elim_returns(body, res)
        if body is None:
            return None
        body = [_Subst(mapping).visit(s) for s in body]
        # the callee's statements keep their own line numbers only when they live in the same file; otherwise the call's
        same_file = k.module is module if k is not None else True
        if not same_file:
            for s in body:
                for n in ast.walk(s):
                    if hasattr(n, "lineno"):
                        n.lineno = at.lineno
                        n.end_lineno = at.lineno
        self.log.append(f"{module.relpath}:{at.lineno} {fn.name}")
        return pre + body, res

    # ---- expression helpers: `def h(a, b): return <expr>` is substituted wherever it is called
    def _expr_helper(self, call: ast.Call, owner, module):
        r = self._resolve(call, owner, module)
        if r is None:
            return None
        k, fn, recv = r
        star = [kw for kw in call.keywords if kw.arg is None]
        passthrough = fn.args.kwarg is not None and len(star) == 1 and isinstance(star[0].value, ast.Name)
        if not self._inlinable(fn, passthrough=passthrough):
            return None
        body = fn.body
        if body and isinstance(body[0], ast.Expr) and isinstance(body[0].value, ast.Constant) and isinstance(body[0].value.value, str):
            body = body[1:]
        if len(body) != 1 or not isinstance(body[0], ast.Return) or body[0].value is None:
            return None
        if _contains(body, (ast.Lambda, ast.ListComp, ast.SetComp, ast.DictComp, ast.GeneratorExp, ast.NamedExpr)):
            return None
        decos = [ast.unparse(d) for d in fn.decorator_list if not _transparent_decorator(d)]
        params = [a.arg for a in fn.args.args]
        defaults = dict(zip(params[len(params) - len(fn.args.defaults):], fn.args.defaults))
        mapping: dict[str, ast.AST] = {}
        if k is not None and "staticmethod" not in decos:
            if not params:
                return None
            first, params = params[0], params[1:]
            if "classmethod" in decos:
                mapping[first] = ast.Name(id=recv, ctx=ast.Load()) if recv != "self" else None
                if mapping[first] is None:
                    return None
            else:
                if recv != "self":
                    return None
                mapping[first] = ast.Name(id="self", ctx=ast.Load())
        if any(isinstance(a, ast.Starred) for a in call.args) or (any(kw.arg is None for kw in call.keywords) and not passthrough) \
                or len(call.args) > len(params):
            return None
        actual = dict(zip(params, call.args))
        for kw in call.keywords:
            if kw.arg is None:
                continue
            if kw.arg in actual or kw.arg not in params:
                return None
            actual[kw.arg] = kw.value
        if passthrough:
            mapping[fn.args.kwarg.arg] = star[0].value
        for p_ in params:
            if p_ not in actual:
                if p_ not in defaults:
                    return None
                actual[p_] = defaults[p_]
        expr = body[0].value
        uses = {}
        for n in ast.walk(expr):
            if isinstance(n, ast.Name):
                uses[n.id] = uses.get(n.id, 0) + 1
        for p_, a in actual.items():
            cheap = isinstance(a, (ast.Name, ast.Constant)) or (isinstance(a, ast.Attribute) and isinstance(a.value, ast.Name))
            if not cheap and uses.get(p_, 0) > 1:
                return None
            mapping[p_] = a
        new = _Subst(mapping).visit(copy.deepcopy(expr))
        for n in ast.walk(new):
            if hasattr(n, "lineno"):
                n.lineno = call.lineno
                n.end_lineno = getattr(call, "end_lineno", call.lineno)
        self.log.append(f"{module.relpath}:{call.lineno} {fn.name} (expression)")
        return new

    def inline_exprs(self, fn, owner, module):
        inl = self

        class T(ast.NodeTransformer):
            def visit_FunctionDef(self, n):
                return n if n is not fn else self.generic_visit(n)

            def visit_Call(self, n):
                self.generic_visit(n)
                for _ in range(inl.max_depth):
                    if not isinstance(n, ast.Call):
                        break
                    r = inl._expr_helper(n, owner, module)
                    if r is None:
                        break
                    n = T().visit(r)
                return n

        T().visit(fn)

    # ---- statement lists
    def run_function(self, fn: ast.FunctionDef, owner, module, depth: int = 0):
        self._current = fn
        self.inline_exprs(fn, owner, module)
        names = _assigned_names(fn.body)
        fn.body = self._stmts(fn.body, owner, module, names, 0)
        ast.fix_missing_locations(fn)

    def _stmts(self, body, owner, module, names, depth):
        out = []
        for st in body:
            out.extend(self._one(st, owner, module, names, depth))
        return out

    def _one(self, st, owner, module, names, depth):
        for field in ("body", "orelse", "finalbody"):
            v = getattr(st, field, None)
            if isinstance(v, list) and v and isinstance(v[0], ast.stmt) and not isinstance(st, (ast.FunctionDef, ast.ClassDef, ast.AsyncFunctionDef)):
                setattr(st, field, self._stmts(v, owner, module, names, depth))
        if isinstance(st, ast.Try):
            for h in st.handlers:
                h.body = self._stmts(h.body, owner, module, names, depth)
        if depth >= self.max_depth:
            return [st]
        # `if self._predicate(...):` with a multi-statement predicate helper: evaluate it into a flag first, inline that, and
        # fold the flag back into the test (`if A: t = False else: t = B` ; `if t: X`  ==  `if (not A) and B: X`)
        if isinstance(st, ast.If) and depth < self.max_depth:
            inner = st.test.operand if isinstance(st.test, ast.UnaryOp) and isinstance(st.test.op, ast.Not) else st.test
            if isinstance(inner, ast.Call):
                r = self._resolve(inner, owner, module)
                if r is not None and self._inlinable(r[1]):
                    flag = f"flag__i{next(_ctr)}"
                    assign = ast.copy_location(ast.Assign(targets=[ast.Name(id=flag, ctx=ast.Store())], value=inner), st)
                    pre = self._one(assign, owner, module, names, depth)
                    cond = _flag_condition(pre, flag)
                    if cond is not None:
                        lead, expr = cond
                        st.test = ast.copy_location(expr if inner is st.test else ast.UnaryOp(op=ast.Not(), operand=expr), st.test)
                        return lead + [ast.fix_missing_locations(st)]
        # a multi-statement helper called inside a larger expression (`return jnp.array(h(model))`): evaluate it into a temporary
        # first, when nothing else in the statement can observe the difference (every other call of the statement encloses it)
        if isinstance(st, (ast.Expr, ast.Assign, ast.Return)) and st.value is not None and not isinstance(st.value, ast.Call) or \
                (isinstance(st, (ast.Expr, ast.Assign, ast.Return)) and isinstance(st.value, ast.Call) and self._resolve(st.value, owner, module) is None):
            hoisted = self._hoist_nested(st, owner, module)
            if hoisted is not None:
                return self._stmts(hoisted, owner, module, names, depth)
        # `x = self.p` where p is a property with a multi-statement getter that no rule names: the getter is a helper called without
        # arguments
        if isinstance(st, (ast.Assign, ast.Return)) and isinstance(st.value, ast.Attribute) and isinstance(st.value.value, ast.Name) \
                and st.value.value.id == "self" and owner is not None:
            r_ = self.ct.lookup(owner, st.value.attr)
            if r_ is not None and [ast.unparse(d) for d in r_[1].decorator_list] == ["property"] and len(_strip_docstring(r_[1].body)) > 1 \
                    and not any(isinstance(it, ast.FunctionDef) and it is not r_[1] and it.name == r_[1].name for it in r_[0].node.body):
                getter = r_[1]
                saved = getter.decorator_list
                getter.decorator_list = []
                try:
                    fake = ast.copy_location(ast.Call(func=st.value, args=[], keywords=[]), st.value)
                    exp0 = self._expand(fake, owner, module, True, st, names)
                finally:
                    getter.decorator_list = saved
                if exp0 is not None:
                    new0, res0 = exp0
                    val0 = ast.Name(id=res0, ctx=ast.Load())
                    if not any(isinstance(n, ast.Name) and n.id == res0 and isinstance(n.ctx, ast.Store) for s0 in new0 for n in ast.walk(s0)):
                        val0 = ast.Constant(value=None)
                    tail0 = copy.copy(st)
                    tail0.value = ast.copy_location(val0, st)
                    out0 = [ast.fix_missing_locations(ast.copy_location(s0, st) if not hasattr(s0, "lineno") else s0) for s0 in new0 + [tail0]]
                    self.log.append(f"{module.relpath}:{st.lineno} {getter.name} (property)")
                    return self._stmts(out0, owner, module, names, depth + 1)
        call = None
        if isinstance(st, ast.Expr) and isinstance(st.value, ast.Call):
            call, want = st.value, False
        elif isinstance(st, (ast.Assign, ast.AnnAssign, ast.Return)) and isinstance(st.value, ast.Call):
            call, want = st.value, True
        if call is None:
            return [st]
        exp = self._expand(call, owner, module, want, st, names)
        if exp is None:
            return [st]
        new, res = exp
        # tail `result = e` directly feeds the original statement
        if want:
            if new and isinstance(new[-1], ast.Assign) and isinstance(new[-1].targets[0], ast.Name) and new[-1].targets[0].id == res:
                val = new.pop().value
            else:
                val = ast.Name(id=res, ctx=ast.Load())
                if not any(isinstance(n, ast.Name) and n.id == res and isinstance(n.ctx, ast.Store) for s in new for n in ast.walk(s)):
                    val = ast.Constant(value=None)
                else:
                    new.insert(0, ast.copy_location(ast.Assign(targets=[ast.Name(id=res, ctx=ast.Store())], value=ast.Constant(value=None)), st))
            tail = copy.copy(st)
            tail.value = ast.copy_location(val, st) if not hasattr(val, "lineno") else val
            trivial = isinstance(tail, ast.Assign) and len(tail.targets) == 1 and ast.dump(tail.targets[0]).replace("Store()", "Load()") == ast.dump(tail.value)
            if not trivial:
                new.append(tail)
        new = [ast.fix_missing_locations(ast.copy_location(s, st) if not hasattr(s, "lineno") else s) for s in new]
        # helpers calling helpers
        return self._stmts(new, owner, module, names, depth + 1)


def _hoist_nested(self, st, owner, module):
    root = st.value
    calls = [n for n in ast.walk(root) if isinstance(n, ast.Call)]
    for c in calls:
        if c is root:
            continue
        r = self._resolve(c, owner, module)
        if r is None or not self._inlinable(r[1]):
            continue
        body = r[1].body
        if body and isinstance(body[0], ast.Expr) and isinstance(body[0].value, ast.Constant):
            body = body[1:]
        if len(body) <= 1:
            continue  # an expression helper: substituted in place elsewhere
        inside = {id(n) for n in ast.walk(c)}
        others = [o for o in calls if id(o) not in inside]
        if not all(any(n is c for n in ast.walk(o)) for o in others):
            continue
        # not under anything evaluated conditionally or repeatedly
        bad = False
        for n in ast.walk(root):
            if isinstance(n, (ast.IfExp, ast.BoolOp, ast.Lambda, ast.ListComp, ast.SetComp, ast.DictComp, ast.GeneratorExp, ast.NamedExpr)) \
                    and any(m is c for m in ast.walk(n)):
                bad = True
        if bad or any(isinstance(n, (ast.Await, ast.Yield, ast.YieldFrom)) for n in ast.walk(root)):
            continue
        tmp = f"hoisted__i{next(_ctr)}"
        pre = ast.copy_location(ast.Assign(targets=[ast.Name(id=tmp, ctx=ast.Store())], value=c), st)
        _replace_node(st, c, ast.copy_location(ast.Name(id=tmp, ctx=ast.Load()), c))
        return [ast.fix_missing_locations(pre), ast.fix_missing_locations(st)]
    return None


Inliner._hoist_nested = _hoist_nested


def _flag_condition(stmts, flag):
    """The boolean expression a flag ends up with after `stmts` (the inlined body of a predicate helper), together with the
    statements that must still run before it; None when the shape is not a chain of guard clauses assigning constants /
    expressions to the flag."""
    def expr_of(block):
        # returns an expression for the flag's final value in this block, or None
        if not block:
            return None
        *lead, last = block
        if lead:
            return None
        if isinstance(last, ast.Assign) and len(last.targets) == 1 and isinstance(last.targets[0], ast.Name) and last.targets[0].id == flag:
            return last.value
        if isinstance(last, ast.If) and last.orelse:
            a, b = expr_of(last.body), expr_of(last.orelse)
            if a is None or b is None:
                return None
            t = last.test
            # ite(t, a, b) as boolean algebra
            return ast.BoolOp(op=ast.Or(), values=[ast.BoolOp(op=ast.And(), values=[copy.deepcopy(t), a]),
                                                  ast.BoolOp(op=ast.And(), values=[ast.UnaryOp(op=ast.Not(), operand=copy.deepcopy(t)), b])])
        return None

    # `flag = r` at the end: the flag is whatever r was decided to be
    if stmts and isinstance(stmts[-1], ast.Assign) and len(stmts[-1].targets) == 1 and isinstance(stmts[-1].targets[0], ast.Name) \
            and stmts[-1].targets[0].id == flag and isinstance(stmts[-1].value, ast.Name) and stmts[-1].value.id != flag:
        return _flag_condition(stmts[:-1], stmts[-1].value.id)
    # leading statements that do not touch the flag stay in front (parameter bindings etc.)
    k = 0
    while k < len(stmts) and not any(isinstance(n, ast.Name) and n.id == flag for n in ast.walk(stmts[k])):
        k += 1
    lead, rest = stmts[:k], stmts[k:]
    # `flag = None` initialisation followed by the deciding statement
    if rest and isinstance(rest[0], ast.Assign) and isinstance(rest[0].value, ast.Constant) and rest[0].value.value is None and len(rest) > 1:
        rest = rest[1:]
    # guard-clause form: `if A: flag = c` ; `flag = B`   ==   ite(A, c, B)
    if len(rest) == 2 and isinstance(rest[0], ast.If) and not rest[0].orelse:
        a = expr_of(rest[0].body)
        b = expr_of([rest[1]])
        if a is not None and b is not None:
            t = rest[0].test
            e = ast.BoolOp(op=ast.Or(), values=[ast.BoolOp(op=ast.And(), values=[copy.deepcopy(t), a]),
                                               ast.BoolOp(op=ast.And(), values=[ast.UnaryOp(op=ast.Not(), operand=copy.deepcopy(t)), b])])
            return lead, e
    e = expr_of(rest)
    return (lead, e) if e is not None else None


def _delegating_methods(ct, inl) -> None:
    """A method whose whole body is `return f(self, a, b)` with f a function of the package (typically of the same name: the body was moved
    to a module function and the method kept for the public API) IS f's body with f's first parameter read as self - also when f defines
    nested functions, which rules out statement-wise inlining."""
    for ci in ct.by_qual.values():
        for name, m in list(ci.methods.items()):
            body = _strip_docstring(m.body)
            if len(body) != 1 or not isinstance(body[0], ast.Return) or not isinstance(body[0].value, ast.Call) or m.decorator_list:
                continue
            call = body[0].value
            if not isinstance(call.func, ast.Name) or call.keywords or not call.args or not all(isinstance(a, ast.Name) for a in call.args):
                continue
            params = [a.arg for a in m.args.args]
            if m.args.vararg or m.args.kwarg or m.args.kwonlyargs or [a.id for a in call.args] != params or not params or params[0] != "self":
                continue
            dotted = ci.module.imports.get(call.func.id)
            f = ci.module.functions.get(call.func.id)
            rm = ci.module
            if f is None and dotted:
                r = ct.repo.resolve_dotted(dotted)
                if r is not None and isinstance(r[1], ast.FunctionDef):
                    rm, f = r
            if f is None or f.decorator_list or f.args.vararg or f.args.kwarg or f.args.kwonlyargs or len(f.args.args) != len(params):
                continue
            if f.name != name and f.name in inl.anchors:
                continue
            if _contains(f.body, (ast.Yield, ast.YieldFrom, ast.Await, ast.Global, ast.Nonlocal)):
                continue
            fparams = [a.arg for a in f.args.args]
            assigned = _assigned_names(f.body)
            if any(p in assigned for p in fparams) or (set(params) - set(fparams)) & (assigned | {n.id for n in ast.walk(f) if isinstance(n, ast.Name)}):
                continue
            if not inl._free_names_agree(f, rm, ci.module):
                continue
            mapping = {fp: ast.Name(id=p, ctx=ast.Load()) for fp, p in zip(fparams, params) if fp != p}
            new_body = [_Subst(mapping).visit(st) for st in copy.deepcopy(_strip_docstring(f.body))] if mapping else copy.deepcopy(_strip_docstring(f.body))
            doc = m.body[:len(m.body) - len(body)]
            m.body = doc + new_body
            if rm is not ci.module:
                for st in m.body[len(doc):]:
                    for n in ast.walk(st):
                        if hasattr(n, "lineno"):
                            n.lineno = n.end_lineno = m.lineno
            ast.fix_missing_locations(m)
            inl.log.append(f"{ci.module.relpath}:{m.lineno} {f.name} (whole body of the delegating method {ci.name}.{name})")


def inline_helpers(ct) -> list[str]:
    inl = Inliner(ct)
    _delegating_methods(ct, inl)
    for ci in ct.by_qual.values():
        for fn in list(ci.methods.values()):
            inl.run_function(fn, ci, ci.module)
    for m in ct.repo.modules.values():
        for fn in m.functions.values():
            inl.run_function(fn, None, m)
    # a private helper whose every use was inlined is dead code: rules that enumerate methods must not see it twice
    inlined_names = {entry.split()[1] for entry in inl.log}
    if inlined_names:
        refs: dict[str, int] = {}
        for m in ct.repo.modules.values():
            for n in ast.walk(m.tree):
                if isinstance(n, ast.Attribute) and n.attr in inlined_names:
                    refs[n.attr] = refs.get(n.attr, 0) + 1
                elif isinstance(n, ast.Name) and n.id in inlined_names:
                    refs[n.id] = refs.get(n.id, 0) + 1
                elif isinstance(n, ast.Constant) and isinstance(n.value, str) and n.value in inlined_names:
                    refs[n.value] = refs.get(n.value, 0) + 1
        for name in sorted(inlined_names):
            if refs.get(name, 0) or not name.startswith("_"):
                continue
            for ci in ct.by_qual.values():
                fn = ci.methods.get(name)
                if fn is not None:
                    del ci.methods[name]
                    ci.node.body = [b for b in ci.node.body if b is not fn] or [ast.Pass()]
                    inl.log.append(f"{ci.module.relpath}:{fn.lineno} {name} (dead after inlining: dropped)")
            for m in ct.repo.modules.values():
                fn = m.functions.get(name)
                if fn is not None:
                    del m.functions[name]
                    m.tree.body = [b for b in m.tree.body if b is not fn]
                    inl.log.append(f"{m.relpath}:{fn.lineno} {name} (dead after inlining: dropped)")
    return inl.log


# ------------------------------------------------------------------------------------------------ keyword -> positional
def positional_calls(ct) -> int:
    """`self.m(x=a, y=b)` -> `self.m(a, b)` when m resolves to a method with plain parameters: rules read call
    arguments by position, and a call that names its arguments is the same call."""
    n_done = 0
    for ci in ct.by_qual.values():
        for fn in ci.methods.values():
            for call in [n for n in ast.walk(fn) if isinstance(n, ast.Call)]:
                f = call.func
                if not (isinstance(f, ast.Attribute) and call.keywords and all(k.arg is not None for k in call.keywords)):
                    continue
                if any(isinstance(a, ast.Starred) for a in call.args):
                    continue
                target = None
                if isinstance(f.value, ast.Name) and f.value.id in ("self", "cls"):
                    target = ct.lookup(ci, f.attr)
                elif isinstance(f.value, ast.Call) and isinstance(f.value.func, ast.Name) and f.value.func.id == "super" and not f.value.args:
                    target = ct.lookup(ci, f.attr, after=ci)
                if target is None:
                    continue
                m = target[1]
                decos = [ast.unparse(d) for d in m.decorator_list]
                if any(d not in ("staticmethod", "classmethod") for d in decos) or m.args.vararg or m.args.kwarg or m.args.posonlyargs:
                    continue
                params = [a.arg for a in m.args.args]
                if "staticmethod" not in decos:
                    params = params[1:]
                kw = {k.arg: k.value for k in call.keywords}
                rest = params[len(call.args):]
                take = []
                for p_ in rest:
                    if p_ in kw:
                        take.append(p_)
                    else:
                        break
                if not take or set(kw) - set(take):
                    # some keyword is keyword-only, unknown, or separated from the positional prefix by a defaulted gap
                    if set(kw) - set(take):
                        continue
                call.args = list(call.args) + [kw[p_] for p_ in take]
                call.keywords = []
                n_done += 1
    return n_done


# ------------------------------------------------------------------------------------------------ constants across modules
def cross_module_constants(repo) -> int:
    """`from .a import _LIMIT, _Names` ... `_LIMIT`, `_Names.SPAN`: literal constants and namespace classes of literal constants
    imported from another module of the package are substituted where they are used."""
    n_done = 0
    for m in repo.modules.values():
        imported_consts: dict[str, ast.AST] = {}
        imported_ns: dict[tuple[str, str], ast.AST] = {}
        for alias, dotted in m.imports.items():
            modname, _, name = dotted.rpartition(".")
            src = repo.modules.get(modname)
            if src is None or src is m:
                continue
            consts = getattr(src.tree, "_mdpax_consts", {})
            ns = getattr(src.tree, "_mdpax_ns", {})
            if name in consts:
                imported_consts[alias] = consts[name]
            for (cls_, attr), v in ns.items():
                if cls_ == name:
                    imported_ns[(alias, attr)] = v
        if not imported_consts and not imported_ns:
            continue
        rebound = {n.id for n in ast.walk(m.tree) if isinstance(n, ast.Name) and isinstance(n.ctx, ast.Store)}

        class R(ast.NodeTransformer):
            def visit_Attribute(self, n):
                self.generic_visit(n)
                if isinstance(n.ctx, ast.Load) and isinstance(n.value, ast.Name) and (n.value.id, n.attr) in imported_ns and n.value.id not in rebound:
                    return ast.copy_location(copy.deepcopy(imported_ns[(n.value.id, n.attr)]), n)
                return n

            def visit_Name(self, n):
                if isinstance(n.ctx, ast.Load) and n.id in imported_consts and n.id not in rebound:
                    return ast.copy_location(copy.deepcopy(imported_consts[n.id]), n)
                return n

        for i_, node in enumerate(m.tree.body):
            if isinstance(node, (ast.FunctionDef, ast.ClassDef)):
                m.tree.body[i_] = ast.fix_missing_locations(R().visit(node))
                n_done += 1
    return n_done
