"""C13 - shipped problems define a probability distribution for every state-action pair."""

from __future__ import annotations

import ast

from ..interp import Unsupported, fresh
from ..loader import AnalysisError
from ..terms import K, NONE, ONE, S, T_add, T_sub, ZERO, show_norm, subterms
from .common import Context, backing_attr, one_data_attr
from .problemterms import ACTION, EVENT, STATE, cfgsym, probability_term, problem_interp
from .solverterms import brief, same

PROP = "C13"
EXPLANATION = (
    "Decides the closure clause of 'probabilities sum to one': every table built from an unbounded "
    "distribution over a truncated range must be closed by an idiom whose total is 1 as a TERM identity - "
    "sum(x.at[i].add(1 - sum(x))) == sum(x) + 1 - sum(x) == 1 (De Moor, Mirjalili demand) - or by an exact "
    "complement pair (sum_{i<s} pmf(i) with 1 - cdf(s-1)).  All distribution call sites (.pmf / .cdf / "
    ".log_prob) of the four problems are enumerated and must appear in a frozen triage table, one reason "
    "each; a new or untriaged site is a violation.  Also decided: table length == event-space size and "
    "the folded index is the last one (out-of-range gathers are clamped silently by JAX); the Mirjalili "
    "event space is the full cross product of demands and of all splits with components in [0,Q] and sum <= Q, "
    "Q being the bound of the action space (so the multinomial's support {sum == order} is listed for every "
    "order); Forest's rows sum to 1 as polynomials.  Hendrix's pu / pz tables are truncated at a point that "
    "does not depend on the Poisson means with no tail folding: recorded as known finding D5.  Non-negativity, "
    "finiteness and the 1e-4 tolerance for given parameters are not decided."
)
RULES = {
    "R13.1": "every distribution call site is triaged; truncated tables of unbounded distributions are closed by tail folding (sum == 1 as a term) or an exact complement pair",
    "R13.2": "table length == event-space size; the censored mass is folded into the last index",
    "R13.3": "Mirjalili: event space == demands x {splits in [0,Q]^m with sum <= Q} (full cross product), Q == action-space bound; zero probability outside {sum == order}",
    "R13.5": "no logarithm of a configuration parameter at an accepted singular value: log(p) where the validator accepts p = 0, log1p(-p) / log(1 - p) where it accepts p = 1 (0 * -inf = NaN makes every event probability non-finite); expected count zero, decided from the validator domains of C20",
    "R13.4": "Forest: each row of the probability table sums to 1 as a polynomial",
}
ASSUMPTIONS = [
    "a Multinomial(total_count=a) over its full support and a Binomial sum to one (library fact)",
    "sum(x.at[i].add(v)) == sum(x) + v for a scalar index i",
]

# (class, method, callee-text) -> (verdict, reason).  Frozen after reading; see DESIGN.md Appendix C.2
TRIAGE = {
    ("DeMoorSingleProductPerishable", "_calculate_demand_probabilities", "Gamma.cdf"):
        ("closed", "grid to D+0.5, tail folded by .at[-1].add(1 - sum) - checked as a term identity below"),
    ("MirjaliliPlateletPerishable", "_calculate_demand_probabilities", "NegativeBinomialProbs.log_prob"):
        ("closed", "0..D, tail folded by .at[max_demand].add(1 - sum) - checked as a term identity below"),
    ("MirjaliliPlateletPerishable", "_calculate_received_order_probabilities", "Multinomial.log_prob"):
        ("closed", "Multinomial has finite support {sum == order}; the event space lists it (R13.3)"),
    ("HendrixTwoProductPerishable", "_get_probs_ia_lt_stock_a_ib_lt_stock_b", "poisson.pmf"):
        ("closed", "masked i < stock; the complement mass is placed by the eq cases (1 - cdf(stock-1) / pz column)"),
    ("HendrixTwoProductPerishable", "_get_probs_ia_eq_stock_a_ib_lt_stock_b", "poisson.pmf"):
        ("closed", "masked i < stock_b, paired with case 1"),
    ("HendrixTwoProductPerishable", "_get_probs_ia_eq_stock_a_ib_lt_stock_b", "poisson.cdf"):
        ("closed", "1 - cdf(stock_a - 1): exact complement of sum_{i<stock_a} pmf(i)"),
    ("HendrixTwoProductPerishable", "_calculate_pu", "poisson.pmf"):
        ("open", "Poisson demand for B truncated at max_demand - y = m*(max(Qa,Qb)+2) - y, a point independent of the Poisson mean, no tail folding"),
    ("HendrixTwoProductPerishable", "_calculate_pu", "binom.pmf"):
        ("closed", "Binomial over its full support for each x (finite)"),
    ("HendrixTwoProductPerishable", "_calculate_pz", "poisson.pmf"):
        ("open", "Poisson demand for A truncated at max_demand, a point independent of the Poisson mean, no tail folding"),
}


# the argument text of each triaged call, as read (a call that moves to another method keeps it)
TRIAGE_ARGS = {
    ("DeMoorSingleProductPerishable", "_calculate_demand_probabilities", "Gamma.cdf"): ("jnp.hstack([0, jnp.arange(0.5, self.max_demand + 1.5)])",),
    ("MirjaliliPlateletPerishable", "_calculate_demand_probabilities", "NegativeBinomialProbs.log_prob"): ("jnp.arange(0, self.max_demand + 1)",),
    ("MirjaliliPlateletPerishable", "_calculate_received_order_probabilities", "Multinomial.log_prob"): ("received_order",),
    ("HendrixTwoProductPerishable", "_get_probs_ia_lt_stock_a_ib_lt_stock_b", "poisson.pmf"):
        ("jnp.arange(self.max_stock_a + 1), self.demand_poisson_mean_a", "jnp.arange(self.max_stock_b + 1), self.demand_poisson_mean_b"),
    ("HendrixTwoProductPerishable", "_get_probs_ia_eq_stock_a_ib_lt_stock_b", "poisson.pmf"): ("jnp.arange(self.max_stock_b + 1), self.demand_poisson_mean_b",),
    ("HendrixTwoProductPerishable", "_get_probs_ia_eq_stock_a_ib_lt_stock_b", "poisson.cdf"): ("stock_a - 1, self.demand_poisson_mean_a",),
    ("HendrixTwoProductPerishable", "_calculate_pu", "poisson.pmf"): ("x + y, self.demand_poisson_mean_b",),
    ("HendrixTwoProductPerishable", "_calculate_pu", "binom.pmf"): ("0, x, self.substitution_probability", "u, x, self.substitution_probability"),
    ("HendrixTwoProductPerishable", "_calculate_pz", "poisson.pmf"): ("np.arange(self.max_demand + 1), self.demand_poisson_mean_a",),
}


_TRUNC: dict = {}


def _truncation_point(ctx, cls) -> str:
    key = (id(ctx), cls.name)
    if key not in _TRUNC:
        try:
            I = problem_interp(ctx, cls)
            t = I.attrs.get("max_demand")
            _TRUNC[key] = show_norm(t) if t is not None else "?"
        except (AnalysisError, Unsupported) as e:
            _TRUNC[key] = f"?{e}"
    if _TRUNC[key].startswith("?"):
        # the point is part of the identity of the recorded finding: without it neither "the recorded truncation" nor "a moved one" can be said
        raise AnalysisError(f"{cls.name}: the truncation point `max_demand` of the open Poisson tables cannot be evaluated "
                            f"({_TRUNC[key][1:] or 'attribute not assigned in the constructor'}); R13.1 cannot be decided")
    return _TRUNC[key]


def _family(fn, recv) -> str:
    """Distribution family of the receiver of .pmf/.cdf/.log_prob: last name of the constructor /
    module path, following one local assignment (dist = Family(...); dist.log_prob(x))."""
    if isinstance(recv, ast.Call):
        return _family(fn, recv.func)
    if isinstance(recv, ast.Attribute):
        return recv.attr
    if isinstance(recv, ast.Name):
        for s in ast.walk(fn):
            if isinstance(s, ast.Assign) and any(isinstance(t, ast.Name) and t.id == recv.id for t in s.targets) and isinstance(s.value, ast.Call):
                return _family(fn, s.value.func)
        return recv.id
    return ast.unparse(recv)


def _call_sites(ctx):
    out = []
    for cls in ctx.problems():
        for name, fn in cls.methods.items():
            for c in ast.walk(fn):
                if isinstance(c, ast.Call) and isinstance(c.func, ast.Attribute) and c.func.attr in (
                        "pmf", "cdf", "log_prob", "pdf", "sf", "logpmf", "logcdf", "icdf", "sample"):
                    out.append((cls, name, fn, c, f"{_family(fn, c.func.value)}.{c.func.attr}"))
    return out


def fold_normal(t):
    """`x.at[-1].set(1 - sum(x[:-1]))` is `x.at[-1].add(1 - sum(x))`: the last entry becomes one minus the others either way (the second spelling is the
    form the rules are written against)."""
    if t[0] == "scatter" and len(t) == 4 and t[2] == K(-1):
        x, v = t[1], t[3]
        head = ("app", "sum", (("app", "slice", (x, ("const", None), K(-1), ("const", None))),))
        if v == T_sub(ONE, head):
            return ("atadd", x, K(-1), T_sub(ONE, ("app", "sum", (x,))))
    return t


def sum_of(I, t):
    """sum over all entries, pushing through tail folding: sum(x.at[i].add(v)) = sum(x) + v."""
    if t[0] == "atadd" and not I.axes_of(t[2]) and t[2][0] != "tuple":
        return T_add(sum_of(I, t[1]), t[3])
    return ("app", "sum", (t,))


def length_of(t):
    """Number of entries of a 1-D table term (None if unknown)."""
    k = t[0]
    if k in ("atadd", "scatter"):
        return length_of(t[1])
    if k == "app":
        n, a = t[1], t[2]
        if n == "arange":
            return a[0] if len(a) == 1 else T_sub(a[1], a[0])
        if n == "hstack":
            tot = ZERO
            for x in a:
                l = ONE if x[0] == "const" else length_of(x)
                if l is None:
                    return None
                tot = T_add(tot, l)
            return tot
        if n == "np.diff":
            l = length_of(a[0])
            return None if l is None else T_sub(l, ONE)
        if n in (".cdf", ".log_prob", ".pmf"):
            return length_of(a[1])
        if n in ("exp", "log"):
            return length_of(a[0])
    return None


def _log_hazards(ctx, col):
    """R13.5: logarithms of configuration parameters whose accepted domain reaches the singularity."""
    import ast

    from .c20 import DOMAINS

    for cls in ctx.problems():
        ca = ctx.ct.class_attr(cls, "Config")
        cfg = ctx.ct.class_of_dotted(ctx.ct.resolve_name(ca[0].module, ast.unparse(ca[1]))) if ca else None
        dom = DOMAINS.get(cfg.name, {}) if cfg is not None else {}

        def accepts(field, x):
            for c in dom.get(field, []):
                if c[0] == "accept":
                    return any(iv.contains(x) for iv in c[1])
            return field in dom and False

        def field_of(e):
            # self.<f> / self.config.<f> / cfg-like chains ending in a configuration field name
            if isinstance(e, ast.Attribute) and e.attr in dom:
                return e.attr
            return None

        bad = []
        nfn = 0
        for owner, fn in ctx.ct.methods_of(cls).values():
            if owner.name == "Problem":
                continue
            nfn += 1
            for c in ast.walk(fn):
                if not (isinstance(c, ast.Call) and isinstance(c.func, ast.Attribute) and c.func.attr in ("log", "log1p", "log2", "log10", "xlogy") and c.args):
                    continue
                a = c.args[0]
                f = field_of(a)
                if c.func.attr in ("log", "log2", "log10") and f and accepts(f, 0.0):
                    bad.append((owner, fn, c, f, 0))
                # log1p(-p), log(1 - p)
                neg = a.operand if isinstance(a, ast.UnaryOp) and isinstance(a.op, ast.USub) else None
                if c.func.attr == "log1p" and neg is not None and field_of(neg) and accepts(field_of(neg), 1.0):
                    bad.append((owner, fn, c, field_of(neg), 1))
                if c.func.attr in ("log", "log2", "log10") and isinstance(a, ast.BinOp) and isinstance(a.op, ast.Sub) \
                        and isinstance(a.left, ast.Constant) and a.left.value == 1 and field_of(a.right) and accepts(field_of(a.right), 1.0):
                    bad.append((owner, fn, c, field_of(a.right), 1))
        for owner, fn, c, f, at in bad:
            col.add("R13.5", f"{cls.name}.{fn.name}", owner.module.relpath, c.lineno, False,
                    f"`{ast.unparse(c)[:80]}`: the validator accepts {f} = {at}, where this logarithm is -inf; multiplied by a zero count it is NaN, "
                    "so every event probability of the problem becomes non-finite", text=f"log at accepted {f}={at}")
        col.add("R13.5", cls.name, cls.module.relpath, cls.node.lineno, True,
                f"{nfn} methods scanned: no logarithm of a parameter at an accepted singular value", text="log hazards scanned")


def run(ctx: Context, col) -> None:
    from .common import Parts

    part = Parts()
    # ---- triage of all call sites
    sites = _call_sites(ctx)
    seen_keys = set()
    untriaged = []
    for cls, meth, fn, c, callee in sites:
        key = (cls.name, meth, callee)
        tri = TRIAGE.get(key)
        construct = f"{cls.name}.{meth}"
        if tri is None:
            # the same call (class, distribution function, argument text) as a triaged one, in another method: the call has moved (a
            # shared intermediate computed once by the caller), the verdict about its range moves with it
            args_ = ", ".join(ast.unparse(a) for a in c.args)
            moved = [(k_, v_) for k_, v_ in TRIAGE.items() if k_[0] == cls.name and k_[2] == callee and args_ in TRIAGE_ARGS.get(k_, ())]
            if moved and len({v_[0] for _k, v_ in moved}) == 1:
                for k_, _v in moved:
                    seen_keys.add(k_)
                tri = moved[0][1]
                construct = f"{moved[0][0][0]}.{moved[0][0][1]}"  # keyed like the triaged site (recorded findings stay matched)
            else:
                untriaged.append(f"{cls.name}.{meth}: `{callee}({args_[:60]})` at line {c.lineno}")
                continue
        else:
            seen_keys.add(key)
        verdict, reason = tri
        text_ = f"{callee} [{verdict}]"
        if verdict == "open":
            # an open range is a finding about a particular truncation point: the point is part of the finding's identity, so that moving it
            # (another, possibly worse, truncation) is a different finding and not covered by the recorded one
            text_ = f"{callee} [open, truncated at {_truncation_point(ctx, cls)}]"
        col.add("R13.1", construct, cls.module.relpath, c.lineno, verdict == "closed",
                f"{callee}: {reason}" + (f" [truncation point in this tree: max_demand = {_truncation_point(ctx, cls)}]" if verdict == "open" else ""), text=text_)
    part(_log_hazards, ctx, col)
    if untriaged:
        # a distribution call nobody has read yet: whether its range is closed (tail folded, complement taken) is not something this rule
        # can decide by itself - no verdict, rather than a guess
        raise AnalysisError("distribution call sites that are not in the triage table (read them, decide whether the range is closed, add them): "
                            + "; ".join(untriaged))
    missing = [k for k in TRIAGE if k not in seen_keys]
    if missing:
        raise AnalysisError(f"anchor vanished: triaged distribution call sites no longer exist: {missing}")
    part(_demoor, ctx, col)
    part(_mirjalili, ctx, col)
    part(_hendrix_pairs, ctx, col)
    part(_forest, ctx, col)
    part.finish()
    col.floor("R13.5", 4)
    col.floor("R13.1", 14)
    col.floor("R13.2", 2)
    col.floor("R13.3", 3)
    col.floor("R13.4", 2)


def _demoor(ctx, col):
    cls = ctx.ct.get("DeMoorSingleProductPerishable")
    I = problem_interp(ctx, cls)
    table = I.attrs.get("demand_probabilities")
    o, f = ctx.ct.require(cls, "_calculate_demand_probabilities")
    if table is None:
        raise AnalysisError("anchor vanished: DeMoor.demand_probabilities")
    table = fold_normal(table)
    tot = sum_of(I, table)
    col.add("R13.1", "DeMoorSingleProductPerishable._calculate_demand_probabilities", o.module.relpath, f.lineno, tot == ONE,
            "sum(table) == sum(x) + (1 - sum(x)) == 1 as a term" if tot == ONE else
            f"sum(table) = {brief(tot, 200)}: the censored tail is not folded back, probabilities do not sum to one", text="tail folding identity")
    D = cfgsym("max_demand")
    n = length_of(table)
    ev = I.attrs.get(backing_attr(ctx, cls, "random_event_space"))
    nev = length_of(ev) if ev is not None else None
    ok = n is not None and n == T_add(D, ONE) and nev == n
    idx_ok = table[0] == "atadd" and table[2] in (K(-1), D)
    col.add("R13.2", "DeMoorSingleProductPerishable._calculate_demand_probabilities", o.module.relpath, f.lineno, ok and idx_ok,
            "table has max_demand+1 entries == number of events; tail folded into the last one" if ok and idx_ok else
            f"table length {show_norm(n) if n else None}, events {show_norm(nev) if nev else None}, folded at {show_norm(table[2]) if table[0] == 'atadd' else None}",
            text="table length vs events")


def _mirjalili(ctx, col):
    cls = ctx.ct.get("MirjaliliPlateletPerishable")
    I = problem_interp(ctx, cls)
    o, f = ctx.ct.require(cls, "_calculate_demand_probabilities")
    t = I.call_method("_calculate_demand_probabilities", [S("WEEKDAY")])
    tot = sum_of(I, t)
    col.add("R13.1", "MirjaliliPlateletPerishable._calculate_demand_probabilities", o.module.relpath, f.lineno, tot == ONE,
            "sum(table) == 1 as a term (tail folded at max_demand)" if tot == ONE else
            f"sum(table) = {brief(tot, 200)}: censored tail not folded", text="tail folding identity")
    D, Q, m = cfgsym("max_demand"), cfgsym("max_order_quantity"), cfgsym("max_useful_life")
    n = length_of(t)
    ok = n is not None and n == T_add(D, ONE) and t[0] == "atadd" and t[2] == D
    col.add("R13.2", "MirjaliliPlateletPerishable._calculate_demand_probabilities", o.module.relpath, f.lineno, ok,
            "table has max_demand+1 entries; tail folded into index max_demand (the last)" if ok else
            f"table length {show_norm(n) if n else None}, folded at {show_norm(t[2]) if t[0] == 'atadd' else None}", text="table length vs events")
    # event space: full cross product of demands and valid splits
    ev = I.attrs.get(backing_attr(ctx, cls, "random_event_space"))
    d = fresh("dim")
    splits = ("app", "itertools.product", (("star", ("app", "listcomp", (m, ("lam", d, "dim", ("app", "range", (T_add(Q, ONE),)))))),))
    # the comprehension ranges over range(max_useful_life): one factor per age class
    valid = ("elem", splits, (("app", "cmpLtE", (("app", "sum", (splits, ("kw", "axis", ONE))), Q)),))
    demands = ("app", "reshape", (("app", "arange", (T_add(D, ONE),)), ONE, K(-1)))
    want = ("app", "hstack", (
        ("app", "np.repeat", (demands, ("app", "len", (valid,)), ("kw", "axis", ZERO))),
        ("app", "np.repeat", (valid, T_add(D, ONE), ("kw", "axis", ZERO))),
    ))
    o2, f2 = ctx.ct.require(cls, "_construct_random_event_space")
    # np.tile(v, k) flattened to a column cycles v exactly like np.repeat(v.reshape(1, -1), k, axis=0) does
    def _untile(t):
        if isinstance(t, tuple) and t and t[0] == "app":
            args = tuple(_untile(a) for a in t[2])
            if t[1] == "np.tile" and len(args) == 2:
                return ("app", "np.repeat", (("app", "reshape", (args[0], ONE, K(-1))), args[1], ("kw", "axis", ZERO)))
            return ("app", t[1], args)
        return t

    ok3 = ev is not None and same(_untile(ev), want)
    col.add("R13.3", "MirjaliliPlateletPerishable._construct_random_event_space", o2.module.relpath, f2.lineno, ok3,
            "events == demands(0..D) x {splits in [0,Q]^m, sum <= Q}, aligned as a full cross product" if ok3 else
            f"event space is {brief(ev, 500) if ev else None}", text="event space cross product")
    # number of split components == max_useful_life (list comprehension over range(m))
    lcs = [t for t in subterms(ev)] if ev is not None else []
    lcs = [t for t in lcs if t[0] == "app" and t[1] == "listcomp"]
    okm = bool(lcs) and all(t[2][0] == m and t[2][1][0] == "lam" and t[2][1][3] == ("app", "range", (T_add(Q, ONE),)) for t in lcs)
    col.add("R13.3", "MirjaliliPlateletPerishable._construct_random_event_space", o2.module.relpath, f2.lineno, okm,
            "one split component per age class (max_useful_life), each in 0..max_order_quantity" if okm else
            "split components are not range(max_order_quantity+1) for each of max_useful_life ages", text="split components")
    act = I.attrs.get(backing_attr(ctx, cls, "action_space"))
    oka = act == ("app", "arange", (ZERO, T_add(Q, ONE)))
    o3, f3 = ctx.ct.require(cls, "_construct_action_space")
    col.add("R13.3", "MirjaliliPlateletPerishable._construct_action_space", o3.module.relpath, f3.lineno, oka,
            "orders range over 0..max_order_quantity, the bound of the split filter" if oka else f"action space is {show_norm(act) if act else None}",
            text="action bound == split bound")
    # zero outside the support, full multinomial inside
    rp = I.call_method("_calculate_received_order_probabilities", [S("ORDER"), S("SPLIT")])
    oks = rp[0] == "app" and rp[1] == "where" and rp[2][0] == ("app", "cmpEq", tuple(sorted((S("ORDER"), ("app", "sum", (S("SPLIT"),))), key=repr))) \
        and rp[2][2] == ZERO
    o4, f4 = ctx.ct.require(cls, "_calculate_received_order_probabilities")
    col.add("R13.3", "MirjaliliPlateletPerishable._calculate_received_order_probabilities", o4.module.relpath, f4.lineno, oks,
            "probability is the multinomial pmf where sum(split) == order and exactly 0 elsewhere" if oks else
            f"received-order probability is {brief(rp, 300)}", text="support restriction")


def _hendrix_pairs(ctx, col):
    """The closed pairs of the four-case decomposition: `<` masks with their exact complements."""
    cls = ctx.ct.get("HendrixTwoProductPerishable")
    I = problem_interp(ctx, cls)
    I.attrs["pu"], I.attrs["pz"] = S("PU"), S("PZ")
    sa, sb = S("SA"), S("SB")
    names4 = ("_get_probs_ia_lt_stock_a_ib_lt_stock_b", "_get_probs_ia_eq_stock_a_ib_lt_stock_b",
              "_get_probs_ia_lt_stock_a_ib_eq_stock_b", "_get_probs_ia_eq_stock_a_ib_eq_stock_b")
    try:
        c1, c2, c3, c4 = (I.call_method(n_, [sa, sb]) for n_ in names4)
    except Unsupported:
        # the four cases no longer take (stock_a, stock_b) - e.g. intermediates shared by two cases are now computed by the caller and
        # handed in: take each case as random_event_probability calls it, with the stock levels it passes named SA / SB
        from ..terms import subst as _subst
        from .problemterms import ACTION, EVENT, STATE

        rec: dict[str, tuple] = {}
        orig = I.call_fn

        def spy(fn_, args_, kw_, *a_, **k_):
            r_ = orig(fn_, args_, kw_, *a_, **k_)
            if getattr(fn_, "name", None) in names4:
                rec[fn_.name] = (fn_, list(args_), dict(kw_), r_)
            return r_

        I.call_fn = spy
        try:
            I.call_method("random_event_probability", [STATE, ACTION, EVENT])
        except Unsupported as e:
            raise AnalysisError(f"HendrixTwoProductPerishable.random_event_probability: {e}") from e
        finally:
            I.call_fn = orig
        if set(rec) != set(names4):
            raise AnalysisError("anchor vanished: random_event_probability no longer calls the four case helpers")
        cs = []
        for n_ in names4:
            fn_, args_, kw_, r_ = rec[n_]
            params = [a.arg for a in fn_.args.args][1:]
            actual = dict(zip(params, args_))
            actual.update(kw_)
            m_ = {}
            for p_, sym_ in (("stock_a", sa), ("stock_b", sb)):
                if p_ in actual and actual[p_][0] != "const":
                    m_[actual[p_]] = sym_
            cs.append(_subst(r_, m_) if m_ else r_)
        c1, c2, c3, c4 = cs
    o, f = ctx.ct.require(cls, "_get_probs_ia_eq_stock_a_ib_lt_stock_b")
    # A: mask (arange < SA) in case 1  <->  1 - cdf(SA - 1) in case 2
    masks1 = [t for t in subterms(c1) if t[0] == "app" and t[1] == "cmpLt" and t[2][1] == sa]
    comp2 = [t for t in subterms(c2) if t[0] == "app" and t[1].endswith("poisson.cdf")]
    ok_a = len(masks1) == 1 and len(comp2) == 1 and comp2[0][2][0] == T_sub(sa, ONE) and comp2[0][2][1] == cfgsym("demand_poisson_mean_a") \
        and any(t == T_sub(ONE, comp2[0]) or (t[0] == "poly" and comp2[0] in [a for mono, _ in t[1] for a, _p in mono]) for t in subterms(c2))
    col.add("R13.1", "HendrixTwoProductPerishable[A: d<s | d>=s]", o.module.relpath, f.lineno, ok_a,
            "sum_{i<s_a} pmf(i) (case 1) is complemented by 1 - cdf(s_a - 1) (case 2), same mean" if ok_a else
            "the complement of the `i < stock_a` mask is not 1 - cdf(stock_a - 1; mean_a)", text="complement pair A")
    # pz column: mask `< SA` (case 3) and `>= SA` (case 4) over the same column
    m3 = [t for t in subterms(c3) if t[0] == "app" and t[1] == "cmpLt" and t[2][1] == sa]
    m4 = [t for t in subterms(c4) if t[0] == "app" and t[1] == "cmpLtE" and t[2][0] == sa]
    ok_b = len(m3) == 1 and len(m4) == 1
    if ok_b:
        # case 3 masks arange(len(column)) < s_a; case 4 sums column[i] over i with s_a <= i: same column, same threshold
        left = m3[0][2][0]
        col3 = left[2][0][2][0] if (left[0] == "app" and left[1] == "arange" and left[2][0][0] == "app" and left[2][0][1] == "len") else None
        rhs = m4[0][2][1]
        ok_b = col3 is not None and (rhs[0] == "ix" or rhs == left) and any(t == col3 for t in subterms(c4))
    o2, f2 = ctx.ct.require(cls, "_get_probs_ia_eq_stock_a_ib_eq_stock_b")
    col.add("R13.1", "HendrixTwoProductPerishable[pz column: z<s | z>=s]", o2.module.relpath, f2.lineno, ok_b,
            "cases 3 and 4 split the same pz column at stock_a with `<` and `>=`" if ok_b else
            "cases 3 and 4 do not partition the pz column (masks are not `<` / `>=` of the same threshold)", text="complement pair pz")


def _forest(ctx, col):
    cls = ctx.ct.get("Forest")
    I = problem_interp(ctx, cls)
    t = I.attrs.get(one_data_attr(ctx, cls, "random_event_probability", "subscript", "probability table"))
    o, f = ctx.ct.require(cls, "__init__")
    if t is None or t[0] != "app" or t[1] != "array":
        raise AnalysisError("anchor vanished: Forest._probability_matrix literal")
    rows = t[2][0][1]
    for i, r in enumerate(rows):
        tot = ZERO
        for x in r[1]:
            tot = T_add(tot, x)
        col.add("R13.4", f"Forest._probability_matrix[row {i}]", o.module.relpath, f.lineno, tot == ONE,
                f"row {i} sums to 1 as a polynomial in p" if tot == ONE else f"row {i} sums to {show_norm(tot)}", text=f"row {i} sum")
