"""Intervals with open/closed ends and ±inf, interval evaluation of terms (with common-monomial
factoring to tame the dependency problem), and a small abstract interpreter of scalar Python
functions over intervals that records hazard events (int() of a possibly infinite value,
log of a possibly non-positive value, negative format precision)."""

from __future__ import annotations

import ast
import math
from dataclasses import dataclass
from fractions import Fraction

from .loader import AnalysisError

INF = math.inf


@dataclass(frozen=True)
class Iv:
    lo: float
    hi: float
    lo_open: bool = False
    hi_open: bool = False

    @staticmethod
    def point(x) -> "Iv":
        return Iv(float(x), float(x))

    @staticmethod
    def top() -> "Iv":
        return Iv(-INF, INF)

    def is_empty(self) -> bool:
        return self.lo > self.hi or (self.lo == self.hi and (self.lo_open or self.hi_open))

    def contains(self, x: float) -> bool:
        if x < self.lo or x > self.hi:
            return False
        if x == self.lo and self.lo_open:
            return False
        if x == self.hi and self.hi_open:
            return False
        return True

    def may_be_inf(self) -> bool:
        return (self.hi == INF and not self.hi_open) or (self.lo == -INF and not self.lo_open)

    def __str__(self) -> str:
        l = "(" if self.lo_open else "["
        r = ")" if self.hi_open else "]"
        f = lambda v: "inf" if v == INF else "-inf" if v == -INF else (str(int(v)) if v == int(v) else repr(v))  # noqa: E731
        return f"{l}{f(self.lo)}, {f(self.hi)}{r}"

    # ---- lattice
    def join(self, o: "Iv") -> "Iv":
        if self.is_empty():
            return o
        if o.is_empty():
            return self
        if self.lo < o.lo:
            lo, lo_open = self.lo, self.lo_open
        elif o.lo < self.lo:
            lo, lo_open = o.lo, o.lo_open
        else:
            lo, lo_open = self.lo, self.lo_open and o.lo_open
        if self.hi > o.hi:
            hi, hi_open = self.hi, self.hi_open
        elif o.hi > self.hi:
            hi, hi_open = o.hi, o.hi_open
        else:
            hi, hi_open = self.hi, self.hi_open and o.hi_open
        return Iv(lo, hi, lo_open, hi_open)

    def meet(self, o: "Iv") -> "Iv":
        if self.lo > o.lo:
            lo, lo_open = self.lo, self.lo_open
        elif o.lo > self.lo:
            lo, lo_open = o.lo, o.lo_open
        else:
            lo, lo_open = self.lo, self.lo_open or o.lo_open
        if self.hi < o.hi:
            hi, hi_open = self.hi, self.hi_open
        elif o.hi < self.hi:
            hi, hi_open = o.hi, o.hi_open
        else:
            hi, hi_open = self.hi, self.hi_open or o.hi_open
        return Iv(lo, hi, lo_open, hi_open)

    # ---- arithmetic
    def __neg__(self) -> "Iv":
        return Iv(-self.hi, -self.lo, self.hi_open, self.lo_open)

    def __add__(self, o: "Iv") -> "Iv":
        return Iv(_add(self.lo, o.lo), _add(self.hi, o.hi), self.lo_open or o.lo_open, self.hi_open or o.hi_open)

    def __sub__(self, o: "Iv") -> "Iv":
        return self + (-o)

    def __mul__(self, o: "Iv") -> "Iv":
        cands = []
        for a, ao in ((self.lo, self.lo_open), (self.hi, self.hi_open)):
            for b, bo in ((o.lo, o.lo_open), (o.hi, o.hi_open)):
                cands.append(_mul_end(a, ao, b, bo))
        lo = min(cands, key=lambda c: (c[0], not c[1]))  # closed beats open at equal value
        hi = max(cands, key=lambda c: (c[0], not c[1]))
        # at equal value a closed endpoint makes the bound attained
        lo_open = all(c[1] for c in cands if c[0] == lo[0])
        hi_open = all(c[1] for c in cands if c[0] == hi[0])
        r = Iv(lo[0], hi[0], lo_open, hi_open)
        # an attained infinity times any non-zero value of the other factor is an attained infinity
        for x, y in ((self, o), (o, self)):
            pos = y.hi > 0
            neg = y.lo < 0
            if x.hi == INF and not x.hi_open:
                if pos:
                    r = Iv(r.lo, INF, r.lo_open, False)
                if neg:
                    r = Iv(-INF, r.hi, False, r.hi_open)
            if x.lo == -INF and not x.lo_open:
                if pos:
                    r = Iv(-INF, r.hi, False, r.hi_open)
                if neg:
                    r = Iv(r.lo, INF, r.lo_open, False)
        return r

    def inv(self) -> "Iv":
        """1/x over the interval (floating semantics: 1/0 = inf, attained if 0 is attained)."""
        if self.lo < 0 < self.hi:
            return Iv(-INF, INF)
        if self.lo >= 0:
            hi = INF if self.lo == 0 else 1.0 / self.lo
            lo = 0.0 if self.hi == INF else 1.0 / self.hi
            return Iv(lo, hi, self.hi_open, self.lo_open)
        return -((-self).inv())

    def __truediv__(self, o: "Iv") -> "Iv":
        return self * o.inv()

    def powi(self, k: int) -> "Iv":
        if k == 0:
            return Iv.point(1)
        if k < 0:
            return self.powi(-k).inv()
        r = Iv.point(1)
        for _ in range(k):
            r = r * self
        if k % 2 == 0:
            r = r.meet(Iv(0, INF))
        return r

    def floor(self) -> "Iv":
        lo = self.lo if abs(self.lo) == INF else float(math.floor(self.lo))
        hi = self.hi if abs(self.hi) == INF else float(math.floor(self.hi))
        hi_open = self.hi_open and hi == INF
        if self.hi_open and hi != INF and hi == self.hi:
            hi -= 1  # floor of values strictly below an integer
        return Iv(lo, hi, self.lo_open and abs(lo) == INF, hi_open)

    def log10(self) -> "Iv":
        lo = -INF if self.lo <= 0 else math.log10(self.lo)
        hi = -INF if self.hi <= 0 else (INF if self.hi == INF else math.log10(self.hi))
        lo_open = self.lo_open if self.lo >= 0 else False
        return Iv(lo, hi, lo_open, self.hi_open)

    def vmin(self, o: "Iv") -> "Iv":
        lo = min((self.lo, self.lo_open), (o.lo, o.lo_open), key=lambda c: (c[0], not c[1]))
        hi = min((self.hi, not self.hi_open), (o.hi, not o.hi_open), key=lambda c: (c[0], c[1]))
        return Iv(lo[0], hi[0], lo[1], not hi[1])

    def vmax(self, o: "Iv") -> "Iv":
        return -((-self).vmin(-o))


def _add(a, b):
    if (a == INF and b == -INF) or (a == -INF and b == INF):
        return 0.0  # never produced by the bounds we combine (lo+lo, hi+hi)
    return a + b


def _mul_end(a, ao, b, bo):
    if a == 0 or b == 0:
        # 0 * inf: the limit is 0 when the zero endpoint is attained, otherwise indeterminate -> 0 (open)
        zero_open = (ao if a == 0 else False) or (bo if b == 0 else False)
        if abs(a) == INF or abs(b) == INF:
            return (0.0, True if zero_open else False)
        return (0.0, ao or bo)
    return (a * b, ao or bo)


# ----------------------------------------------------------------- terms -> intervals
def term_interval(t, env: dict, depth=0) -> Iv:
    """Interval of a scalar term; env maps ('sym', name) -> Iv.  `ite` with a comparison of a
    symbol against a constant refines that symbol in each branch."""
    k = t[0]
    if k == "const":
        v = t[1]
        if isinstance(v, Fraction):
            return Iv.point(float(v))
        if isinstance(v, bool):
            return Iv.point(int(v))
        if isinstance(v, float):
            return Iv.point(v)
        raise AnalysisError(f"interval of non-numeric constant {v!r}")
    if k == "sym":
        if t in env:
            return env[t]
        raise AnalysisError(f"interval of unconstrained symbol {t[1]}")
    if k == "poly":
        return _poly_interval(dict(t[1]), env)
    if k == "ite":
        c = t[1]
        e1, e2 = refine(env, c, True), refine(env, c, False)
        out = None
        for e, br in ((e1, t[2]), (e2, t[3])):
            if e is None:
                continue  # branch infeasible
            v = term_interval(br, e, depth + 1)
            out = v if out is None else out.join(v)
        if out is None:
            raise AnalysisError("both branches infeasible")
        return out
    if k == "app":
        name, args = t[1], t[2]
        if name == "inv":
            return term_interval(args[0], env).inv()
        if name in ("pymin", "minimum"):
            r = term_interval(args[0], env)
            for a in args[1:]:
                r = r.vmin(term_interval(a, env))
            return r
        if name in ("pymax", "maximum"):
            r = term_interval(args[0], env)
            for a in args[1:]:
                r = r.vmax(term_interval(a, env))
            return r
    if t in env:
        return env[t]
    raise AnalysisError(f"interval of term kind {k}: {str(t)[:80]}")


def zero_divisors(t, env: dict, depth=0) -> list:
    """atoms (terms) the scalar term t divides by whose interval under env contains 0; `ite` refines like term_interval"""
    out = []
    k = t[0]
    if k == "poly":
        for mono, _c in t[1]:
            for a, pw in mono:
                if pw < 0:
                    try:
                        iv = term_interval(a, env)
                    except AnalysisError:
                        continue
                    if iv.contains(0.0) and a not in out:
                        out.append(a)
                out += [x for x in zero_divisors(a, env, depth + 1) if x not in out]
    elif k == "ite":
        for truth, br in ((True, t[2]), (False, t[3])):
            e = refine(env, t[1], truth)
            if e is not None:
                out += [x for x in zero_divisors(br, e, depth + 1) if x not in out]
    elif k == "app":
        if t[1] == "inv":
            try:
                if term_interval(t[2][0], env).contains(0.0):
                    out.append(t[2][0])
            except AnalysisError:
                pass
        for a in t[2]:
            if isinstance(a, tuple) and a and a[0] in ("poly", "ite", "app"):
                out += [x for x in zero_divisors(a, env, depth + 1) if x not in out]
    return out


def _poly_interval(p: dict, env) -> Iv:
    # factor out the common monomial (minimum power of every atom present in all monomials)
    monos = list(p.items())
    common = None
    for m, _c in monos:
        d = dict(m)
        if common is None:
            common = dict(d)
        else:
            for a in list(common):
                if a in d and (d[a] > 0) == (common[a] > 0):
                    common[a] = min(common[a], d[a]) if common[a] > 0 else max(common[a], d[a])
                else:
                    del common[a]
    common = common or {}
    if len(monos) == 1:
        common = {}
    total = None
    for m, c in monos:
        d = dict(m)
        v = Iv.point(float(c))
        for a, pw in d.items():
            pw2 = pw - common.get(a, 0)
            if pw2:
                v = v * term_interval(a, env).powi(pw2)
        total = v if total is None else total + v
    for a, pw in common.items():
        total = total * term_interval(a, env).powi(pw)
    return total


def refine(env, cond, truth: bool):
    """env restricted by cond being truth; None if infeasible.  Handles (sym ==/!= const)."""
    if cond[0] == "app" and cond[1] in ("cmpEq", "cmpNotEq") and len(cond[2]) == 2:
        a, b = cond[2]
        if a[0] == "const" and b[0] == "sym":
            a, b = b, a
        if a[0] == "sym" and b[0] == "const" and isinstance(b[1], Fraction) and a in env:
            eq = (cond[1] == "cmpEq") == truth
            iv = env[a]
            c = float(b[1])
            e = dict(env)
            if eq:
                if not iv.contains(c):
                    return None
                e[a] = Iv.point(c)
            else:
                if iv.lo == c and not iv.lo_open:
                    e[a] = Iv(iv.lo, iv.hi, True, iv.hi_open)
                elif iv.hi == c and not iv.hi_open:
                    e[a] = Iv(iv.lo, iv.hi, iv.lo_open, True)
                if e[a].is_empty():
                    return None
            return e
    return dict(env)


# ------------------------------------------------- scalar functions over intervals
class Hazard:
    def __init__(self, kind, line, detail):
        self.kind, self.line, self.detail = kind, line, detail

    def __repr__(self):
        return f"{self.kind}@L{self.line}: {self.detail}"


class IntervalFn:
    """Abstractly run a straight-line scalar function (ifs, early returns, raises) over
    intervals.  Records hazards and the set of possible results."""

    FINITE_TESTS = {"np.isfinite", "math.isfinite", "numpy.isfinite", "jnp.isfinite"}
    INF_TESTS = {"np.isinf", "math.isinf", "numpy.isinf", "jnp.isinf"}

    def __init__(self, fn: ast.FunctionDef):
        self.fn = fn
        self.hazards: list[Hazard] = []
        self.results: list[tuple[str, object, int]] = []  # (kind, value, line)
        self.raises: list[tuple[str, int]] = []

    def run(self, args: dict):
        env = dict(args)
        a = self.fn.args
        ps = [x.arg for x in a.args]
        for p, d in zip(ps[len(ps) - len(a.defaults):], a.defaults):
            if p not in env:
                env[p] = self.ev(d, env)
        for x, d in zip(a.kwonlyargs, a.kw_defaults):
            if x.arg not in env and d is not None:
                env[x.arg] = self.ev(d, env)
        self.block(self.fn.body, env)
        return self

    def block(self, stmts, env) -> bool:
        """Returns False when every path through stmts has left the function."""
        for s in stmts:
            if isinstance(s, ast.Expr):
                continue
            if isinstance(s, ast.Assign) and len(s.targets) == 1 and isinstance(s.targets[0], ast.Name):
                env[s.targets[0].id] = self.ev(s.value, env)
                continue
            if isinstance(s, ast.Return):
                self.results.append(self.result(s.value, env, s.lineno))
                return False
            if isinstance(s, ast.Raise):
                self.raises.append((ast.unparse(s.exc)[:60] if s.exc else "", s.lineno))
                return False
            if isinstance(s, ast.If):
                et, ef = self.split(s.test, env)
                live = False
                if et is not None:
                    if self.block(s.body, et):
                        live = True
                    else:
                        et = None
                if ef is not None:
                    if self.block(s.orelse, ef):
                        live = True
                    else:
                        ef = None
                if not live:
                    return False
                merged = {}
                for k in set(et or {}) | set(ef or {}):
                    v1 = (et or {}).get(k)
                    v2 = (ef or {}).get(k)
                    if isinstance(v1, Iv) and isinstance(v2, Iv):
                        merged[k] = v1.join(v2)
                    else:
                        merged[k] = v1 if v2 is None else v2 if v1 is None else v1
                env.clear()
                env.update(merged)
                continue
            raise AnalysisError(f"interval interpreter: statement {type(s).__name__} at line {s.lineno}")
        return True

    def result(self, e, env, line):
        if isinstance(e, ast.Constant) and isinstance(e.value, str):
            return ("str", e.value, line)
        if isinstance(e, ast.JoinedStr):
            parts = []
            for v in e.values:
                if isinstance(v, ast.Constant):
                    parts.append(v.value)
                else:
                    parts.append(self.ev(v.value, env))
            return ("fstr", parts, line)
        return ("val", self.ev(e, env), line)

    def split(self, test, env):
        """(env if test true or None, env if test false or None)."""
        if isinstance(test, ast.UnaryOp) and isinstance(test.op, ast.Not):
            t, f = self.split(test.operand, env)
            return f, t
        if isinstance(test, ast.BoolOp) and isinstance(test.op, ast.Or):
            # true if any disjunct true: approximate by joining; false if all false
            ef = dict(env)
            for v in test.values:
                _t, f = self.split(v, ef)
                if f is None:
                    return dict(env), None
                ef = f
            return dict(env), ef
        if isinstance(test, ast.Call):
            fsrc = ast.unparse(test.func)
            if fsrc == "isinstance":
                # callers pass the documented types: isinstance(x, int / float / str ...) holds; a numeric argument is not a bool
                if len(test.args) == 2 and ast.unparse(test.args[1]) == "bool":
                    return None, dict(env)
                return dict(env), None
            if fsrc in self.FINITE_TESTS | self.INF_TESTS and len(test.args) == 1 and isinstance(test.args[0], ast.Name):
                n = test.args[0].id
                iv = env.get(n)
                if isinstance(iv, Iv):
                    fin = Iv(iv.lo, iv.hi, iv.lo_open or iv.lo == -INF, iv.hi_open or iv.hi == INF)
                    inf_possible = iv.may_be_inf()
                    e_fin = None if fin.is_empty() else dict(env, **{n: fin})
                    e_inf = dict(env, **{n: Iv(INF, INF) if iv.hi == INF else Iv(-INF, -INF)}) if inf_possible else None
                    return (e_fin, e_inf) if fsrc in self.FINITE_TESTS else (e_inf, e_fin)
            return dict(env), dict(env)
        if isinstance(test, ast.BoolOp) and isinstance(test.op, ast.And):
            # true if all conjuncts true (refine in sequence); false if some conjunct false: no refinement
            et = dict(env)
            may_be_false = False
            for v in test.values:
                t, f = self.split(v, et)
                if f is not None:
                    may_be_false = True
                if t is None:
                    return None, dict(env)
                et = t
            return et, (dict(env) if may_be_false else None)
        if isinstance(test, ast.Compare) and len(test.ops) > 1:
            # a <= b <= c  is  (a <= b) and (b <= c)
            parts = []
            left = test.left
            for op, right in zip(test.ops, test.comparators):
                parts.append(ast.copy_location(ast.Compare(left=left, ops=[op], comparators=[right]), test))
                left = right
            return self.split(ast.copy_location(ast.BoolOp(op=ast.And(), values=parts), test), env)
        if isinstance(test, ast.Compare) and len(test.ops) == 1:
            l, r, op = test.left, test.comparators[0], test.ops[0]
            if isinstance(r, ast.Name) and isinstance(env.get(r.id), Iv) and not isinstance(l, ast.Name):
                mirror = {ast.Lt: ast.Gt, ast.LtE: ast.GtE, ast.Gt: ast.Lt, ast.GtE: ast.LtE}.get(type(op))
                l, r, op = r, l, (mirror() if mirror else op)
            if isinstance(l, ast.Name) and isinstance(env.get(l.id), Iv):
                try:
                    rv = self.ev(r, env)
                except AnalysisError:
                    return dict(env), dict(env)
                if isinstance(rv, Iv) and rv.lo == rv.hi:
                    c = rv.lo
                    iv = env[l.id]
                    t_iv, f_iv = _split_cmp(iv, op, c)
                    et = None if t_iv is None or t_iv.is_empty() else dict(env, **{l.id: t_iv})
                    ef = None if f_iv is None or f_iv.is_empty() else dict(env, **{l.id: f_iv})
                    return et, ef
        return dict(env), dict(env)

    def ev(self, e, env):
        if isinstance(e, ast.Constant):
            if isinstance(e.value, bool):
                return Iv.point(int(e.value))
            if isinstance(e.value, (int, float)):
                return Iv.point(e.value)
            return ("const", e.value)
        if isinstance(e, ast.Name):
            if e.id in env:
                return env[e.id]
            raise AnalysisError(f"interval interpreter: unbound {e.id}")
        if isinstance(e, ast.UnaryOp) and isinstance(e.op, ast.USub):
            return -self.num(e.operand, env)
        if isinstance(e, ast.UnaryOp) and isinstance(e.op, ast.UAdd):
            return self.num(e.operand, env)
        if isinstance(e, ast.BinOp):
            a, b = self.num(e.left, env), self.num(e.right, env)
            if isinstance(e.op, ast.Add):
                return a + b
            if isinstance(e.op, ast.Sub):
                return a - b
            if isinstance(e.op, ast.Mult):
                return a * b
            if isinstance(e.op, ast.Div):
                return a / b
            raise AnalysisError(f"interval interpreter: operator {type(e.op).__name__}")
        if isinstance(e, ast.Call):
            f = ast.unparse(e.func)
            args = [self.ev(a, env) for a in e.args]
            if f == "int":
                x = args[0]
                if isinstance(x, Iv) and x.may_be_inf():
                    self.hazards.append(Hazard("int-of-inf", e.lineno, f"int() applied to a value in {x}: OverflowError when it is infinite"))
                    x = Iv(x.lo, x.hi, x.lo_open or x.lo == -INF, x.hi_open or x.hi == INF)
                return x
            if f == "float":
                x = args[0]
                if isinstance(x, tuple) and x[0] == "const" and str(x[1]).lower() in ("inf", "+inf", "infinity"):
                    return Iv(INF, INF)
                return x
            if f in ("np.floor", "math.floor", "numpy.floor", "jnp.floor"):
                return args[0].floor()
            if f in ("np.ceil", "math.ceil"):
                return -((-args[0]).floor())
            if f in ("np.log10", "math.log10", "numpy.log10", "jnp.log10"):
                x = args[0]
                if x.lo < 0 or (x.lo == 0 and not x.lo_open):
                    self.hazards.append(Hazard("log-domain", e.lineno, f"log10 of a value in {x}"))
                return x.log10()
            if f == "min":
                r = args[0]
                for a in args[1:]:
                    r = r.vmin(a)
                return r
            if f == "max":
                r = args[0]
                for a in args[1:]:
                    r = r.vmax(a)
                return r
            if f == "abs":
                x = args[0]
                return x.vmax(-x).meet(Iv(0, INF))
            raise AnalysisError(f"interval interpreter: call {f} at line {e.lineno}")
        raise AnalysisError(f"interval interpreter: expression {ast.unparse(e)[:60]}")

    def num(self, e, env) -> Iv:
        v = self.ev(e, env)
        if not isinstance(v, Iv):
            raise AnalysisError(f"interval interpreter: non-numeric {ast.unparse(e)[:40]}")
        return v


def _split_cmp(iv: Iv, op, c: float):
    """(interval where `x op c` holds, interval where it does not)."""
    if isinstance(op, ast.LtE):
        return iv.meet(Iv(-INF, c)), iv.meet(Iv(c, INF, True, False))
    if isinstance(op, ast.Lt):
        return iv.meet(Iv(-INF, c, False, True)), iv.meet(Iv(c, INF))
    if isinstance(op, ast.GtE):
        return iv.meet(Iv(c, INF)), iv.meet(Iv(-INF, c, False, True))
    if isinstance(op, ast.Gt):
        return iv.meet(Iv(c, INF, True, False)), iv.meet(Iv(-INF, c))
    if isinstance(op, ast.Eq):
        return (Iv.point(c) if iv.contains(c) else None), iv
    if isinstance(op, ast.NotEq):
        return iv, (Iv.point(c) if iv.contains(c) else None)
    return iv, iv
