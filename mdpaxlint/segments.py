"""Segmented vectors with symbolic-bound intervals: the abstract domain for closure (C14).

A vector value is a list of segments (length term, [lo term, hi term]); lengths and bounds are
polynomials in the configuration symbols.  `a <= b` is decided over the validated domain (every
size/limit symbol is an integer >= 1) by shifting each symbol x = 1 + x' and requiring every
coefficient of b - a to be non-negative - sound, incomplete; an undecided comparison is kept as
a symbolic min/max."""

from __future__ import annotations

from fractions import Fraction

from .loader import AnalysisError
from .terms import K, NONE, ONE, S, T_add, T_mul, T_neg, T_sub, ZERO, is_num, show, subst, subterms, to_poly

PINF = ("const", float("inf"))
NINF = ("const", float("-inf"))



class NarrowGrid(AnalysisError):
    """a space whose listed vectors are wrong for wide dimensions: decided, not an analysis failure"""


class Domain:
    """Lower bounds of symbols (from the validators)."""

    def __init__(self, lower: dict):
        self.lower = dict(lower)  # ('sym', name) -> int lower bound

    def nonneg(self, t) -> bool:
        """t >= 0 for all symbol values in the domain (sound, incomplete)."""
        if t == PINF:
            return True
        if t == NINF:
            return False
        if t[0] == "const" and isinstance(t[1], float):
            return t[1] >= 0
        p = to_poly(t)
        m = {}
        for mono, _c in p.items():
            for a, pw in mono:
                if pw < 0:
                    return False
                if a[0] == "sym" and a in self.lower:
                    m[a] = T_add(K(self.lower[a]), ("sym", a[1] + "'"))
                elif a[0] == "sym" and a[1].endswith("'"):
                    pass
                else:
                    return False  # unknown atom: undecided
        q = to_poly(subst(t, m))
        return all(c >= 0 for c in q.values())

    def leq(self, a, b) -> bool:
        if a == NINF or b == PINF:
            return True
        if a == PINF or b == NINF:
            return a == b
        if a == b:
            return True
        # symbolic min / max bounds
        if b[0] == "app" and b[1] == "min":
            return all(self.leq(a, x) for x in b[2])
        if a[0] == "app" and a[1] == "max":
            return all(self.leq(x, b) for x in a[2])
        if a[0] == "app" and a[1] == "min":
            return any(self.leq(x, b) for x in a[2])
        if b[0] == "app" and b[1] == "max":
            return any(self.leq(a, x) for x in b[2])
        return self.nonneg(T_sub(b, a))

    def tmin(self, a, b):
        if self.leq(a, b):
            return a
        if self.leq(b, a):
            return b
        return ("app", "min", tuple(sorted((a, b), key=repr)))

    def tmax(self, a, b):
        if self.leq(a, b):
            return b
        if self.leq(b, a):
            return a
        return ("app", "max", tuple(sorted((a, b), key=repr)))


class Iv:
    __slots__ = ("lo", "hi")

    def __init__(self, lo, hi):
        self.lo, self.hi = lo, hi

    def __repr__(self):
        return f"[{show(self.lo)}, {show(self.hi)}]"

    def key(self):
        return (self.lo, self.hi)


TOP = Iv(NINF, PINF)


def _add(a, b):
    if a in (PINF, NINF):
        return a
    if b in (PINF, NINF):
        return b
    return T_add(a, b)


def _neg(a):
    if a == PINF:
        return NINF
    if a == NINF:
        return PINF
    return T_neg(a)


class Vec:
    def __init__(self, segs):
        out = []
        for n, iv in segs:
            if n == ZERO:
                continue
            if out and out[-1][1].key() == iv.key():
                out[-1] = (T_add(out[-1][0], n), iv)
            else:
                out.append((n, iv))
        self.segs = out

    def __repr__(self):
        return "<" + " ".join(f"{show(n)}x{iv}" for n, iv in self.segs) + ">"

    def length(self):
        t = ZERO
        for n, _ in self.segs:
            t = T_add(t, n)
        return t


class SegEval:
    def __init__(self, I, dom: Domain, spaces: dict, carries: dict | None = None):
        self.I = I
        self.dom = dom
        self.spaces = spaces  # ('sym','STATE') -> Vec
        self.carries = carries or {}  # carry symbol -> Iv
        self.bound: dict = {}  # temporary bindings of terms to scalar intervals
        self.notes: list[str] = []

    # ------------------------------------------------------------ intervals
    def join(self, a: Iv, b: Iv) -> Iv:
        return Iv(self.dom.tmin(a.lo, b.lo), self.dom.tmax(a.hi, b.hi))

    def all_of(self, v) -> Iv:
        if isinstance(v, Iv):
            return v
        iv = None
        for _, i in v.segs:
            iv = i if iv is None else self.join(iv, i)
        return iv if iv is not None else TOP

    def add(self, a: Iv, b: Iv) -> Iv:
        return Iv(_add(a.lo, b.lo), _add(a.hi, b.hi))

    def neg(self, a: Iv) -> Iv:
        return Iv(_neg(a.hi), _neg(a.lo))

    def scale(self, a: Iv, c: Fraction) -> Iv:
        if c >= 0:
            f = lambda x: x if x in (PINF, NINF) else T_mul(K(c), x)  # noqa: E731
            return Iv(f(a.lo), f(a.hi))
        return self.scale(self.neg(a), -c)

    def clip(self, a: Iv, lo, hi) -> Iv:
        l, h = a.lo, a.hi
        if lo is not None:
            l, h = self.dom.tmax(l, lo), self.dom.tmax(h, lo)
        if hi is not None:
            l, h = self.dom.tmin(l, hi), self.dom.tmin(h, hi)
        return Iv(l, h)

    # --------------------------------------------------------------- vectors
    def cat(self, parts) -> Vec:
        segs = []
        for p in parts:
            if isinstance(p, Vec):
                segs += p.segs
            else:
                segs.append((ONE, p))
        return Vec(segs)

    def vmap(self, v, f):
        if isinstance(v, Iv):
            return f(v)
        return Vec([(n, f(iv)) for n, iv in v.segs])

    def vzip(self, a, b, f):
        if isinstance(a, Iv) and isinstance(b, Iv):
            return f(a, b)
        if isinstance(a, Iv):
            return Vec([(n, f(a, iv)) for n, iv in b.segs])
        if isinstance(b, Iv):
            return Vec([(n, f(iv, b)) for n, iv in a.segs])
        x, y, out = list(a.segs), list(b.segs), []
        while x and y:
            (n1, i1), (n2, i2) = x[0], y[0]
            if n1 == n2:
                out.append((n1, f(i1, i2)))
                x.pop(0)
                y.pop(0)
            elif self.dom.leq(n1, n2):
                out.append((n1, f(i1, i2)))
                x.pop(0)
                y[0] = (T_sub(n2, n1), i2)
            elif self.dom.leq(n2, n1):
                out.append((n2, f(i1, i2)))
                y.pop(0)
                x[0] = (T_sub(n1, n2), i1)
            else:
                raise AnalysisError(f"segments cannot be aligned: {a} vs {b}")
        if x or y:
            rest = [s for s in (x or y) if s[0] != ZERO]
            if rest:
                raise AnalysisError(f"vectors of different length: {a} vs {b}")
        return Vec(out)

    def slice(self, v: Vec, a, b) -> Vec:
        off = ZERO
        bounds = [off]
        for n, _ in v.segs:
            off = T_add(off, n)
            bounds.append(off)
        if a is None:
            a = ZERO
        if b is None:
            b = bounds[-1]
        ia = [i for i, x in enumerate(bounds) if x == a]
        ib = [i for i, x in enumerate(bounds) if x == b]
        if ia and ib and ia[0] <= ib[0]:
            return Vec(v.segs[ia[0]:ib[0]])
        for i, (n, iv) in enumerate(v.segs):
            if self.dom.leq(bounds[i], a) and self.dom.leq(b, bounds[i + 1]):
                return Vec([(T_sub(b, a), iv)])
        # boundary at a known position on one side
        if ia:
            k = ia[0]
            segs = []
            for i in range(k, len(v.segs)):
                if self.dom.leq(b, bounds[i + 1]):
                    segs.append((T_sub(b, bounds[i]), v.segs[i][1]))
                    return Vec(segs)
                segs.append(v.segs[i])
        self.notes.append(f"slice [{show(a)}:{show(b)}] of {v} not aligned: joined")
        return Vec([(T_sub(b, a), self.all_of(v))])

    def last(self, v) -> Iv:
        if isinstance(v, Iv):
            return v
        if v.segs and self.dom.leq(ONE, v.segs[-1][0]):
            return v.segs[-1][1]
        return self.all_of(v)

    def first(self, v) -> Iv:
        if isinstance(v, Iv):
            return v
        if v.segs and self.dom.leq(ONE, v.segs[0][0]):
            return v.segs[0][1]
        return self.all_of(v)

    # ------------------------------------------------------------ evaluation
    def ev(self, t):
        """Term -> Iv (scalar) or Vec."""
        if t in self.bound:
            return self.bound[t]
        k = t[0]
        if k == "const":
            if is_num(t):
                return Iv(t, t)
            if isinstance(t[1], bool):
                v = K(int(t[1]))
                return Iv(v, v)
            raise AnalysisError(f"segment domain: constant {t[1]!r}")
        if k == "sym":
            if t in self.spaces:
                return self.spaces[t]
            if t in self.carries:
                return self.carries[t]
            return Iv(t, t)  # a configuration symbol stands for itself
        if k == "poly":
            total = None
            for mono, c in t[1]:
                vals = []
                for a, pw in mono:
                    if pw != 1:
                        v = self.ev(a)
                        if isinstance(v, Iv) and v.lo == v.hi and pw > 0:
                            x = v.lo
                            r = ONE
                            for _ in range(pw):
                                r = T_mul(r, x)
                            vals.append(Iv(r, r))
                            continue
                        raise AnalysisError(f"segment domain: power {pw} of {show(a)}")
                    vals.append(self.ev(a))
                term = Iv(K(c), K(c)) if not vals else None
                if vals:
                    # product: at most one non-point factor
                    pts = [v for v in vals if isinstance(v, Iv) and v.lo == v.hi and v.lo not in (PINF, NINF)]
                    others = [v for v in vals if v not in pts]
                    coef = K(c)
                    for p in pts:
                        coef = T_mul(coef, p.lo)
                    if not others:
                        term = Iv(coef, coef)
                    elif len(others) == 1 and is_num(coef):
                        term = self.vmap(others[0], lambda iv, cc=coef[1]: self.scale(iv, cc))
                    elif len(others) == 1 and self.dom.nonneg(coef):
                        def mul(iv, cc=coef):
                            f = lambda x: x if x in (PINF, NINF) else T_mul(cc, x)  # noqa: E731
                            if self.dom.nonneg(iv.lo) or iv.lo == NINF:
                                return Iv(f(iv.lo), f(iv.hi))
                            return TOP
                        term = self.vmap(others[0], mul)
                    else:
                        return TOP
                total = term if total is None else self.vzip(total, term, self.add)
            return total if total is not None else Iv(ZERO, ZERO)
        if k == "elem":
            base, idx = t[1], t[2]
            if len(idx) == 1:
                v = self.ev(base)
                i = idx[0]
                if isinstance(v, Iv):
                    return v
                if i == K(-1):
                    return self.last(v)
                if i == ZERO:
                    return self.first(v)
                if is_num(i) and i[1] >= 0:
                    # constant position: find its segment if boundaries are numeric
                    off = ZERO
                    for n, iv in v.segs:
                        nxt = T_add(off, n)
                        if self.dom.leq(off, i) and self.dom.leq(T_add(i, ONE), nxt):
                            return iv
                        off = nxt
                return self.all_of(v)
            return TOP
        if k == "lam":
            ix, body = t[1], t[3]
            elems = [x for x in subterms(body) if x[0] == "elem" and len(x[2]) == 1 and x[2][0] == ix]
            srcs = []
            for x in elems:
                if x[1] not in [s for s, _ in srcs]:
                    v = self.ev(x[1])
                    if isinstance(v, Vec):
                        srcs.append((x[1], v))
            if not srcs:
                raise AnalysisError(f"segment domain: comprehension without a vector source: {show(t)[:100]}")
            # align all sources segment by segment
            ref = srcs[0][1]
            for _s, v in srcs[1:]:
                ref = self.vzip(ref, v, lambda a, b: a)
            out = []
            pos = {id(v): list(v.segs) for _s, v in srcs}
            for n, _iv in ref.segs:
                saved = dict(self.bound)
                for s_, v in srcs:
                    cur = pos[id(v)]
                    n0, iv0 = cur[0]
                    self.bound[("elem", s_, (ix,))] = iv0
                    if n0 == n:
                        cur.pop(0)
                    else:
                        cur[0] = (T_sub(n0, n), iv0)
                val = self.ev(body)
                self.bound = saved
                out.append((n, self.all_of(val)))
            return Vec(out)
        if k == "ite":
            a, b = self.ev(t[2]), self.ev(t[3])
            return self.vzip(a, b, self.join)
        if k == "app":
            return self.ev_app(t)
        if k == "red":
            return TOP
        if k == "tuple":
            return self.cat([self.ev(x) for x in t[1]])
        raise AnalysisError(f"segment domain: term kind {k}: {show(t)[:100]}")

    def ev_app(self, t):
        name, args = t[1], t[2]
        if name == "slice":
            v = self.ev(args[0])
            a, b, st = args[1], args[2], args[3]
            if not isinstance(v, Vec):
                raise AnalysisError("slice of a scalar")
            if st == K(-1) and a == NONE and b == NONE:
                return Vec(list(reversed(v.segs)))
            if st != NONE:
                raise AnalysisError("slice with a step")
            lo = None if a == NONE else a
            hi = None if b == NONE else b
            if hi is not None and is_num(hi) and hi[1] < 0:
                hi = T_add(v.length(), hi)
            if lo is not None and is_num(lo) and lo[1] < 0:
                lo = T_add(v.length(), lo)
            return self.slice(v, lo, hi)
        if name == "flip1":
            v = self.ev(args[0])
            return Vec(list(reversed(v.segs))) if isinstance(v, Vec) else v
        if name in ("hstack", "array"):
            items = args[0][1] if (name == "array" and args and args[0][0] == "tuple") else args
            return self.cat([self.ev(x) for x in items])
        if name == "clip":
            v = self.ev(args[0])
            lo = None if args[1] == NONE else self.scalar_point(args[1])
            hi = None if args[2] == NONE else self.scalar_point(args[2])
            return self.vmap(v, lambda iv: self.clip(iv, lo, hi))
        if name == "where":
            a, b = self.ev(args[1]), self.ev(args[2])
            return self.vzip(a, b, self.join)
        if name == "minimum":
            a, b = self.ev(args[0]), self.ev(args[1])
            return self.vzip(a, b, lambda x, y: Iv(self.dom.tmin(x.lo, y.lo), self.dom.tmin(x.hi, y.hi)))
        if name == "maximum":
            a, b = self.ev(args[0]), self.ev(args[1])
            return self.vzip(a, b, lambda x, y: Iv(self.dom.tmax(x.lo, y.lo), self.dom.tmax(x.hi, y.hi)))
        if name == "mod":
            m = args[1]
            return Iv(ZERO, T_sub(m, ONE))
        if name.startswith("cmp") or name in ("or", "and", "not"):
            return Iv(ZERO, ONE)
        if name == "zeros":
            n = args[0]
            return Vec([(n, Iv(ZERO, ZERO))]) if n[0] != "tuple" else TOP
        if name == "np.full":
            v = self.scalar_point(args[1])
            return Vec([(args[0], Iv(v, v))])
        if name in ("max_of", "min_of"):
            vals = [self.all_of(self.ev(a)) for a in args]
            r = vals[0]
            for v in vals[1:]:
                if name == "max_of":
                    r = Iv(self.dom.tmax(r.lo, v.lo), self.dom.tmax(r.hi, v.hi))
                else:
                    r = Iv(self.dom.tmin(r.lo, v.lo), self.dom.tmin(r.hi, v.hi))
            return r
        if name in ("sum", "max", "min", "dot"):
            return TOP
        raise AnalysisError(f"segment domain: unsupported operation {name} in {show(t)[:100]}")

    def scalar_point(self, t):
        v = self.ev(t)
        if isinstance(v, Iv) and v.lo == v.hi:
            return v.lo
        raise AnalysisError(f"segment domain: bound {show(t)} is not a point")

    # ----------------------------------------------------------------- spaces
    def columns(self, sp) -> Vec:
        """Column ranges of a space term ([n, dim] array of all listed vectors)."""
        from .terms import NARROW_INT_DTYPES, indices_space, meshgrid_space
        if sp and sp[0] == "ite":
            # a space chosen between alternative constructions: the column ranges must agree
            a_, b_ = self.columns(sp[2]), self.columns(sp[3])
            if repr(a_) != repr(b_):
                raise AnalysisError(f"space chosen between constructions with different column ranges: {show(sp)[:120]}")
            return a_
        mg_ = meshgrid_space(sp)
        if mg_ is not None:
            # one row per grid point: column i takes the values of range i (whatever the row order, which is C19 R19.3's business)
            sp = ("app", "itertools.product", (("star", mg_[0]),))
        grid = indices_space(sp)
        if grid is not None and grid[2] in NARROW_INT_DTYPES:
            raise NarrowGrid(f"the grid offsets of the space are enumerated in {grid[2]} (np.indices(.., dtype={grid[2]})): they run up to the width of each "
                             f"dimension, which nothing bounds by the range of {grid[2]}; a wider dimension wraps around and the space lists repeated vectors, "
                             "so most successors are not in it")
        if grid is not None and grid[2] not in NARROW_INT_DTYPES:
            # np.indices(D).reshape(len(D), -1).T + M: column i takes M[i] .. M[i] + D[i] - 1
            d_, m_, _dt = grid
            ix = ("sym", "dim#grid")
            lo_v = self._per_dim(("elem", m_, (ix,)) if not is_num(m_) else m_, ix, None)
            hi_v = self._per_dim(T_sub(T_add(("elem", m_, (ix,)) if not is_num(m_) else m_, ("elem", d_, (ix,))), ONE), ix, None)
            return self.vzip(lo_v, hi_v, lambda x, y: Iv(x.lo, y.hi))
        k = sp[0]
        if k == "app":
            name, args = sp[1], sp[2]
            if name == "itertools.product" and len(args) == 1 and args[0][0] == "star":
                r = args[0][1]
                count = None
                if r[0] == "app" and r[1] == "listcomp":
                    count, r = r[2]
                if r[0] != "lam":
                    raise AnalysisError(f"space: product over {show(r)[:80]}")
                ix, body = r[1], r[3]
                if body[0] == "app" and body[1] in ("arange", "range"):
                    a = body[2]
                    lo_t, hi_t = (ZERO, a[0]) if len(a) == 1 else (a[0], a[1])
                    lo_v = self._per_dim(lo_t, ix, count)
                    hi_v = self._per_dim(T_sub(hi_t, ONE), ix, count)
                    return self.vzip(lo_v, hi_v, lambda x, y: Iv(x.lo, y.hi))
                raise AnalysisError(f"space: product of {show(body)[:80]}")
            if name == "arange":
                lo_t, hi_t = (ZERO, args[0]) if len(args) == 1 else (args[0], args[1])
                return Vec([(ONE, Iv(lo_t, T_sub(hi_t, ONE)))])
            if name == "array" and args and args[0][0] == "tuple":
                rows = args[0][1]
                if all(r[0] == "tuple" for r in rows):
                    ncol = len(rows[0][1])
                    cols = []
                    for j in range(ncol):
                        vals = [r[1][j] for r in rows]
                        if not all(is_num(v) for v in vals):
                            raise AnalysisError("space literal with non-numeric entries")
                        cols.append((ONE, Iv(K(min(v[1] for v in vals)), K(max(v[1] for v in vals)))))
                    return Vec(cols)
            if name == "hstack":
                return self.cat([self.columns(x) for x in args])
            if name == "np.repeat":
                inner = args[0]
                if inner[0] == "app" and inner[1] == "reshape" and len(inner[2]) == 3 and inner[2][1] == ONE and inner[2][2] == K(-1):
                    # (1, n) row of values repeated along axis 0 and flattened to one column (reshape(-1, 1))
                    c = self.columns(inner[2][0])
                    return Vec([(ONE, self.all_of(c))])
                return self.columns(inner)
            if name == "np.tile" and len(args) == 2:
                # a vector of values cycled and flattened to one column (reshape(-1, 1)): the column takes every value
                c = self.columns(args[0])
                return Vec([(ONE, self.all_of(c))])
        if k == "elem" and len(sp[2]) == 1 and sp[2][0][0] == "app" and sp[2][0][1].startswith("cmp"):
            return self.columns(sp[1])  # boolean row filter keeps the column ranges
        raise AnalysisError(f"space term outside the vocabulary: {show(sp)[:120]}")

    def _per_dim(self, t, ix, count) -> Vec:
        """Vector over dimensions of a per-dimension expression t(ix)."""
        # an element of a pointwise ring expression over bound vectors is that expression of their elements:
        # (maxs - mins + 1)[i] == maxs[i] - mins[i] + 1, so `mins[i] + widths[i]` cancels to `maxs[i] + 1`
        for _round in range(4):
            m = {}
            for x in subterms(t):
                if x[0] == "elem" and len(x[2]) == 1 and x[2][0] == ix and x[1][0] == "poly":
                    atoms = {a for mono, _c in x[1][1] for a, _p in mono}
                    vec_atoms = {}
                    for a in atoms:
                        try:
                            if isinstance(self.ev(a), Vec):
                                vec_atoms[a] = ("elem", a, (ix,))
                        except AnalysisError:
                            pass
                    if vec_atoms:
                        m[x] = subst(x[1], vec_atoms)
            if not m:
                break
            t = subst(t, m)
        elems = [x for x in subterms(t) if x[0] == "elem" and len(x[2]) == 1 and x[2][0] == ix]
        if not elems:
            if count is None:
                raise AnalysisError("space: dimension count unknown")
            v = self.ev(t)
            return Vec([(count, self.all_of(v))])
        src = elems[0][1]
        v = self.ev(src)
        if not isinstance(v, Vec):
            raise AnalysisError(f"space: bound vector {show(src)[:60]} is scalar")
        out = []
        for n, iv in v.segs:
            saved = dict(self.bound)
            for e in elems:
                if e[1] != src:
                    raise AnalysisError("space: bounds from several vectors in one expression")
                self.bound[e] = iv
            val = self.all_of(self.ev(t))
            self.bound = saved
            out.append((n, val))
        return Vec(out)


def contains(dom: Domain, outer: Vec, inner: Vec):
    """inner segment-wise within outer; returns (ok, message)."""
    x, y = list(outer.segs), list(inner.segs)
    if outer.length() != inner.length():
        return False, f"successor has length {show(inner.length())}, states have {show(outer.length())}"
    pos = ZERO
    while x and y:
        (n1, c), (n2, s) = x[0], y[0]
        if not (dom.leq(c.lo, s.lo) and dom.leq(s.hi, c.hi)):
            return False, f"component(s) at offset {show(pos)}: successor range {s} is not within the state-space range {c}"
        if n1 == n2:
            x.pop(0)
            y.pop(0)
            pos = T_add(pos, n1)
        elif dom.leq(n1, n2):
            x.pop(0)
            y[0] = (T_sub(n2, n1), s)
            pos = T_add(pos, n1)
        elif dom.leq(n2, n1):
            y.pop(0)
            x[0] = (T_sub(n1, n2), c)
            pos = T_add(pos, n2)
        else:
            return False, f"segments cannot be aligned at offset {show(pos)}"
    return True, ""
