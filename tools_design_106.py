import subprocess, re
p='/verif/DESIGN.md'
s=open(p).read()
table=subprocess.run(['python3','/verif/tools_seed_table.py'],capture_output=True,text=True).stdout
sec='''### 10.6 Independently seeded changes (`/verif/seeded/`) and which checks catch them

Fresh sub-agents were given only the text of one property and a scratch worktree of `/repo`
(nothing from `/verif`) and asked for a change that breaks the property, still passes the test
suite and needs something specific to manifest, with a demonstration.  Second-round agents were
additionally told which mechanism was already taken.  Every change kept here was confirmed by me
in a scratch worktree (`tools_seed_verify.py`: demo exit 0 without / non-zero with the patch,
package imports, all 102 stable tests of BASELINE.json pass with the patch, full pytest run),
then evaluated with `tools_seed_eval.py` (`git -C /repo apply`, every MANIFEST quick command,
`git -C /repo checkout -- .`).  `meta.json` of each seed records what it needs, what was run and
which checks report it.

{table}
**Misses and what was done about them** (the history column has the detail):

* S01 (result cast to the dtype of the incoming estimates) was *missed*: `.astype` was
  value-transparent in the kernel IR.  Now only a cast to a statically named integer dtype inside a
  `Problem` is transparent; any other cast stays in the term, so the sweep no longer equals the
  oracle.  The same refinement caught S28 (successor cast to int32 before the index lookup) at once.
* S22 (`restore()` reading through the solver's own manager, i.e. the directory recorded in
  config.yaml) was *missed*: no rule tied the restoring manager to the directory argument.  R10.3
  gained that clause.
* S35 (Hendrix `pu[0, y]` computed as `p**x`-style shortcut that is only right for y = 0) was *missed*
  by the structural R16.6; the `pu` / `pz` table builders are now compared as exact terms.
* S41 (history buffer `np.zeros(..., dtype=self.values.dtype)`) was *missed*: buffer constructors
  dropped their dtype.  A dtype that is not a statically named one now stays in the term of
  `zeros` / `zeros_like` (reported by C07 R7.8, and S39 - the same idea through `zeros_like(initial_values)` -
  at once); in addition R20.11 forbids runtime-derived or narrow dtypes anywhere in solver modules.
* The third seed for C09 (`self.gain = 0` instead of `0.0`: the fresh solver's state is the Orbax
  restore *template*, an int leaf makes the saved float gain come back truncated) was *missed*: nothing
  related the template to the declared state types.  R9.6 / R10.7 now require every write of a
  checkpointed scalar (outside the restore method) to have the kind its State/Info dataclass declares,
  and array leaves not to be built with a narrow dtype.
* S53 (`jnp.array(getattr(self.config, "gamma", None) or 1.0)`: a requested gamma of 0 silently becomes 1) was *missed*: the
  solver terms took `self.gamma` as a given.  R2.7 now requires the constructor to assign `self.gamma` from `config.gamma`
  itself, and R20.12 forbids truthiness tests (`x or d`, `if x:`) of any configuration value for which 0 is a valid setting
  (gamma, checkpoint_frequency, max_checkpoints, probabilities, random_seed); the earlier seeds S40 and S44 are instances of
  the same class and are now reported by R20.12 as well.
* S54 (`_clear_value_history()` moved in front of the final save: the checkpoint of the last iteration holds no history)
  was *missed*: R9.3 only ordered saves after the writes of an iteration.  R9.7 / R12.8 now require that between a step and
  the save that records it saved state is written only by storing the step's results.
* S57 (`jnp.isclose(gamma, 1.0)` for the `gamma != 1` test) was reported by C20 R20.5 only; C01 and C08 ended in
  ANALYSIS-ERROR on the unmodelled call.  Approximate comparisons are now known, visible functions: C08 R8.3 reports the
  threshold term, C01 R1.1 says that the bound is void for gamma within the tolerance of 1.
* Fifth wave, four first-evaluation misses.  (i) PVI's `value_history = None` until the first step (allocated lazily): a fresh
  solver is the Orbax restore *template*, and Orbax skips `None` leaves, so a resumed run lost its history - *missed*, R9.6 / R10.7
  looked at the kind of what is written, not at `None`.  They now require a declared array leaf not to be `None` in the fresh
  solver; generalising that clause to "the template has a leaf for everything a checkpoint may hold" (R10.8) is what exposed the
  genuine defect D7.  (ii) the expected-reward reduction given `dtype=rewards.dtype` in `core.problem` (`jnp.sum(probs * rewards,
  axis=-1, dtype=...)`: integer rewards truncate the expectation) - *missed*: reducers dropped their `dtype` keyword and R20.11 did
  not cover `core.problem`.  A reducer's accumulate dtype now stays in the term unless it is a statically named float, and
  R20.11 covers `core.problem`.  (iii) a module-level dict caching `index_fn` by `tuple(mins + maxs)` (two spaces with equal sums
  of bounds share one index function) - *missed*: C19 compared the index term of one call.  R19.5 forbids module-level mutable
  state reachable from the space constructors; module-constant substitution no longer treats a mutated display as a constant.
  (iv) `get_convergence_format(self.conv_threshold)` without `float(...)` in RVI / PVI (a JAX scalar threshold reaches
  `math.log10`-style code and the format spec; an `epsilon` given as an array breaks the first log line) - *missed*: R20.5 bounded
  the precision but did not look at the argument's kind.  R20.5 now requires every call site to pass a Python float (also through
  a temporary).
* S64 (fifth wave, C14: the space enumerated by `np.indices(dimensions, dtype=np.uint8)`, which wraps for a dimension wider than 256) was
  reported by C19 R19.3 - but only because R19.3 reported *every* space not built by `itertools.product`; the correct `np.indices`
  grid was a false alarm in waiting.  The dense-grid idiom `np.indices(D).reshape(len(D), -1).T + M` now has a normal form (the product of
  `arange(M[i], M[i] + D[i])`) shared by C19 R19.2 / R19.3 and C14 R14.2 / the column-range domain: the correct grid is silent everywhere
  (benign variant b52), a narrow explicit offset dtype is reported specifically by C19 R19.3 and C14 R14.3, a grid one short by R19.2 /
  R19.3 (m149), and any other way of listing the vectors ends in ANALYSIS-ERROR instead of a VIOLATION.
* Sixth wave: the seed for C20 (`self.gamma = self.config.gamma`, a Python float instead of `jnp.array(..)`: the max-diff threshold
  `eps * (1 - gamma) / gamma` then raises ZeroDivisionError for the accepted gamma = 0, where the array version yields inf) first ended in
  ANALYSIS-ERROR only (R20.6 lost one of its array-creation anchors).  R20.14 now asks, for every divisor of the threshold term whose interval
  under the validator's constraints contains 0, that the attribute holding it is assigned from an array constructor (Python number:
  VIOLATION; unrecognised: undecided).
* Seventh wave (ten seeds, all asked to look like performance work, modernisation, hardening or re-organisation), three first-evaluation
  misses.  (i) `max_demand = m * max(Qa, Qb + 2)` for `m * (max(Qa, Qb) + 2)` in Hendrix - **silent**: the only rule that looks at the truncation
  is R13.1, whose two open sites are the recorded finding D5, and the finding was keyed by call site only, so a *worse* truncation hid behind it.
  The truncation point (as a normalised term) is now part of the finding's identity: the recorded entries name today's point, a moved point is a
  new, unlisted violation.  (ii) the matrix builder memoised on the problem instance (`if self._matrices is not None: return self._matrices`),
  ignoring the tolerance, so a second call with a stricter tolerance no longer raises - ANALYSIS-ERROR only (the interpreter took the early
  return): C17 now decides the term rules for a first call and R17.3 reports the return that bypasses this call's row-sum check.  (iii) the choice
  of the initial policy by `"initial_policy" in vars(type(self.problem))` instead of try / except NotImplementedError (misses inherited and
  instance-level policies) - ANALYSIS-ERROR only (a count floor raised after the failing instance had been filed): count floors no longer hide
  failures already decided, and R5.5 reports one-namespace tests (`vars(..)`, `__dict__`) and always-true tests (`hasattr`) specifically, any
  other protocol being undecided.
* Two **genuine defects** surfaced while generalising rules for this wave, both on the unchanged tree: D7 (stored policy of the
  value-iteration family is not restored; known finding, section 10.4) and D8 (RVI's gain starts at 0 instead of the reference
  state's initial value; my own R4.2 had encoded the defect as the expected shape - it was reworded, R4.5 added, and the defect
  repaired in `/repo` `fc72cb4`, section 10.3).
* S02, S04, S12 first ended in ANALYSIS-ERROR (exit 2: neither a verdict nor a false alarm): the
  solve-loop anchor was keyed on the literal `range(max_iterations)`, the builtin `bool` was unknown
  to the interpreter, and `np.tile` is outside the symbolic space vocabulary.  The sweep loop is now
  located by the step it runs and its trip count is rule R8.1; the interpreter knows the common
  builtins; C14 falls back to deciding the instances with the vector-length fields fixed to 1..3
  exactly when the symbolic analysis does not apply, and a failing instance is reported with its
  parameters.  In addition a violation decided *before* an analysis error is now still reported.
* Two partial false alarms surfaced on the *benign parts* of seeded patches (S05: a local bound to
  `latest_step()`; S24: restore delegating to `super()`); both rules were made tolerant and the
  benign variants b39 / b40 keep them so.
* S09, S10 are reported by the checks of neighbouring properties (C18 / C09 / C10) because the broken
  mechanism lives there; C03 now also files the pad/strip instances itself (R3.3).
* A later rewrite of R10.3 (name-independent step protocol, section 10.9) silently stopped reporting S05;
  `tools_seed_regress.py` caught it the same hour.  Since then **every stored seed is a standing variant
  of the thorough tier**: `selftest/seeds.py` applies each `seeded/*/patch.diff` in memory and the checks
  named in its `meta.json` must still report it.

### 10.7 Metamorphic robustness (no alarm on code where the property holds)

`mdpaxlint/selftest/metamorphic.py` applies thirteen behaviour-preserving **whole-tree** transformations
to today's source in memory and every check must stay silent on each ({npairs} transformation x
property pairs; part of every thorough run; `tools_metamorphic.py` runs them all):
T1 rename every local variable, T2 swap the operands of every arithmetic `+` / `*`, T3 flip every
`<` / `<=` / `>` / `>=`, T4 `ast.unparse` every module, T5 a log line after every simple statement of
non-kernel functions, T6 `return <expr>` through a local, T7 alias read-only `self` attributes into
locals, T8 flip every `if` (`if c: A else: B` -> `if not c: B else: A`, an else-less `if` gets a `pass`
branch), T9 call every `self` method with keyword arguments, T10 hoist the first call-valued argument of a
call into a temporary, T11 inline single-use temporaries, T12 the extract-method refactoring applied mechanically to every
method (a run of simple statements moves into a new private method that takes the locals it reads and returns the ones it
binds), T13 rename every private data attribute of the package.  The first runs produced about thirty alarms
(rules keyed on local names, operand order, comparison orientation, `return <call>` shapes, `if`
polarity, positional call arguments); all were removed at the root: `returned_expr`,
`_var_assigned_from`, `deref`, `guard_conditions`, term-based instead of text-based matches, mirrored
comparisons in the interval interpreter, canonical `ite` polarity in the term language, and the canonical
program form of section 10.8.  `ruff format --line-length 140` over the whole tree is silent as well.

### 10.8 Canonical program form (`mdpaxlint/canon.py`, `loader._Canon`) - new since section 3

Rules are written against the shapes the code has today; a maintainer's refactoring changes shape, not
behaviour.  Instead of teaching every rule every shape, every module is normalised after parsing and
before any rule sees it (line numbers are kept, so reports still point into the user's file):

| normal form | rewrites |
|-------------|----------|
| conditionals | `not not X` -> `X`; `not (a is b)` / `==` / `in` -> the exact complement operator; `if not X: A else: B` -> `if X: B else: A`; `if X: pass else: B` -> `if not X: B`; `if X: A else: <raise/return/break/continue>` -> guard clause `if not X: <...>` followed by `A` (and symmetrically) |
| statements | `x = a if c else b` (also `return`) -> `if` statement; `setattr(o, "k", v)` -> `o.k = v`; `getattr(o, "k")` -> `o.k`; `for k, v in {<literal>}.items()` / over a literal tuple (also through a local bound once) -> unrolled; a module-level name bound once to a literal is substituted at its uses |
| control flow | `for ..: ... return E` directly followed by `return E` -> `break`; `match` over literals / builtin class patterns / capture / wildcard -> `if` chain; `if not (p := e).f():` -> `p = e` first; constant folding of `and` / `or` / `not` / `if <const>` |
| aliases | `x = self.a.b` read once and used later is `self.a.b` wherever the method (under its class and every subclass) cannot write `self.a`, and - for attributes it does write - up to the first statement that can write it; pure properties likewise (`rules/common._dealias_read_only_attrs`) |
| calls | `self.m(x=a, y=b)` -> `self.m(a, b)` for resolved methods; `cast(T, x)` -> `x`; `(lambda c: body)(x)` -> `body[c := x]`; library primitives called with their leading parameters by keyword (`lax.scan(f=.., init=.., xs=..)`) are re-ordered inside the interpreter |
| helpers | a call, in statement position, to a helper **that no rule mentions by name** (i.e. one the rules were not written against - typically a helper a refactoring has just extracted) is replaced by the helper's body: parameters bound, locals renamed, `return` eliminated into assignments; `def h(..): return <expr>` helpers are substituted in any expression position.  Only simple callees (unique resolution - no subclass overrides it -, no decorators other than static/classmethod, no `*args`, no generators, returns only in tail position of if-trees).  A private helper whose every use was inlined is dropped, so rules that enumerate methods do not see its body twice |
| terms | `ite(not c, a, b)` = `ite(c, b, a)`, `!=` / `<=` conditions flipped to `==` / `<`; `lift_ite` pulls a given conditional to the top (`x = ite(c,a,b); f(x)` = `if c: f(a) else: f(b)`); `maximum(a, b)` of scalars = `max` over the literal `[a, b]`; function-form operators (`jnp.subtract`, `jnp.not_equal`, `jnp.ptp`, `amax`, ...) are the operators; `x.shape[:3][k]` = `x.shape[k]`; `zeros.at[p].set(arange(len(p)))` = `argsort(p)` for a permutation `p`; `itertools.product(X, repeat=n)` = `product(*[X for _ in range(n)])` |

An override that only delegates (`return super().solve(..)`) is replaced by the parent's body for that class; a predicate helper used as an `if` test is folded back into the test; helpers imported from a sibling module are inlined when their free names mean the same in the caller's module; memoisation / `jit` decorators are transparent; namespace classes of literal constants and module constants are substituted, across modules.  On today's tree 18 call sites are inlined (e.g. `_calculate_single_step_reward` into the three `transition`
functions, `_clear_value_history`, `_ensure_2d_space`), all checks stay silent and every seeded variant is
still detected, which is the regression test of the inliner itself.  The anchor set (names never inlined)
is computed from the string literals of the rule modules, so it cannot drift from the rules.

### 10.9 Independent behaviour-preserving refactorings (`/verif/benign_refactors/`)

The converse of section 10.6.  Five fresh sub-agents per round were given the text of **all** properties (what must
keep holding), one area of the code each and a scratch worktree, and asked for eight realistic,
behaviour-preserving refactorings each (extract / inline helpers, guard clauses, table-driven loops,
hoisted constants, equivalent jnp APIs, keyword arguments, de-duplication ...), each tested by them against
the relevant tests and, where they chose to, bit-for-bit fingerprints.  `tools_benign_eval.py` applies each patch
to a scratch copy of `/repo/src` and runs every quick check.

First round, first evaluation: **17 of 40 patches were not silent** (12 false VIOLATIONs, 5 ANALYSIS-ERRORs) -
far worse than the mechanical transformations of 10.7 had suggested.  Causes and remedies:

| patch (kind) | what broke | remedy |
|--------------|------------|--------|
| set3_4, set1_7, set2_3, set2_5, set5_3, set5_4, set5_7, set3_3, set3_6 (extract helper) | protocol rules saw a call instead of the statements; enumerating rules saw a new method | helper inlining + dead-helper dropping (10.8); R10.3's step protocol made name-independent (copies of the `step` argument are followed) |
| set3_7 (four `if x is not None: config.k = x` -> dict + `setattr` loop) | R10.4 / R12.7 found no guarded writes | literal-loop unrolling + `setattr` normal form |
| set3_1 (conditional expression, `elif raise`) | R20.8 shape match | IfExp normal form |
| set3_3, set3_8, set5_8 (constants / tables hoisted to module level) | R20.9 wanted a dict literal inside the function | module-constant substitution |
| set4_7, set4_6, set2_2 (early returns, flipped branches) | R18.2 / R3.3 compared `reshape(ite(..))` with `ite(reshape(..))` | `lift_ite`, canonical `ite` polarity |
| set4_2 (`argmax` hoisted into a local) | R17.3 matched the `unravel_index` statement syntactically | the raise message is now a term (`Interp.raise_terms`): the interpolated pair must be components 1 / 0 of `unravel_index(argmax|rows - 1|, shape)` after "state " / "action " |
| set4_3 (`itertools.product` loop), set3_2 (`lax.scan` by keyword, `[1]` instead of unpacking), set1_8 (temporary for the change count) | interpreter gaps (one internal `IndexError`) | nested-loop desugaring, primitive signatures, block interpretation of the count's backward slice |
| set4_5 (`arange(min, min + width)`), set5_6 (`product(.., repeat=m)`, `np.tile`), set5_2 (`jnp.maximum(x, 0)`), set1_4 (`jnp.ptp`, `jnp.subtract`) | structural oracles of C14 / C13 / C15 / C01 | element access distributes over pointwise ring expressions of vectors; the equivalences of 10.8 |
| set1_6, set2_4 (state record built in a local; restore through `super()` and a local alias of `.info`) | `save_paths` / `restore_paths` | both follow single-assignment locals |
| set2_7 (`argsort(perm)` replaced by the scatter-built inverse) | C06 R6.3 | inverse-permutation equivalence |
| set4_8 (three nested `vmap`s replaced by flatten - one `vmap` - unflatten through the array's runtime shape) | C17 R17.2 reported a VIOLATION | **not followed**: the kernel IR has no shape algebra for this idiom.  R17.2 now recognises a reshape through the array's own shape in a failing step and ends in ANALYSIS-ERROR (no verdict) instead of a false VIOLATION; listed in `selftest/runner.KNOWN_UNDECIDED` |

After the work: 39 of 40 silent, 1 undecided (exit 2), 0 false VIOLATIONs; every stored seed is still reported
(`tools_seed_regress.py`), the catalogue matrix is unchanged.  All forty patches are stored and, like the seeds,
are **standing variants of every thorough run** (each check must stay silent on each).  A second round of forty
(told what the first round did, asked for more adventurous restructuring) is evaluated the same way; its results
are appended below.

{round2}

What this buys and what it does not: the canonical form removes the *shape* dependence that realistic
refactorings exercise most (helpers, guards, constants, tables, temporaries, API spellings).  Refactorings that
change the *algorithmic idiom* (another way to enumerate a product space, to build an index, to flatten axes)
can still leave the vocabulary of a term oracle; the design choice for those is exit 2 with the construct named,
never a VIOLATION, wherever the analyser can tell that it lost track (unknown primitive, reshape through runtime
shape, loop it cannot summarise), and the rule index below says which rules are term identities (strong, shape-independent
up to the normaliser) and which are idiom recognisers.

### 10.10 Rule index (generated by `tools_rule_index.py` from the rule modules and today's evidence)

{rule_index}

'''

import json, glob
npairs = 13 * 19
rule_index = subprocess.run(['python3','/verif/tools_rule_index.py'],capture_output=True,text=True).stdout
try:
    round2 = open('/verif/design_round2.md').read()
except OSError:
    round2 = ''
for extra in ('/verif/design_round3.md', '/verif/design_round4.md', '/verif/design_round5.md'):
    try:
        round2 += "\n" + open(extra).read()
    except OSError:
        pass
sec = sec.replace('{table}', table).replace('{npairs}', str(npairs)).replace('{rule_index}', rule_index).replace('{round2}', round2)
if '### 10.6 Independently seeded changes' in s:
    i=s.index('### 10.6 Independently seeded changes'); j=s.index('## Appendix A')
    s=s[:i]+sec+s[j:]
else:
    s=s.replace('## Appendix A — feasibility probes run while designing', sec+'## Appendix A — feasibility probes run while designing')
open(p,'w').write(s)
