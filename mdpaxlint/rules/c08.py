"""C08 - stopping rule, iteration accounting and composability of solve()."""

from __future__ import annotations

import ast

from ..effects import is_self_attr
from ..interp import Unsupported
from ..loader import AnalysisError, norm_text
from ..terms import S, show_norm
from .common import Context, SolveLoop, fmt_path, stmt_text
from .solverterms import (
    CONV_TESTS,
    HAS_CONV_TEST,
    VALUES,
    brief,
    documented_threshold,
    eval_in,
    maxdiff_of,
    same,
    solver_interp,
    span_of,
)

PROP = "C08"
EXPLANATION = (
    "Per shipped solver class, `solve` is resolved through the MRO and its control-flow graph "
    "is enumerated path by path: every path through one loop iteration must sweep exactly once, "
    "increment the counter exactly once, store the iterate before the break test, and the single "
    "break must be guarded by the strict comparison `measure < threshold`, where the threshold's "
    "term (abstractly interpreted through _setup_convergence_testing, dict dispatch included) "
    "equals the documented one and the measure's term is the documented measure of (sweep result, "
    "pre-sweep values).  Writes to loop-carried state outside the loop are only allowed under the "
    "convergence guard.  Decides the structural clauses of C08 for every path, class and "
    "convergence_test value at once; does not decide numerical equality with reference backups."
    ' Also decides (R8.9) that every call solve(k), k > 0, runs the sweep loop: no path from the entry to a normal return avoids it (a guard on the limit parameter alone excepted), and follows hook methods that apply the convergence guard themselves (R8.6).'
)
RULES = {
    "R8.1": "all calls that run _iteration_step lie inside `for _ in range(max_iterations)`, exactly one per path through an iteration; the step performs exactly one sweep",
    "R8.2": "self.iteration is incremented exactly once on every path through an iteration, and nothing else reachable from solve writes it",
    "R8.3": "exactly one break, guarded by the strict `conv < T` (or `T > conv`) with conv = 2nd component of this iteration's step and T == documented threshold term",
    "R8.4": "the iterate (1st component of the step) is stored into the solver's primary attribute before the break test on every path",
    "R8.5": "the step's measure is the documented measure of (sweep result, pre-sweep self.values), for each convergence_test value (dispatch R8.7)",
    "R8.6": "no write to a loop-carried attribute before the loop; post-loop writes to one only under the convergence guard",
    "R8.9": "every call solve(k), k > 0, runs the sweep loop: no path from the entry of solve() to a normal return avoids the loop (an early return on remembered state - a `converged` flag, a cached result - stops before the documented stopping rule has been evaluated on the state the solver holds NOW, which a restore / load_checkpoint / assignment may have replaced); a guard on the limit parameter alone is outside the property (positive limits)",
    "R8.10": "the epsilon of every threshold is the configured one: the constructor assigns self.epsilon from config.epsilon itself (no scaling, rounding or fallback in between), as C02 R2.7 requires of gamma",
    "R8.8": "initial values are problem.initial_value(state_space[n]) for every state n; the counter starts at 0",
}
ASSUMPTIONS = [
    "jax.pmap / lax.scan / vmap have their documented mapping semantics (kernel IR of DESIGN.md section 3)",
    "BatchProcessor.prepare_batches / unbatch_results compose to the identity on real states (decided separately under C18)",
    "problem.* leaf functions are pure",
]

PRIMARY = {"PolicyIteration": "policy"}  # attribute holding the iterate; default `values`


def run(ctx: Context, col) -> None:
    from .common import Parts

    part = Parts()
    for cls in ctx.solvers():
        loop = ctx.solve_loop(cls)
        col.saw("functions", f"{loop.owner.name}.solve (for {cls.name})")
        part(_paths, ctx, cls, loop, col)
        part(_break_rule, ctx, cls, loop, col)
        part(_outside_loop, ctx, cls, loop, col)
        part(_no_bypass, ctx, cls, loop, col)
        part(_measure, ctx, cls, col)
        part(_initial, ctx, cls, col)
    part(_epsilon_source, ctx, col)
    part.finish()
    col.floor("R8.10", 1)
    col.floor("R8.1", 10)
    col.floor("R8.2", 5)
    col.floor("R8.3", 5)
    col.floor("R8.4", 5)
    col.floor("R8.5", 6)
    col.floor("R8.6", 5)
    col.floor("R8.8", 5)
    col.floor("R8.9", 5)


# ------------------------------------------------------------------ path rules
def _paths(ctx, cls, loop: SolveLoop, col):
    construct = f"{cls.name}.solve"
    file = loop.file
    paths = loop.body_paths()
    hl = loop.header.lineno
    if not paths:
        raise AnalysisError(f"{construct}: loop body has no paths")
    bad_step, bad_inc = [], []
    for kind, p in paths:
        evs = loop.events(p)
        nstep = sum(1 for e in evs if e.kind == "STEP")
        ninc = sum(1 for e in evs if e.kind == "INC")
        if nstep != 1:
            bad_step.append((kind, p, nstep))
        if nstep >= 1 and ninc != 1:
            bad_inc.append((kind, p, ninc))
    # steps outside the loop
    outside = [
        n for n in loop.cfg.stmts() if n.id not in loop.members and n is not loop.header and loop.reaches_step(n)
    ]
    bok, bwhy = loop.bound_ok()
    col.add("R8.1", construct, file, hl, bok, bwhy, text="trip count == max_iterations")
    ok = not bad_step and not outside
    detail = f"{len(paths)} paths through one iteration, each runs the step exactly once; no step outside the loop"
    if bad_step:
        k, p, n = bad_step[0]
        detail = f"path {fmt_path(p)} ({k}) runs the step {n} times"
    elif outside:
        detail = f"step reachable outside the loop at line {outside[0].lineno}: {stmt_text(outside[0])}"
    col.add("R8.1", construct, file, hl, ok, detail, text=norm_text(loop.header.ast))

    # the step itself sweeps exactly once (VI family): one call of _update_values per path
    so, sfn = ctx.ct.require(cls, "_iteration_step")
    sweeps = _count_calls_on_paths(ctx, cls, so, sfn, {"_update_values"}) if cls.name != "PolicyIteration" else None
    if sweeps is not None:
        lo, hi = sweeps
        col.add("R8.1", f"{cls.name}._iteration_step", so.module.relpath, sfn.lineno, lo == hi == 1,
                f"_update_values is invoked between {lo} and {hi} times per step (expected exactly 1)",
                text="sweeps per step")

    ok2 = not bad_inc
    detail = "counter incremented exactly once on each of the paths that sweep"
    if bad_inc:
        k, p, n = bad_inc[0]
        detail = f"path {fmt_path(p)} ({k}) increments self.iteration {n} times but sweeps once"
    # other writers of the counter reachable from solve
    writers = []
    for n in loop.cfg.stmts():
        if loop.is_inc(n):
            continue
        if SolveLoop.COUNTER in loop.node_writes(n):
            writers.append(n)
    if writers:
        ok2 = False
        detail = f"line {writers[0].lineno} also writes self.iteration: {stmt_text(writers[0])}"
    col.add("R8.2", construct, file, hl, ok2, detail, text="self.iteration accounting")

    # R8.4 store before test
    primary = PRIMARY.get(cls.name, "values")
    bad = None
    for kind, p in paths:
        evs = loop.events(p)
        order = [e for e in evs if e.kind in ("STEP", "TEST", "WRITE", "BREAK")]
        step_i = next((i for i, e in enumerate(order) if e.kind == "STEP"), None)
        if step_i is None:
            continue
        store_i = next(
            (i for i, e in enumerate(order) if i > step_i and e.kind == "WRITE" and _is_store_of_step(loop, e.node, primary)),
            None,
        )
        brk_tests = [i for i, e in enumerate(order) if e.kind == "TEST" and _is_break_test(loop, e.node)]
        if store_i is None:
            bad = (p, f"no `self.{primary} = <step result>` after the step")
            break
        if brk_tests and brk_tests[0] < store_i:
            bad = (p, f"break test at line {order[brk_tests[0]].node.lineno} precedes the store at line {order[store_i].node.lineno}")
            break
    col.add("R8.4", construct, file, hl, bad is None,
            f"`self.{primary}` receives the step's iterate before the break test on all {len(paths)} paths"
            if bad is None else f"path {fmt_path(bad[0])}: {bad[1]}",
            text=f"store self.{primary} before test")


def _count_calls_on_paths(ctx, cls, owner, fn, names):
    """(min, max) number of calls to self.<name> along paths of fn, following super() / helper
    calls that themselves contain such calls."""
    from ..cfg import cfg_of
    from ..effects import is_super_call

    g = cfg_of(fn)

    def weight(node):
        region = SolveLoop.node_region(node)
        if region is None:
            return (0, 0)
        lo = hi = 0
        regs = region if isinstance(region, list) else [region]
        for r in regs:
            for c in ast.walk(r):
                if isinstance(c, ast.Call):
                    nm = None
                    if isinstance(c.func, ast.Attribute) and is_self_attr(c.func):
                        nm = c.func.attr
                        tgt = ctx.ct.lookup(cls, nm)
                    else:
                        sn = is_super_call(c)
                        tgt = ctx.ct.lookup(cls, sn, after=owner) if sn else None
                        nm = sn
                    if nm in names:
                        lo += 1
                        hi += 1
                    elif tgt is not None and nm is not None and tgt[1] is not fn:
                        a, b = _count_calls_on_paths(ctx, cls, tgt[0], tgt[1], names)
                        lo += a
                        hi += b
        return lo, hi

    lo_best, hi_best = None, 0
    for p in g.paths(g.entry, lambda n: n is g.exit or n is g.raise_exit):
        if p[-1][0] is g.raise_exit:
            continue
        lo = hi = 0
        for node, _ in p:
            a, b = weight(node)
            lo += a
            hi += b
        lo_best = lo if lo_best is None else min(lo_best, lo)
        hi_best = max(hi_best, hi)
    return (lo_best or 0, hi_best)


def _step_targets(loop: SolveLoop):
    """Names bound by the statement that runs the step: [name0, name1, ...] or None."""
    for n in loop.step_binding():
        a = n.ast
        if isinstance(a, ast.Assign) and len(a.targets) == 1:
            t = a.targets[0]
            if isinstance(t, ast.Tuple) and all(isinstance(x, ast.Name) for x in t.elts):
                return n, [x.id for x in t.elts]
            if isinstance(t, ast.Name):
                return n, [t.id]
    return None, None


def _is_store_of_step(loop: SolveLoop, node, primary: str) -> bool:
    a = node.ast
    _, names = _step_targets(loop)
    if not names:
        return False
    if isinstance(a, ast.Assign) and len(a.targets) == 1 and is_self_attr(a.targets[0], primary):
        return isinstance(a.value, ast.Name) and a.value.id == names[0]
    return False


def _is_break_test(loop: SolveLoop, node) -> bool:
    for b in loop.breaks():
        chain = loop.break_guards(b)
        if any(c[0] is node.ast for c in chain):
            return True
    return False


# ------------------------------------------------------------------ break rule
def _break_rule(ctx, cls, loop: SolveLoop, col):
    construct = f"{cls.name}.solve"
    file = loop.file
    brs = loop.breaks()
    if len(brs) != 1:
        col.add("R8.3", construct, file, loop.header.lineno, False,
                f"{len(brs)} break statements in the solve loop (expected exactly 1)", text="break count")
        return
    b = brs[0]
    chain = loop.break_guards(b)
    if len(chain) != 1 or chain[0][1] is not True or not isinstance(chain[0][0], ast.If):
        col.add("R8.3", construct, file, b.lineno, False,
                "break is not directly under a single `if <test>:` in the loop body "
                f"(guard chain: {[(type(c[0]).__name__, c[1]) for c in chain]})", text="break guard shape")
        return
    ifs = chain[0][0]
    test = ifs.test
    tnode = loop.cfg.node_of(ifs)
    # resolve `if converged:` through a unique dominating local definition
    if isinstance(test, ast.Name) and tnode is not None:
        d = loop.local_def(test.id, tnode)
        if d is not None:
            test = d.ast.value
    if cls.name == "PolicyIteration":
        _pi_break(ctx, cls, loop, col, ifs, test)
        _pi_eval_loop(ctx, cls, col)
        return
    stepnode, names = _step_targets(loop)
    if not names or len(names) < 2:
        col.add("R8.3", construct, file, ifs.lineno, False,
                "cannot find `new, conv = <step>()` binding in the loop", text=norm_text(ifs))
        return
    ok, why, conv_side, thr_side = _strict_lt(test, names[1])
    if not ok:
        col.add("R8.3", construct, file, ifs.lineno, False, why, text=norm_text(ifs))
        return
    # the conv name must not be re-bound between the step and the test
    rebinds = [
        n for n in (loop.cfg.nodes[i] for i in loop.members)
        if n is not stepnode and isinstance(n.ast, (ast.Assign, ast.AugAssign))
        and any(isinstance(x, ast.Name) and x.id == names[1] and isinstance(x.ctx, ast.Store) for x in ast.walk(n.ast))
    ]
    if rebinds:
        col.add("R8.3", construct, file, rebinds[0].lineno, False,
                f"`{names[1]}` is re-bound inside the loop at line {rebinds[0].lineno}", text=norm_text(ifs))
        return
    doc = documented_threshold(cls.name)
    tests = CONV_TESTS if cls.name in HAS_CONV_TEST else ("span",)
    for ct_ in tests:
        I = solver_interp(ctx, cls, ct_)
        thr = eval_in(I, loop.owner, loop.fn, thr_side)
        good = same(thr, doc)
        col.add("R8.3", construct, file, ifs.lineno, good,
                (f"break iff `{names[1]} < T` (strict) with T = {brief(thr)} == documented threshold"
                 if good else f"threshold term {brief(thr)} differs from the documented {brief(doc)}")
                + f" [convergence_test={ct_}]",
                text=norm_text(ifs) + f" [{ct_}]")


def _strict_lt(test, conv_name):
    """test must be `conv < T` or `T > conv`."""
    if not (isinstance(test, ast.Compare) and len(test.ops) == 1):
        return False, f"break guard `{ast.unparse(test)}` is not a single comparison", None, None
    op = test.ops[0]
    l, r = test.left, test.comparators[0]
    if isinstance(op, ast.Lt) and isinstance(l, ast.Name) and l.id == conv_name:
        return True, "", l, r
    if isinstance(op, ast.Gt) and isinstance(r, ast.Name) and r.id == conv_name:
        return True, "", r, l
    if isinstance(op, (ast.LtE, ast.GtE)):
        return False, f"break guard `{ast.unparse(test)}` is not strict: convergence would be reported with the measure AT the threshold", None, None
    return False, f"break guard `{ast.unparse(test)}` is not `{conv_name} < threshold`", None, None


def _pi_break(ctx, cls, loop, col, ifs, test):
    """Policy iteration stops iff the step's change count is zero (R5.3 decides the count)."""
    _, names = _step_targets(loop)
    ok = (
        names is not None and len(names) >= 2
        and isinstance(test, ast.Compare) and len(test.ops) == 1 and isinstance(test.ops[0], ast.Eq)
        and (
            (isinstance(test.left, ast.Name) and test.left.id == names[1]
             and isinstance(test.comparators[0], ast.Constant) and test.comparators[0].value == 0)
            or (isinstance(test.comparators[0], ast.Name) and test.comparators[0].id == names[1]
                and isinstance(test.left, ast.Constant) and test.left.value == 0)
        )
    )
    col.add("R8.3", f"{cls.name}.solve", loop.file, ifs.lineno, ok,
            "break iff the step's change count == 0" if ok else
            f"break guard `{ast.unparse(test)}` is not `<change count> == 0`", text=norm_text(ifs))


def _pi_eval_loop(ctx, cls, col):
    """The policy-evaluation loop: break iff conv < conv_threshold (strict), threshold documented."""
    from ..cfg import cfg_of

    owner, fn = ctx.ct.require(cls, "_evaluate_policy")
    g = cfg_of(fn)
    loops = [n for n in g.nodes if n.kind == "iter" and n.depth == 0]
    construct = f"{cls.name}._evaluate_policy"
    if len(loops) != 1:
        raise AnalysisError(f"anchor vanished: {construct} has {len(loops)} top-level loops")
    h = loops[0]
    members = g.loop_members(h)
    brs = [g.nodes[i] for i in members if isinstance(g.nodes[i].ast, ast.Break)]
    if len(brs) != 1:
        col.add("R8.3", construct, owner.module.relpath, h.lineno, False,
                f"{len(brs)} break statements in the evaluation loop (expected 1)", text="break count")
        return
    from .common import parents_of

    parents = parents_of(h.ast)
    p = parents.get(id(brs[0].ast))
    if not isinstance(p, ast.If) or brs[0].ast not in p.body or parents.get(id(p)) is not h.ast:
        col.add("R8.3", construct, owner.module.relpath, brs[0].lineno, False,
                "evaluation-loop break is not directly under one top-level `if`", text="break guard shape")
        return
    test = p.test
    # conv := self._convergence_test_fn(new_values, values) in the same iteration
    conv_name = None
    for s in h.ast.body:
        if isinstance(s, ast.Assign) and len(s.targets) == 1 and isinstance(s.targets[0], ast.Name):
            if isinstance(s.value, ast.Call) and isinstance(s.value.func, ast.Attribute) and is_self_attr(s.value.func, _measure_attr(ctx)):
                conv_name = s.targets[0].id
    if conv_name is None:
        col.add("R8.3", construct, owner.module.relpath, p.lineno, False,
                "no `conv = self._convergence_test_fn(...)` in the evaluation loop", text=norm_text(p))
        return
    ok, why, _c, thr_side = _strict_lt(test, conv_name)
    if not ok:
        col.add("R8.3", construct, owner.module.relpath, p.lineno, False, why, text=norm_text(p))
        return
    doc = documented_threshold(cls.name)
    for ct_ in CONV_TESTS:
        I = solver_interp(ctx, cls, ct_)
        thr = eval_in(I, owner, fn, thr_side)
        good = same(thr, doc)
        col.add("R8.3", construct, owner.module.relpath, p.lineno, good,
                (f"evaluation stops iff `{conv_name} < T` (strict), T == documented threshold"
                 if good else f"threshold term {brief(thr)} differs from the documented {brief(doc)}")
                + f" [convergence_test={ct_}]", text=norm_text(p) + f" [{ct_}]")


# --------------------------------------------------------- outside-the-loop rule
def _outside_loop(ctx, cls, loop: SolveLoop, col):
    construct = f"{cls.name}.solve"
    # bookkeeping that never flows into results / stopping / saving is not state whose accounting this rule protects
    L = loop.loop_carried() & loop.relevant_attrs()
    from .common import collaborator_attrs
    collab = collaborator_attrs(ctx, cls)
    if L & set(collab):
        raise AnalysisError(f"{cls.name}.solve: loop-carried state is kept inside collaborator object(s) {sorted(L & set(collab))}; "
                            "writes go through that object's methods, which the attribute-level analysis does not follow")
    col.saw("loop-carried", f"{cls.name}: {sorted(L)}")
    g = loop.cfg
    pre = [n for n in g.stmts() if n.id not in loop.members and n is not loop.header and g.dominates(n, loop.header)]
    post = [n for n in g.stmts() if n.id not in loop.members and n is not loop.header and n not in pre]
    bad = None
    for n in pre:
        w = loop.node_writes(n) & L
        if w:
            bad = (n, f"line {n.lineno} writes loop-carried {sorted(w)} before the loop: {stmt_text(n)}")
            break
    if bad is None:
        brs = loop.breaks()
        guard_txt = None
        if len(brs) == 1:
            ch = loop.break_guards(brs[0])
            if len(ch) == 1 and isinstance(ch[0][0], ast.If):
                guard_txt = _cmp_key(ch[0][0].test)
        from .common import parents_of

        parents = parents_of(loop.fn)
        for n in post:
            w = loop.node_writes(n) & L
            if not w:
                continue
            # must be nested in an `if` whose test equals the break guard
            cur, guarded = n.ast, False
            while cur is not None and cur is not loop.fn:
                par = parents.get(id(cur))
                if isinstance(par, ast.If) and cur in par.body and guard_txt is not None and _cmp_key(par.test) == guard_txt:
                    guarded = True
                    break
                cur = par
            if n.kind == "test":
                guarded = guarded  # the test expression itself writing state is never fine
            if not guarded and guard_txt is not None:
                # a hook method (resolved for THIS class) that applies the convergence guard itself: every statement of the callee that
                # writes the carried state must sit under that guard, with the formals replaced by the actual arguments
                hooked = _hook_guarded(ctx, cls, loop, n, w, _getter_key(ctx, cls, guard_txt_node(brs, loop)))
                if hooked is None:
                    raise AnalysisError(f"{construct}: line {n.lineno} writes loop-carried {sorted(w)} after the loop through `{stmt_text(n)}`, "
                                        "whose body this rule cannot follow; R8.6 cannot be decided")
                guarded = hooked
            if not guarded:
                bad = (n, f"line {n.lineno} writes loop-carried {sorted(w)} after the loop without the convergence guard: {stmt_text(n)}")
                break
    col.add("R8.6", construct, loop.file, (bad[0].lineno if bad else loop.header.lineno), bad is None,
            f"loop-carried {sorted(L)}: untouched before the loop; after it only under the convergence guard"
            if bad is None else bad[1], text=(stmt_text(bad[0]) if bad else "writes outside loop"))


def guard_txt_node(brs, loop):
    ch = loop.break_guards(brs[0])
    return ch[0][0].test


def _getter_key(ctx, cls, test):
    """_cmp_key of a test in which calls `self.m()` of trivial getters (`return <expr>`, resolved for this class) are replaced by what they return"""
    import copy

    class R(ast.NodeTransformer):
        def visit_Call(self, c):
            self.generic_visit(c)
            if isinstance(c.func, ast.Attribute) and isinstance(c.func.value, ast.Name) and c.func.value.id == "self" and not c.args and not c.keywords:
                r = ctx.ct.lookup(cls, c.func.attr)
                if r:
                    body = [st for st in r[1].body if not (isinstance(st, ast.Expr) and isinstance(st.value, ast.Constant))]
                    if len(body) == 1 and isinstance(body[0], ast.Return) and body[0].value is not None:
                        return copy.deepcopy(body[0].value)
            return c

        def visit_Attribute(self, a):
            self.generic_visit(a)
            if isinstance(a.ctx, ast.Load) and isinstance(a.value, ast.Name) and a.value.id == "self":
                r = ctx.ct.lookup(cls, a.attr)
                if r and any(ast.unparse(d) in ("property", "functools.cached_property", "cached_property") for d in r[1].decorator_list):
                    body = [st for st in r[1].body if not (isinstance(st, ast.Expr) and isinstance(st.value, ast.Constant))]
                    if len(body) == 1 and isinstance(body[0], ast.Return) and body[0].value is not None:
                        return copy.deepcopy(body[0].value)
            return a

    return _cmp_key(R().visit(copy.deepcopy(test)))


def _hook_guarded(ctx, cls, loop, node, w, guard_key):
    """True / False: the writes of `w` made by the call at `node` all sit under the convergence guard inside the callee; None: not a plain
    call of a method of this class"""
    import copy
    a = node.ast
    if not (isinstance(a, ast.Expr) and isinstance(a.value, ast.Call)):
        return False if node.kind != "stmt" else None if isinstance(a, ast.Expr) else False
    c = a.value
    from .common import self_call_name
    nm = self_call_name(c)
    if nm is None:
        return None
    r = ctx.ct.lookup(cls, nm)
    if not r:
        return None
    owner, fn = r
    formals = [x.arg for x in fn.args.args if x.arg != "self"]
    m = dict(zip(formals, c.args))
    for k in c.keywords:
        if k.arg:
            m[k.arg] = k.value

    class Sub(ast.NodeTransformer):
        def visit_Name(self, x):
            if isinstance(x.ctx, ast.Load) and x.id in m:
                return copy.deepcopy(m[x.id])
            return x

    from .common import parents_of
    parents = parents_of(fn)
    eff = ctx.effects(cls)
    for st in ast.walk(fn):
        if not isinstance(st, ast.stmt) or isinstance(st, (ast.If, ast.FunctionDef, ast.For, ast.While, ast.With, ast.Try)):
            continue
        if not (set(eff.of_region([st], owner)[1]) & set(w)):
            continue
        cur, ok = st, False
        while cur is not None and cur is not fn:
            par = parents.get(id(cur))
            if isinstance(par, ast.If) and cur in par.body:
                if _getter_key(ctx, cls, Sub().visit(copy.deepcopy(par.test))) == guard_key:
                    ok = True
                    break
            cur = par
        if not ok:
            return False
    return True


def _cmp_key(test) -> str:
    """`a < b` and `b > a` get the same key."""
    if isinstance(test, ast.Compare) and len(test.ops) == 1:
        l, r, op = ast.unparse(test.left), ast.unparse(test.comparators[0]), type(test.ops[0]).__name__
        if op == "Gt":
            return f"{r} Lt {l}"
        if op == "GtE":
            return f"{r} LtE {l}"
        return f"{l} {op} {r}"
    return ast.unparse(test)


# --------------------------------------------------------------- measure rule
def _measure(ctx, cls, col):
    if cls.name in ("PolicyIteration", "PeriodicValueIteration"):
        # PI: the measure lives in the evaluation loop (below); PVI: C07 decides its measure
        if cls.name == "PolicyIteration":
            _pi_measure(ctx, cls, col)
        return
    owner, fn = ctx.ct.require(cls, "_iteration_step")
    tests = CONV_TESTS if cls.name in HAS_CONV_TEST else ("span",)
    for ct_ in tests:
        I = solver_interp(ctx, cls, ct_)
        try:
            r = I.call_method("_iteration_step")
        except Unsupported as e:
            raise AnalysisError(f"{cls.name}._iteration_step: {e}") from e
        if r[0] != "tuple" or len(r[1]) != 2:
            col.add("R8.5", f"{cls.name}._iteration_step", owner.module.relpath, fn.lineno, False,
                    "step does not return (iterate, measure)", text=f"measure [{ct_}]")
            continue
        new, conv = r[1]
        want = span_of(I, new, VALUES) if ct_ == "span" else maxdiff_of(I, new, VALUES)
        ok = same(conv, want)
        name = "span: max(new-old) - min(new-old)" if ct_ == "span" else "max_diff: max(|new-old|)"
        col.add("R8.5", f"{cls.name}._iteration_step", owner.module.relpath, fn.lineno, ok,
                (f"measure == {name} of (returned iterate, pre-sweep self.values)" if ok else
                 f"measure {brief(conv, 160)} is not {name} of (returned iterate, self.values)")
                + f" [convergence_test={ct_}]", text=f"measure [{ct_}]")


def _measure_attr(ctx) -> str:
    """the data attribute holding the convergence measure function: the one ValueIteration._iteration_step calls"""
    from .common import one_data_attr
    if "measure_attr" not in ctx.cache:
        ctx.cache["measure_attr"] = one_data_attr(ctx, ctx.ct.get("ValueIteration"), "_iteration_step", "call", "convergence measure function")
    return ctx.cache["measure_attr"]


def _pi_measure(ctx, cls, col):
    """conv = self._convergence_test_fn(new_values, values) with new_values the kernel result of `values`."""
    owner, fn = ctx.ct.require(cls, "_evaluate_policy")
    for ct_ in CONV_TESTS:
        I = solver_interp(ctx, cls, ct_)
        f = I.attrs.get(_measure_attr(ctx))
        new, old = S("NEW"), S("OLD")
        I.axes["NEW"] = ("state",)
        I.axes["OLD"] = ("state",)
        got = I.call_value(f, [new, old], {})
        want = span_of(I, new, old) if ct_ == "span" else maxdiff_of(I, new, old)
        ok = same(got, want)
        col.add("R8.5", f"{cls.name}._evaluate_policy", owner.module.relpath, fn.lineno, ok,
                (f"evaluation measure is the documented {ct_} measure" if ok else
                 f"evaluation measure {brief(got, 160)} is not the documented {ct_} measure") + f" [convergence_test={ct_}]",
                text=f"measure [{ct_}]")
        # operands: (this iteration's kernel result, the iterate it was computed from)
    loopfor = [s for s in fn.body if isinstance(s, ast.For)]
    if not loopfor:
        raise AnalysisError(f"anchor vanished: {cls.name}._evaluate_policy has no top-level evaluation loop (moved elsewhere?); R8.5 cannot be decided")
    okops = False
    why = "no evaluation loop"
    if loopfor:
        body = loopfor[0].body
        newname = valname = None
        for s in body:
            if isinstance(s, ast.Assign) and isinstance(s.value, ast.Call) and isinstance(s.value.func, ast.Attribute):
                if is_self_attr(s.value.func, "_calculate_policy_values") and len(s.value.args) == 2 and isinstance(s.targets[0], ast.Name):
                    newname = s.targets[0].id
                    valname = ast.unparse(s.value.args[1])
                if is_self_attr(s.value.func, _measure_attr(ctx)) and newname:
                    a = [ast.unparse(x) for x in s.value.args]
                    okops = a == [newname, valname]
                    why = f"measure operands {a}, expected [{newname}, {valname}]"
    col.add("R8.5", f"{cls.name}._evaluate_policy", owner.module.relpath, fn.lineno, okops,
            "measure compares this iteration's kernel result with the iterate it was computed from" if okops else why,
            text="measure operands")


# --------------------------------------------------------------- initial values
def _initial(ctx, cls, col):
    from ..terms import ZERO, alpha_norm
    from ..interp import fresh

    I = solver_interp(ctx, cls, "span")
    owner, fn = ctx.ct.require(cls, "_initialize_values")
    t = I.call_method("_initialize_values", [I.attrs["batched_states"]])
    n = fresh("state")
    want = ("lam", n, "state", ("app", "problem.initial_value", (I.elem(S("problem.state_space"), n),)))
    ok = alpha_norm(t) == alpha_norm(want)
    col.add("R8.8", f"{cls.name}._initialize_values", owner.module.relpath, fn.lineno, ok,
            "initial values == [n -> problem.initial_value(state_space[n])]" if ok else
            f"initial values term is {brief(t)}", text="initial values term")
    # constructor state: values from _initialize_values on self.batched_states, counter 0
    I2 = solver_interp(ctx, cls, "span", extra_facts={"values": S("UNSET"), "iteration": S("UNSET")})
    o2, f2 = ctx.ct.require(cls, "_initialize_solver_state_elements")
    try:
        I2.call_method("_initialize_solver_state_elements")
    except Unsupported as e:
        raise AnalysisError(f"{cls.name}._initialize_solver_state_elements: {e}") from e
    v = I2.attrs.get("values")
    it = I2.attrs.get("iteration")
    ok2 = v is not None and alpha_norm(v) == alpha_norm(want) and it == ZERO
    col.add("R8.8", f"{cls.name}._initialize_solver_state_elements", o2.module.relpath, f2.lineno, ok2,
            "constructor leaves values = initial values of the problem and iteration = 0" if ok2 else
            f"constructor leaves values = {brief(v) if v else None}, iteration = {show_norm(it) if it else None}",
            text="constructor state")


# ------------------------------------------------------------ no return that bypasses the loop
def _no_bypass(ctx, cls, loop: SolveLoop, col, rule="R8.9"):
    """A normal return reachable from the entry without passing the loop header."""
    construct = f"{cls.name}.solve"
    g = loop.cfg
    if not g.reachable_avoiding(g.entry, g.exit, lambda m: m is loop.header):
        col.add(rule, construct, loop.file, loop.header.lineno, True,
                "every path from the entry of solve() to a normal return passes the sweep loop", text="no return bypasses the loop")
        return
    from .common import conditions_at
    # name the offending exit(s): return statements (or the implicit fall-off) not dominated by the loop header
    rets = [n for n in g.stmts() if isinstance(n.ast, ast.Return) and n.id not in loop.members and not g.dominates(loop.header, n)
            and g.reachable_avoiding(g.entry, n, lambda m: m is loop.header)]
    if not rets:
        raise AnalysisError(f"{construct}: a path reaches the exit without passing the sweep loop, but no return statement is on it "
                            "(loop under a conditional?); R8.9 cannot be decided")
    lim = loop.limit_param
    for n in rets:
        conds = conditions_at(loop.fn, n.ast)
        reads_state = any(isinstance(x, ast.Attribute) or isinstance(x, ast.Call) for c in conds for x in ast.walk(c))
        names = {x.id for c in conds for x in ast.walk(c) if isinstance(x, ast.Name)}
        if conds and not reads_state and names <= {lim}:
            col.add(rule, construct, loop.file, n.lineno, True,
                    f"early return guarded by the limit parameter alone ({[ast.unparse(c) for c in conds]}): outside the property (positive limits)",
                    text="limit-only early return")
            continue
        if not conds:
            raise AnalysisError(f"{construct}: return at line {n.lineno} precedes the sweep loop unconditionally; R8.9 cannot be decided")
        col.add(rule, construct, loop.file, n.lineno, False,
                f"`{stmt_text(n)}` at line {n.lineno} returns without running the sweep loop when {[ast.unparse(c) for c in conds]}: "
                "solve(k) then performs no sweep and evaluates no stopping rule on the state the solver holds now (after restore / "
                "load_checkpoint / an assignment of values or policy the remembered condition is stale)",
                text="return bypasses the loop")


# ------------------------------------------------------------------ epsilon source
def _epsilon_source(ctx, col):
    from ..effects import is_self_attr
    from ..interp import Frame, Interp, Unsupported
    from ..terms import show_norm

    sol = ctx.ct.get("Solver")
    sites = []
    for owner in [sol] + ctx.ct.subclasses(sol):
        for fn in owner.methods.values():
            for st in ast.walk(fn):
                if isinstance(st, ast.Assign) and any(is_self_attr(t, "epsilon") for t in st.targets):
                    sites.append((owner, fn, st))
    if not sites:
        raise AnalysisError("anchor vanished: no assignment of self.epsilon in the solver classes")
    for owner, fn, st in sites:
        I = Interp(ctx.ct, owner, {"config": ("obj", "config")})
        try:
            t = I.ev(st.value, {"self": ("self",)}, Frame(owner, owner.module, fn))
        except Unsupported as e:
            raise AnalysisError(f"{owner.name}.{fn.name}: self.epsilon = {ast.unparse(st.value)[:60]}: {e}") from e
        ok = t == ("sym", "config.epsilon")
        col.add("R8.10", f"{owner.name}.{fn.name}", owner.module.relpath, st.lineno, ok,
                "self.epsilon is config.epsilon" if ok else
                f"self.epsilon is `{ast.unparse(st.value)[:80]}` = {show_norm(t)[:120]}, not the configured epsilon itself: every threshold is then "
                "computed from another tolerance than the one requested", text="epsilon source")
