"""C05 - policy iteration: evaluation is accurate and termination means policy stability."""

from __future__ import annotations

import ast

from ..cfg import cfg_of
from ..effects import is_self_attr
from ..interp import Frame, Unsupported, fresh
from ..loader import AnalysisError, norm_text
from ..terms import K, S, T_sub, ZERO, alpha_norm, show_norm, subterms
from .common import Context, calls_in, self_call_name
from .solverterms import GAMMA, VALUES, brief, same, solver_interp

PROP = "C05"
EXPLANATION = (
    "Decides the structural clauses of policy iteration for all paths and all action dimensions: "
    "the evaluation kernel, abstractly interpreted through pmap/scan/vmap, is "
    "[n -> Q(state_space[n], POLICY[state_to_index(state_space[n])])] with the same Q-term as the "
    "value-iteration sweep and no action reduction (each state is paired with the policy row of "
    "its own index, not with a positional slice); the evaluation loop chains its iterates and "
    "returns one of them; the change count reduces the component axis with an OR-like reduction "
    "(any/sum/max), never an AND-like one, so a change in any component counts; the improvement "
    "step is greedy w.r.t. the freshly evaluated values and nothing rewrites the values before "
    "solve returns; the initial policy is problem.initial_policy per state, falling back only on "
    "NotImplementedError to the greedy policy of all-zero values.  Does not decide the epsilon/gamma "
    "accuracy as a number."
    ' Also decides (R5.6) that no return of solve() bypasses the improvement loop on remembered state such as a `converged` flag.'
)
RULES = {
    "R5.1": "evaluation kernel == [n -> Q(s_n, POLICY[state_to_index(s_n)])] with Q the sweep's state-action term; no reduction over actions",
    "R5.2": "the evaluation loop runs at most max_eval_iter kernel applications, chains iterates (kernel applied to the current iterate) and returns an iterate of this loop",
    "R5.3": "change count = reduction over states of an OR-like reduction over action components of (new_policy != self.policy); solve stops iff it is 0",
    "R5.4": "self.values = _evaluate_policy(self.policy) dominates the greedy extraction; the step returns the extracted policy; no later write to self.values in solve",
    "R5.6": "solve() stops only by its own stability test on this call's improvement step (or at the limit): no return bypasses the improvement loop on remembered state such as a `converged` flag (instance of C08 R8.9 for PolicyIteration)",
    "R5.5": "initial policy = vmap(problem.initial_policy)(state_space), falling back only on NotImplementedError to _extract_policy() under all-zero values; the real initial values are assigned afterwards",
}
ASSUMPTIONS = [
    "kernel IR semantics of pmap / scan / vmap and the un-batching summary (C18)",
    "the convergence test and threshold of the evaluation loop are decided under C08 (R8.3, R8.5)",
]

OR_LIKE = {"any", "sum", "max", "count_nonzero"}
AND_LIKE = {"all", "min", "prod"}


def run(ctx: Context, col) -> None:
    from .common import Parts

    part = Parts()
    cls = ctx.ct.get("PolicyIteration")
    file = cls.module.relpath
    part(_kernel, ctx, cls, file, col)
    part(_eval_loop, ctx, cls, file, col)
    part(_change_count, ctx, cls, file, col)
    part(_ordering, ctx, cls, file, col)
    part(_initial_policy, ctx, cls, file, col)
    from .c08 import _no_bypass
    part(_no_bypass, ctx, cls, ctx.solve_loop(cls), col, "R5.6")
    part.finish()
    for r_, n in (("R5.1", 1), ("R5.2", 3), ("R5.3", 2), ("R5.4", 3), ("R5.5", 4), ("R5.6", 1)):
        col.floor(r_, n)


def _kernel(ctx, cls, file, col):
    I = solver_interp(ctx, cls, "span")
    owner, fn = ctx.ct.require(cls, "_calculate_policy_values")
    POL, VAL = S("POLICY"), S("VALUES")
    try:
        t = I.call_method("_calculate_policy_values", [POL, VAL])
    except Unsupported as e:
        raise AnalysisError(f"PolicyIteration._calculate_policy_values: {e}") from e
    interfering = t[0] == "interfering"
    # oracle: Q of the sweep, evaluated at the state's own policy action
    n = fresh("state")
    s_n = I.elem(S("problem.state_space"), n)
    a_n = I.elem(POL, ("app", "problem.state_to_index", (s_n,)))
    I2 = solver_interp(ctx, cls, "span")
    q = I2.call_method("_calculate_updated_state_action_value", [s_n, a_n, S("problem.random_event_space"), GAMMA, VAL])
    want = ("lam", n, "state", q)
    ok = not interfering and same(t, want)
    has_action_red = any(x[0] == "red" and x[3] == "act" for x in subterms(t))
    col.add("R5.1", "PolicyIteration._calculate_policy_values", file, fn.lineno, ok,
            "kernel == [n -> Q(s_n, POLICY[state_to_index(s_n)])], no action reduction" if ok else
            ("a batch index survives un-batching (positional pairing of states and policy rows): " if interfering else
             "reduces over actions: " if has_action_red else "kernel differs from the documented evaluation: ") + brief(t, 260),
            text="evaluation kernel term")
    col.saw("terms", "PI evaluation kernel = " + show_norm(t)[:300])


def _eval_loop(ctx, cls, file, col):
    owner, fn = ctx.ct.require(cls, "_evaluate_policy")
    loops = [s for s in fn.body if isinstance(s, ast.For)]
    construct = "PolicyIteration._evaluate_policy"
    if len(loops) != 1:
        raise AnalysisError(f"anchor vanished: {construct} has {len(loops)} top-level for loops")
    lp = loops[0]
    it = lp.iter
    # trip count == max_eval_iter: range(n), range(0, n), range(k, n + k) ...
    ok_range = False
    if isinstance(it, ast.Call) and isinstance(it.func, ast.Name) and it.func.id == "range" and 1 <= len(it.args) <= 2 and not it.keywords:
        def budget_term(e):
            class R(ast.NodeTransformer):
                def visit_Attribute(self, n):
                    if ast.unparse(n) in ("self.config.max_eval_iter", "self.max_eval_iter"):
                        return ast.Name(id="BUDGET__", ctx=ast.Load())
                    return n
            import copy
            return R().visit(copy.deepcopy(e))
        try:
            from ..interp import Frame as _F
            I0 = solver_interp(ctx, cls, "span")
            env0 = {"BUDGET__": S("BUDGET")}
            hi = I0.ev(budget_term(it.args[-1]), env0, _F(owner, owner.module, fn))
            lo = I0.ev(budget_term(it.args[0]), env0, _F(owner, owner.module, fn)) if len(it.args) == 2 else ZERO
            ok_range = T_sub(hi, lo) == S("BUDGET")
        except Unsupported:
            ok_range = False
    col.add("R5.2", construct, file, lp.lineno, ok_range,
            "evaluation budget is range(self.config.max_eval_iter)" if ok_range else f"loop runs over `{ast.unparse(it)}`",
            text="evaluation budget")
    # kernel calls in the loop
    kcalls = []
    for s in lp.body:
        for c in calls_in(s):
            if self_call_name(c) == "_calculate_policy_values":
                kcalls.append((s, c))
    outside = [c for s in fn.body if s is not lp for c in calls_in(s) if self_call_name(c) == "_calculate_policy_values"]
    ok_one = len(kcalls) == 1 and not outside and kcalls[0][0] in lp.body and isinstance(kcalls[0][0], ast.Assign)
    why = "one kernel application per evaluation iteration"
    newname = cur = None
    if ok_one:
        s, c = kcalls[0]
        newname = s.targets[0].id if isinstance(s.targets[0], ast.Name) else None
        params = [a.arg for a in fn.args.args if a.arg != "self"]
        ok_one = (newname is not None and len(c.args) == 2 and isinstance(c.args[0], ast.Name) and c.args[0].id == params[0]
                  and isinstance(c.args[1], ast.Name))
        cur = c.args[1].id if ok_one else None
        why = f"kernel applied to (policy parameter, current iterate `{cur}`)" if ok_one else f"kernel called as `{norm_text(c)}`"
    else:
        why = f"{len(kcalls)} kernel calls in the loop, {len(outside)} outside"
    col.add("R5.2", construct, file, lp.lineno, ok_one, why, text="kernel call per iteration")
    # chaining and return
    ok_chain = False
    why = "cannot identify the iterate variable"
    if cur and newname:
        updates = [s for s in lp.body if isinstance(s, ast.Assign) and len(s.targets) == 1
                   and isinstance(s.targets[0], ast.Name) and s.targets[0].id == cur]
        chain_ok = len(updates) == 1 and isinstance(updates[0].value, ast.Name) and updates[0].value.id == newname \
            and lp.body.index(updates[0]) > lp.body.index(kcalls[0][0])
        rets = [s for s in ast.walk(fn) if isinstance(s, ast.Return)]
        ret_ok = len(rets) == 1 and isinstance(rets[0].value, ast.Name) and rets[0].value.id in (cur, newname)
        # initialisation of the iterate before the loop from the starting values / self.values
        pre = [s for s in ast.walk(ast.Module(body=fn.body[: fn.body.index(lp)], type_ignores=[]))
               if isinstance(s, ast.Assign) and any(isinstance(t, ast.Name) and t.id == cur for t in s.targets)]
        init_ok = bool(pre)
        ok_chain = chain_ok and ret_ok and init_ok
        why = (f"`{cur}` is initialised before the loop, replaced by the kernel result each iteration, and an iterate is returned"
               if ok_chain else f"chain ok={chain_ok}, return ok={ret_ok}, initialised={init_ok}")
    col.add("R5.2", construct, file, lp.lineno, ok_chain, why, text="iterate chaining and return")
    # starting point options
    src = ast.unparse(fn)
    ok_start = "self.initial_values" in src and "self.config.reset_values_for_each_policy_eval" in src and "self.values" in src
    col.add("R5.2", construct, file, fn.lineno, ok_start,
            "starts from the stored initial values when reset_values_for_each_policy_eval, else from the current values" if ok_start else
            "starting values do not follow reset_values_for_each_policy_eval", text="starting values")


def _change_count(ctx, cls, file, col):
    owner, fn = ctx.ct.require(cls, "_iteration_step")
    from .common import returned_expr
    rv = returned_expr(fn)
    construct = "PolicyIteration._iteration_step"
    if not isinstance(rv, ast.Tuple) or len(rv.elts) != 2 or not all(isinstance(e, ast.Name) for e in rv.elts):
        raise AnalysisError(f"{construct}: expected `return new_policy, n_changed`")
    pol_name, cnt_name = (e.id for e in rv.elts)
    # the statements after the one that binds the new policy are interpreted as a block (temporaries included)
    pdefs = [k for k, s in enumerate(fn.body) if isinstance(s, ast.Assign) and len(s.targets) == 1 and isinstance(s.targets[0], ast.Name) and s.targets[0].id == pol_name]
    if len(pdefs) != 1:
        raise AnalysisError(f"{construct}: new policy `{pol_name}` is not defined by a single top-level assignment")
    rest = fn.body[pdefs[0] + 1:]
    # backward slice of the returned count: only the assignments it depends on
    need = {cnt_name}
    keep = []
    for s_ in reversed(rest):
        if isinstance(s_, ast.Return):
            keep.append(s_)
            need |= {n.id for n in ast.walk(s_) if isinstance(n, ast.Name)} - {pol_name}
        elif isinstance(s_, ast.Assign) and {n.id for t_ in s_.targets for n in ast.walk(t_) if isinstance(n, ast.Name) and isinstance(n.ctx, ast.Store)} & need:
            keep.append(s_)
            need |= {n.id for n in ast.walk(s_.value) if isinstance(n, ast.Name)}
    rest = list(reversed(keep))
    defs = [s for s in rest if isinstance(s, ast.Assign) and any(isinstance(n, ast.Name) and n.id == cnt_name for t_ in s.targets for n in ast.walk(t_))] or [fn.body[pdefs[0]]]
    I = solver_interp(ctx, cls, "span")
    I.axes["NEWPOL"] = ("state", "adim")
    env = {"self": ("self",), pol_name: S("NEWPOL")}
    try:
        r = I.block(rest, env, Frame(owner, owner.module, fn))
    except Unsupported as e:
        raise AnalysisError(f"{construct}: {e}") from e
    if r is None or r[0] != "tuple" or len(r[1]) != 2:
        raise AnalysisError(f"{construct}: expected `return new_policy, n_changed`")
    t = r[1][1]
    ok = False
    why = f"change count term {brief(t, 200)}"
    reds = []
    cur = t
    while cur[0] in ("red", "lam"):
        if cur[0] == "red":
            reds.append((cur[1], cur[3]))
            cur = cur[4]
        else:
            cur = cur[3]
    if len(reds) == 2 and cur[0] == "app" and cur[1] == "cmpNotEq":
        (outer, otag), (inner, itag) = reds
        leaf_ok = {show_norm(a).split("[")[0] for a in cur[2]} == {"NEWPOL", "POLICY"}
        if itag == "adim" and otag == "state" and leaf_ok:
            if inner in OR_LIKE and outer in OR_LIKE:
                ok = True
                why = f"count = {outer}_states({inner}_components(new != old)): a change in any component of any state is counted"
            elif inner in AND_LIKE:
                why = (f"component axis reduced with `{inner}`: a state counts as changed only if EVERY component of its action vector "
                       "changed, so policy iteration can stop while some action vector still differs in one component")
            else:
                why = f"reductions {outer}/{inner} are not recognised as change-detecting"
        else:
            why = f"reductions over axes ({otag}, {itag}) of {show_norm(cur)[:80]}"
    col.add("R5.3", construct, file, defs[0].lineno, ok, why, text="change count reductions")
    # solve breaks iff count == 0: decided under C08 R8.3 (PI instance); re-check the binding here
    loop = ctx.solve_loop(cls)
    brs = loop.breaks()
    okb = False
    if len(brs) == 1:
        ch = loop.break_guards(brs[0])
        if len(ch) == 1 and isinstance(ch[0][0], ast.If):
            tt = ch[0][0].test
            okb = isinstance(tt, ast.Compare) and len(tt.ops) == 1 and isinstance(tt.ops[0], ast.Eq) and ast.unparse(tt.comparators[0]) == "0"
    col.add("R5.3", "PolicyIteration.solve", loop.file, loop.header.lineno, okb,
            "solve stops iff the change count == 0" if okb else "solve's break is not `count == 0`", text="break on zero changes")


def _ordering(ctx, cls, file, col):
    owner, fn = ctx.ct.require(cls, "_iteration_step")
    g = cfg_of(fn)
    construct = "PolicyIteration._iteration_step"
    ev_nodes = [n for n in g.stmts() if isinstance(n.ast, ast.Assign) and any(is_self_attr(t, "values") for t in n.ast.targets)
                and any(self_call_name(c) == "_evaluate_policy" for c in calls_in(n.ast.value))]
    ex_nodes = [n for n in g.stmts() if n.kind == "stmt" and any(self_call_name(c) == "_extract_policy" for c in calls_in(n.ast))]
    ok = len(ev_nodes) == 1 and len(ex_nodes) == 1 and g.dominates(ev_nodes[0], ex_nodes[0])
    if ok:
        c = [c for c in calls_in(ev_nodes[0].ast.value) if self_call_name(c) == "_evaluate_policy"][0]
        ok = len(c.args) >= 1 and is_self_attr(c.args[0], "policy")
    col.add("R5.4", construct, file, fn.lineno, ok,
            "self.values = _evaluate_policy(self.policy) precedes the greedy extraction on every path" if ok else
            "evaluation of self.policy into self.values does not dominate _extract_policy()", text="evaluate before improve")
    # the returned policy is the extracted one
    from .common import returned_expr
    rv = returned_expr(fn)
    ok2 = False
    if ex_nodes and isinstance(rv, ast.Tuple) and isinstance(ex_nodes[0].ast, ast.Assign):
        tname = ex_nodes[0].ast.targets[0].id if isinstance(ex_nodes[0].ast.targets[0], ast.Name) else None
        ok2 = isinstance(rv.elts[0], ast.Name) and rv.elts[0].id == tname
        # no write to self.values between evaluation and return
        between = [n for n in g.stmts() if n not in ev_nodes and isinstance(n.ast, (ast.Assign, ast.AugAssign))
                   and any(is_self_attr(t, "values") for t in (n.ast.targets if isinstance(n.ast, ast.Assign) else [n.ast.target]))]
        ok2 = ok2 and not between
    col.add("R5.4", construct, file, fn.lineno, ok2,
            "the step returns the policy extracted from the evaluated values" if ok2 else
            "the returned policy is not the greedy extraction of the evaluated values", text="returned policy is greedy")
    # solve: no write of values outside the step
    loop = ctx.solve_loop(cls)
    writers = [n for n in loop.cfg.stmts() if "values" in loop.node_writes(n) and not loop.reaches_step(n)]
    col.add("R5.4", "PolicyIteration.solve", loop.file, loop.header.lineno, not writers,
            "nothing in solve rewrites self.values outside the step" if not writers else
            f"line {writers[0].lineno} rewrites self.values outside the step: {norm_text(writers[0].ast)}", text="values untouched after the step")
    # extraction uses self.values / self.gamma (inherited _extract_policy, decided under C02 R2.3)
    col.add("R5.4", "PolicyIteration", file, cls.node.lineno, "_extract_policy" not in cls.methods,
            "_extract_policy is ValueIteration's (greedy w.r.t. self.values, C02 R2.3)" if "_extract_policy" not in cls.methods else
            "PolicyIteration overrides _extract_policy", text="inherited extraction")


def _initial_policy(ctx, cls, file, col):
    owner, fn = ctx.ct.require(cls, "_initialize_policy")
    construct = "PolicyIteration._initialize_policy"
    tries = [s for s in fn.body if isinstance(s, ast.Try)]
    if len(tries) != 1:
        # another way of deciding whether the problem supplies an initial policy.  `Problem.initial_policy` raises NotImplementedError by
        # default, so a problem supplies one iff SOME class on its MRO below Problem (or the instance) defines it.  Tests that look at
        # one namespace only are wrong for the others; anything else is not a protocol this rule knows (no verdict).
        src_tests = [ast.unparse(n.test) for n in ast.walk(fn) if isinstance(n, (ast.If, ast.IfExp))]
        narrow = [t for t in src_tests if "initial_policy" in t and ("vars(" in t or "__dict__" in t)]
        always = [t for t in src_tests if "initial_policy" in t and ("hasattr(" in t or "callable(" in t)]
        if narrow:
            col.add("R5.5", construct, file, fn.lineno, False,
                    f"`{narrow[0][:90]}` looks for initial_policy in one namespace only: a policy inherited from an intermediate base class or a mixin "
                    "(or set on the instance) is not found there, and the solver silently starts from the greedy fallback instead of the supplied policy",
                    text="initial policy protocol")
            return
        if always:
            col.add("R5.5", construct, file, fn.lineno, False,
                    f"`{always[0][:90]}` is true for every problem (Problem itself defines initial_policy, raising NotImplementedError): the fallback is "
                    "never taken and problems without an initial policy fail", text="initial policy protocol")
            return
        raise AnalysisError(f"{construct}: the choice between the problem's initial policy and the greedy fallback is not made by try / except "
                            "NotImplementedError; R5.5 does not know this protocol")
    tr = tries[0]
    hs = tr.handlers
    ok_h = len(hs) == 1 and hs[0].type is not None and ast.unparse(hs[0].type) == "NotImplementedError"
    col.add("R5.5", construct, file, (hs[0].lineno if hs else tr.lineno), ok_h,
            "falls back only on NotImplementedError" if ok_h else
            f"fallback catches {[ast.unparse(h.type) if h.type else 'everything' for h in hs]}: a failing problem.initial_policy would be silently replaced",
            text="fallback exception type")
    ok_fb = ok_h and any(self_call_name(c) == "_extract_policy" for s in hs[0].body for c in calls_in(s))
    col.add("R5.5", construct, file, (hs[0].lineno if hs else tr.lineno), ok_fb,
            "fallback is the greedy policy of the current (zero) values" if ok_fb else "fallback is not _extract_policy()", text="fallback policy")
    I = solver_interp(ctx, cls, "span")
    try:
        t = I.call_method("_initialize_policy")
    except Unsupported as e:
        raise AnalysisError(f"{construct}: {e}") from e
    n = fresh("state")
    want = ("lam", n, "state", ("app", "problem.initial_policy", (I.elem(S("problem.state_space"), n),)))
    ok_t = same(t, want)
    col.add("R5.5", construct, file, tr.lineno, ok_t,
            "preferred policy == [n -> problem.initial_policy(state_space[n])]" if ok_t else f"preferred policy is {brief(t, 160)}",
            text="problem-supplied policy")
    # constructor order
    o2, f2 = ctx.ct.require(cls, "_initialize_solver_state_elements")
    I2 = solver_interp(ctx, cls, "span", extra_facts={"values": S("UNSET")})
    I2.call_method("_initialize_solver_state_elements")
    seq = [(a, v) for a, v, _ in I2.attr_writes if a in ("values", "policy")]
    names = [a for a, _ in seq]
    zeros = ("app", "zeros", (S("problem.n_states"),))
    n2 = fresh("state")
    init_vals = ("lam", n2, "state", ("app", "problem.initial_value", (I2.elem(S("problem.state_space"), n2),)))
    ok_o = (names == ["values", "policy", "values"] and seq[0][1] == zeros and same(seq[2][1], init_vals))
    col.add("R5.5", "PolicyIteration._initialize_solver_state_elements", o2.module.relpath, f2.lineno, ok_o,
            "values := zeros; policy := initial policy; values := problem initial values (in that order)" if ok_o else
            f"constructor writes {names} with first values = {brief(seq[0][1], 60) if seq else None}: the fallback policy must be greedy w.r.t. "
            "ZERO values (it maximises immediate reward) and the real initial values come afterwards", text="constructor order")
