#!/usr/bin/env python3
"""Cross-check of the self-test catalogue: run EVERY variant (seeded and benign) against EVERY
property's rule set.  Benign variants must be silent everywhere; for seeded variants the matrix
shows which checks catch which edits.  Writes selftest_matrix.json (informational, not evidence)."""
import json
import os
import sys
from concurrent.futures import ProcessPoolExecutor
from pathlib import Path

here = Path(__file__).resolve().parent
sys.path.insert(0, str(here))

from mdpaxlint.cli import ALL_PROPS, rule_module  # noqa: E402
from mdpaxlint.loader import repo_root  # noqa: E402
from mdpaxlint.selftest.mutants import BENIGN, MUTANTS  # noqa: E402
from mdpaxlint.selftest.runner import run_variant  # noqa: E402


def job(args):
    root, v, prop = args
    r = run_variant((root, v, prop))
    return v["id"], prop, r


def main():
    root = str(repo_root())
    props = [p for p in ALL_PROPS if rule_module(p) is not None]
    jobs = [(root, v, p) for v in MUTANTS + BENIGN for p in props]
    out = {}
    with ProcessPoolExecutor(max_workers=min(16, os.cpu_count() or 1)) as ex:
        for vid, prop, r in ex.map(job, jobs, chunksize=8):
            out.setdefault(vid, {})[prop] = {"status": r["status"], "rules": r.get("rules", []), "why": r.get("why", "")[:160]}
    bad = []
    for b in BENIGN:
        for p, r in out[b["id"]].items():
            if p in b.get("not_benign_for", []):
                continue
            if r["status"] not in ("silent", "selftest-skipped"):
                bad.append((b["id"], p, r))
    matrix = {}
    for m in MUTANTS:
        caught = {p: r["rules"] for p, r in out[m["id"]].items() if r["status"] == "fired"}
        errs = {p: r["why"] for p, r in out[m["id"]].items() if r["status"] == "analysis-error"}
        matrix[m["id"]] = {"prop": m["prop"], "note": m.get("note", ""), "caught_by": caught, "analysis_errors": errs}
    (here / "selftest_matrix.json").write_text(json.dumps({"matrix": matrix, "benign_alarms": bad}, indent=1, default=str))
    skipped = sorted({v for v in out for r in out[v].values() if r["status"] == "selftest-skipped"})
    if skipped:
        print("CATALOGUE ROT: variants whose anchor text is not in the tree (never exercised):", skipped)
    print(f"{len(MUTANTS)} seeded, {len(BENIGN)} benign variants x {len(props)} properties")
    for b in bad:
        print("BENIGN VARIANT NOT SILENT:", b[0], b[1], b[2]["status"], b[2].get("rules"), b[2].get("why"))
    ncross = sum(1 for m in matrix.values() if len(m["caught_by"]) > 1)
    nerr = sum(1 for m in matrix.values() if m["analysis_errors"])
    print(f"seeded variants caught by more than one property's check: {ncross}; with an ANALYSIS-ERROR in some other check: {nerr}")
    return 1 if bad else 0


if __name__ == "__main__":
    sys.exit(main())
