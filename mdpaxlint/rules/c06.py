"""C06 - the semi-asynchronous sweep is block Gauss-Seidel in the documented order."""

from __future__ import annotations

import ast

from ..effects import is_self_attr
from ..loader import AnalysisError
from ..terms import S, show_norm, subterms
from .common import Context, calls_in
from .kernels import EVENTS, SS, bellman_oracle, q_oracle, run_method
from .savi import N_STATES, SaviSweep, analyse_recurrence, perm_rewrite
from .solverterms import GAMMA, VALUES, brief, same, solver_interp

PROP = "C06"
EXPLANATION = (
    "The scan body of the semi-asynchronous kernel is abstractly interpreted twice - once with the "
    "real initial carry, once with the evolving carry component replaced by a symbol - which exposes "
    "one symbolic step of the recurrence carry' = F(carry, batch).  Decided for every partition at "
    "once: only the values component evolves; the batch's new values are the Bellman backup computed "
    "from the CARRIED values (not the closed-over previous sweep); the carry changes only by the "
    "masked scatter of those values at state_to_index(batch rows); the scan outputs are the unmasked "
    "new values and go through un-batching.  Shuffle branch: the key attribute is re-bound to the first "
    "half of random.split every sweep and the permutation is drawn from the second half over "
    "arange(n_states); states are gathered by that permutation p and the result is re-indexed by "
    "argsort(p), which the rewrite p[argsort(p)[m]] -> m reduces to natural order with no occurrence of "
    "p left; the seed reaches PRNGKey; the overridden state-action term equals ValueIteration's (same "
    "fixed point); no live code writes batch_order.  Does not decide which permutation a seed yields."
    ' Also decides (R6.7) that nothing the sweep uses is cached in module-level / class-level containers or on the problem object (shared between solvers with other partitions).'
)
RULES = {
    "R6.1": "one evolving carry component (values); batch values = Bellman backup from the CARRIED values; carry' = masked scatter of them at state_to_index(rows)",
    "R6.2": "scan outputs are the unmasked new batch values and are un-batched into natural state order",
    "R6.3": "shuffle: key <- split(key)[0], permutation(split(key)[1], arange(n_states)), gather by p, re-index by an inverse of the same p (p[argsort(p)[m]] -> m leaves no p)",
    "R6.4": "self.key = PRNGKey(config.random_seed)",
    "R6.5": "SemiAsyncValueIteration's overridden state-action term equals ValueIteration's (same fixed point as synchronous VI)",
    "R6.7": "the sweep of one solver is built from that solver's own partition, order and key: no module-level / class-level container and nothing on the problem object is written by the package (a compiled shuffle or sweep function cached there belongs to the first solver that made it) - instances of C19 R19.5, expected count zero",
    "R6.6": "batch_order is written only by the constructor (None) and by _restore_state_from_checkpoint in live code",
}
ASSUMPTIONS = [
    "lax.scan threads the carry batch after batch on each device; pmap gives each device its own copy of the broadcast carry",
    "jax.random.permutation returns a permutation of its second argument; argsort of a permutation is its inverse",
]


def run(ctx: Context, col) -> None:
    from .c12 import _shared_state
    _shared_state(ctx, col, "R6.7")
    col.floor("R6.7", 2)
    cls = ctx.ct.get("SemiAsyncValueIteration")
    file = cls.module.relpath
    ko, kfn = ctx.ct.require(cls, "_calculate_updated_value_scan_state_batches")
    for shuffle in (False, True):
        sw = SaviSweep(ctx, shuffle)
        tag = "shuffle" if shuffle else "fixed order"
        f = analyse_recurrence(sw)
        ok1 = bool(f.get("ok_single_recurrence") and f.get("only_values_evolve") and f.get("scatter_shape")
                   and f.get("index_ok") and f.get("new_ok") and f.get("keep_ok") and f.get("mask_ok"))
        why = "values are the only evolving carry; batch = Bellman(carried values); carry' = scatter at state_to_index(rows)"
        if not ok1:
            if not f.get("ok_single_recurrence"):
                why = "the scan carry is returned unchanged: later batches do not see updated values (degenerates to Jacobi). " + f["details"].get("why", "")
            elif f.get("mask_ok") is False and f.get("new_ok") and f.get("keep_ok"):
                why = ("the scatter is not masked by (flat slot index >= n_states): real states may be skipped or padded rows written, so a sweep "
                       "does not update every state exactly once - " + f["details"].get("mask", "")[:160])
            elif f.get("new_ok") is False:
                why = "the batch's new values are not the Bellman backup of the CARRIED values (computed from the previous sweep's values?)"
            else:
                why = f["details"].get("why", "recurrence step differs from the documented block Gauss-Seidel update")
        col.add("R6.1", f"SemiAsyncValueIteration.scan_fn[{tag}]", file, kfn.lineno, ok1, why, text=f"recurrence [{tag}]")
        ok2 = bool(f.get("y_ok")) and sw.new is not None and perm_rewrite(sw.new)[0] == "lam" and not any(u["interference"] for u in sw.I.unbatch_log)
        col.add("R6.2", f"SemiAsyncValueIteration.scan_fn[{tag}]", file, kfn.lineno, ok2,
                "scan outputs = unmasked Bellman(carried values) per slot, un-batched with no batch index left" if ok2 else
                "scan outputs are not the new batch values / un-batching leaves a batch index", text=f"scan outputs [{tag}]")
        # natural order of the returned vector
        if sw.new is not None:
            got = perm_rewrite(sw.new)
            want = bellman_oracle(sw.I, values=f.get("carry_in") or VALUES, gamma=GAMMA)
            okn = same(got, want)
            leftover = any(t[0] == "app" and t[1] in ("permutation", "argsort") for t in subterms(got))
            uo, ufn = ctx.ct.require(cls, "_update_values")
            if shuffle:
                key_after = sw.I.attrs.get("key")
                key_ok = key_after == ("app", "split0", (S("KEY"),))
                perms = {t for t in subterms(sw.new) if t[0] == "app" and t[1] == "permutation"}
                perm_ok = perms == {("app", "permutation", (("app", "split1", (S("KEY"),)), ("app", "arange", (N_STATES,))))}
                ok3 = okn and not leftover and key_ok and perm_ok
                col.add("R6.3", "SemiAsyncValueIteration._update_values[shuffle]", file, ufn.lineno, ok3,
                        "key <- split0; p = permutation(split1, arange(n_states)); result[m] = Bellman(state_space[m]) after p[argsort(p)[m]] -> m" if ok3 else
                        ("the permutation survives re-ordering: values are returned in a permuted, not natural, state order" if leftover else
                         f"key after sweep = {show_norm(key_after) if key_after else None} (expected split0(key)); permutation terms = "
                         f"{[show_norm(p)[:80] for p in perms]}" if not (key_ok and perm_ok) else
                         f"re-ordered term differs from the natural-order backup: {brief(got, 240)}"),
                        text="shuffle branch")
            else:
                col.add("R6.2", "SemiAsyncValueIteration._update_values[fixed order]", file, ufn.lineno, okn and not leftover,
                        "result[m] = Bellman_from_carry(state_space[m]) in natural order" if okn and not leftover else
                        f"returned vector is {brief(got, 240)}", text="natural order [fixed]")
    # R6.4
    so, sfn = ctx.ct.require(cls, "_setup_config")
    keys = [s for s in ast.walk(sfn) if isinstance(s, ast.Assign) and any(is_self_attr(t, "key") for t in s.targets)]
    ok4 = len(keys) == 1 and isinstance(keys[0].value, ast.Call) and ast.unparse(keys[0].value.func).endswith("PRNGKey") \
        and len(keys[0].value.args) == 1 and ast.unparse(keys[0].value.args[0]) == "self.config.random_seed"
    col.add("R6.4", "SemiAsyncValueIteration._setup_config", so.module.relpath, sfn.lineno, ok4,
            "self.key = PRNGKey(self.config.random_seed)" if ok4 else
            f"key initialised as `{ast.unparse(keys[0].value) if keys else None}`: the sequence of sweeps is not reproducible from random_seed",
            text="seed reaches the key")
    # other writers of key: only _update_values (split) in live code
    # R6.5
    vi = ctx.ct.get("ValueIteration")
    st, ac = S("STATE"), S("ACTION")
    I1 = solver_interp(ctx, cls, "span")
    I2 = solver_interp(ctx, vi, "span")
    for I in (I1, I2):
        I.axes.update({"STATE": ("sdim",), "ACTION": ("adim",)})
    q1 = I1.call_method("_calculate_updated_state_action_value", [st, ac, EVENTS, GAMMA, VALUES])
    q2 = I2.call_method("_calculate_updated_state_action_value", [st, ac, EVENTS, GAMMA, VALUES])
    want = q_oracle(I1, st, ac)
    ok5 = same(q1, q2) and same(q1, want)
    qo, qfn = ctx.ct.require(cls, "_calculate_updated_state_action_value")
    col.add("R6.5", "SemiAsyncValueIteration._calculate_updated_state_action_value", qo.module.relpath, qfn.lineno, ok5,
            "overridden Q-term == ValueIteration's == documented expectation" if ok5 else
            f"overridden Q-term {brief(q1, 260)} differs from ValueIteration's", text="overridden Q-term")
    m1 = I1.call_method("_calculate_updated_value", [st, S("problem.action_space"), EVENTS, GAMMA, VALUES])
    m2 = I2.call_method("_calculate_updated_value", [st, S("problem.action_space"), EVENTS, GAMMA, VALUES])
    col.add("R6.5", "SemiAsyncValueIteration._calculate_updated_value", qo.module.relpath,
            ctx.ct.require(cls, "_calculate_updated_value")[1].lineno, same(m1, m2),
            "overridden per-state maximum == ValueIteration's" if same(m1, m2) else f"overridden per-state value {brief(m1, 200)} differs from ValueIteration's",
            text="overridden max term")
    # R6.6 writers of batch_order in live code
    eff = ctx.effects(cls)
    def reach(roots):
        seen_ = {}
        stack = [ctx.ct.lookup(cls, r) for r in roots if ctx.ct.lookup(cls, r)]
        while stack:
            o, fn = stack.pop()
            kq = (o.qualname, fn.name)
            if kq in seen_:
                continue
            seen_[kq] = (o, fn)
            if fn.name == "_restore_state_from_checkpoint" and "_restore_state_from_checkpoint" not in roots:
                continue  # what the restore does is judged separately
            stack.extend(eff.callees(fn, o))
        return seen_
    seen = reach(["__init__", "solve", "load_checkpoint", "restore", "save", "_restore_state_from_checkpoint"])
    live = reach(["__init__", "solve", "load_checkpoint", "restore", "save"])
    # a method that only the restore reaches (a restore hook) writes what a checkpoint holds, like the restore itself
    only_restore = {fn.name for kq, (o, fn) in seen.items() if kq not in live}
    writers = sorted("_restore_state_from_checkpoint" if fn.name in only_restore else fn.name
                     for (o, fn) in seen.values() if "batch_order" in eff.direct(fn)[1])
    # the constructor's None and a restore from a checkpoint (which can only bring back that None) are the only writers
    ok6 = not (set(writers) - {"_initialize_solver_state_elements", "_restore_state_from_checkpoint"}) \
        and "_initialize_solver_state_elements" in writers
    # and the constructor writes None
    io, ifn = ctx.ct.require(cls, "_initialize_solver_state_elements")
    nones = [s for s in ast.walk(ifn) if isinstance(s, ast.Assign) and any(is_self_attr(t, "batch_order") for t in s.targets)]
    ok6 = ok6 and len(nones) == 1 and isinstance(nones[0].value, ast.Constant) and nones[0].value.value is None
    dead = sorted(n for n in cls.methods if (cls.qualname, n) not in seen and not n.startswith("__"))
    col.add("R6.6", "SemiAsyncValueIteration.batch_order", file, cls.node.lineno, ok6,
            f"live writers of batch_order: {writers} (None at construction); dead code not analysed: {dead}" if ok6 else
            f"batch_order is written by live code {writers}: batches would no longer be taken in natural order", text="writers of batch_order")
    for r_, n in (("R6.1", 2), ("R6.2", 2), ("R6.3", 1), ("R6.4", 1), ("R6.5", 2), ("R6.6", 1)):
        col.floor(r_, n)
