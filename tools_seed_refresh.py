#!/usr/bin/env python3
"""Re-evaluate every stored seed with today's checks and refresh `reported_by` / `analysis_errors` in its meta.json
(the first-evaluation record is kept under `reported_by_when_stored`)."""
import json
import subprocess
import sys
from pathlib import Path

here = Path(__file__).resolve().parent
for d in sorted((here / "seeded").iterdir()):
    if not (d / "patch.diff").exists():
        continue
    meta = json.loads((d / "meta.json").read_text())
    ev = subprocess.run([sys.executable, str(here / "tools_seed_eval.py"), str(d / "patch.diff"), "--json"], capture_output=True, text=True)
    try:
        r = json.loads(ev.stdout)
    except ValueError:
        print(d.name, "eval failed", ev.stdout[-200:], ev.stderr[-200:])
        continue
    new = {p: v["reports"] for p, v in r["fired"].items()}
    if "reported_by_when_stored" not in meta:
        meta["reported_by_when_stored"] = meta.get("reported_by", {})
    meta["reported_by"] = new
    meta["analysis_errors"] = {p: v["reports"] for p, v in r["errors"].items()}
    meta["detected"] = bool(new)
    (d / "meta.json").write_text(json.dumps(meta, indent=1) + "\n")
    print(d.name, sorted(new), "errors", sorted(meta["analysis_errors"]))
