#!/usr/bin/env python3
"""Metamorphic robustness test of the checks: apply the behaviour-preserving whole-tree transformations
of mdpaxlint/selftest/metamorphic.py to today's source (in memory) and require every check to stay silent.
usage: tools_metamorphic.py [T1 T2 ...]   (default: all)"""
import sys
from concurrent.futures import ProcessPoolExecutor
from pathlib import Path

here = Path(__file__).resolve().parent
sys.path.insert(0, str(here))

from mdpaxlint.cli import ALL_PROPS, rule_module  # noqa: E402
from mdpaxlint.loader import repo_root  # noqa: E402
from mdpaxlint.selftest.metamorphic import TRANSFORMS, run_transform  # noqa: E402


def main():
    names = [a for a in sys.argv[1:] if a in TRANSFORMS] or list(TRANSFORMS)
    root = repo_root()
    props = [p for p in ALL_PROPS if rule_module(p) is not None]
    jobs = [(t, p, str(root)) for t in names for p in props]
    bad = 0
    with ProcessPoolExecutor(max_workers=16) as ex:
        for t, p, status, why in ex.map(run_transform, jobs):
            if status != "silent":
                bad += 1
                print(f"{t} {p}: {status}: {why}")
    print(f"{len(jobs)} (transformation, property) pairs, {bad} not silent")
    return 1 if bad else 0


if __name__ == "__main__":
    sys.exit(main())
