"""check <property> [quick|thorough] - verdict protocol of DESIGN.md section 4.

exit 0: every rule instance holds (KNOWN-FINDING lines for listed findings)
exit 1: a violation not listed in known_findings.json (VIOLATION line + replay file)
exit 2: ANALYSIS-ERROR (anchor vanished, unsupported construct, count floor missed,
        self-test variant not detected)"""

from __future__ import annotations

import importlib
import json
import os
import sys
import time
import traceback
from pathlib import Path

from .loader import AnalysisError, Repo
from .report import (
    Collector,
    load_known_findings,
    match_known,
    write_evidence,
    write_violation_file,
)

ALL_PROPS = [f"C{n:02d}" for n in range(1, 21)]


def rule_module(prop: str):
    try:
        return importlib.import_module(f"mdpaxlint.rules.{prop.lower()}")
    except ModuleNotFoundError as e:
        if e.name and e.name.endswith(prop.lower()):
            return None
        raise


def analyse(prop: str, repo: Repo) -> Collector:
    from .rules.common import Context

    mod = rule_module(prop)
    if mod is None:
        raise AnalysisError(f"no rule set for {prop}")
    col = Collector(prop)
    ctx = Context(repo)
    try:
        mod.run(ctx, col)
    except AnalysisError as e:
        # the analysis could not be completed; rule instances decided before that point stand.
        # A violation among them is still a violation; otherwise the run is an ANALYSIS-ERROR.
        if not col.failures():
            raise
        col.notes.append(f"analysis incomplete: {e}")
        col.incomplete = str(e)
        return col
    for rule, n in col.floors.items():
        have = col.count(rule)
        if have < n and col.failures():
            # fewer instances than confirmed by hand, but some of those examined already fail: the failures stand (a violation decided
            # before the analysis lost track is still a violation), the run is marked incomplete
            col.incomplete = (f"count floor missed: rule {rule} examined {have} instances, at least {n} were confirmed by hand on the reference tree")
            col.notes.append(f"analysis incomplete: {col.incomplete}")
            break
        if have < n:
            raise AnalysisError(
                f"count floor missed: rule {rule} examined {have} instances, at least {n} were "
                "confirmed by hand on the reference tree (a rule that matches nothing passes vacuously)"
            )
    return col


def run_check(prop: str, tier: str, repo_root=None, explain=None, quiet=False) -> int:
    t0 = time.time()
    mod = rule_module(prop)
    if mod is None:
        print(f"ANALYSIS-ERROR property={prop} no rule set registered")
        return 2
    try:
        repo = Repo(Path(repo_root) if repo_root else None)
        col = analyse(prop, repo)
    except AnalysisError as e:
        print(f"ANALYSIS-ERROR property={prop} {e}")
        return 2
    except RecursionError:
        print(f"ANALYSIS-ERROR property={prop} recursion limit during analysis")
        return 2
    except Exception as e:  # a crash of the analyser is never a verdict
        traceback.print_exc()
        print(f"ANALYSIS-ERROR property={prop} internal error: {type(e).__name__}: {e}")
        return 2

    kf = load_known_findings()
    known = kf.get("known", [])
    fails = col.failures()
    new_fails, known_hits = [], []
    for f in fails:
        k = match_known(f, prop, known)
        if k is not None:
            known_hits.append({"rule": f.rule, "construct": f.construct, "what": k.get("what", f.detail)})
            print(f"KNOWN-FINDING: property={prop} {f.rule} {f.construct} - {k.get('what', f.detail)}")
        else:
            new_fails.append(f)
    if explain:
        want = {v["key"] for v in json.loads(Path(explain).read_text()).get("violations", [])}
        for i in col.instances:
            if i.key in want:
                print(f"{i.where()}  {i.rule}  {i.construct}  {'holds' if i.ok else 'FAILS'}: {i.detail}")

    selftest = None
    st_rc = 0
    if tier == "thorough" and not new_fails:
        from .selftest.runner import run_selftest

        selftest, st_rc = run_selftest(prop, repo, quiet=quiet)

    checker_cmd = f"./check {prop} {tier}"
    ev = write_evidence(
        prop, tier, col, time.time() - t0, mod.RULES, mod.EXPLANATION, mod.ASSUMPTIONS,
        len(new_fails), checker_cmd, selftest=selftest, known_hits=known_hits,
    )
    if not quiet:
        per = {}
        for i in col.instances:
            per.setdefault(i.rule, [0, 0])
            per[i.rule][0] += 1
            per[i.rule][1] += int(i.ok)
        print(f"[{prop}] {tier}: {len(col.instances)} rule instances over {repo.root} "
              f"(digest {repo.digest()}); " + ", ".join(f"{r} {v[1]}/{v[0]}" for r, v in sorted(per.items())))
    if getattr(col, "incomplete", None) and not new_fails:
        print(f"ANALYSIS-ERROR property={prop} {col.incomplete}")
        return 2
    if new_fails:
        if getattr(col, "incomplete", None):
            print(f"note: analysis incomplete after these reports ({col.incomplete})")
        for f in new_fails:
            print(f"{f.where()}  {f.rule}  {f.construct}  {f.detail}")
        vf = write_violation_file(prop, new_fails)
        print(f"VIOLATION property={prop} replay={vf}")
        return 1
    if st_rc:
        print(f"ANALYSIS-ERROR property={prop} self-test: a seeded variant was not detected or a benign variant raised an alarm (see {ev})")
        return 2
    print(f"OK property={prop} evidence={ev}")
    return 0


def main(argv=None) -> int:
    argv = list(sys.argv[1:] if argv is None else argv)
    repo_root = None
    explain = None
    if "--repo" in argv:
        i = argv.index("--repo")
        repo_root = argv[i + 1]
        del argv[i:i + 2]
    if "--explain" in argv:
        i = argv.index("--explain")
        explain = argv[i + 1]
        del argv[i:i + 2]
    if "--replay" in argv:
        i = argv.index("--replay")
        explain = argv[i + 1]
        del argv[i:i + 2]
    if not argv:
        print("usage: check <Cnn|all> [quick|thorough] [--repo PATH] [--explain FILE]")
        return 2
    _reexec_if_newer_syntax(repo_root, list(sys.argv))
    prop = argv[0].upper()
    tier = argv[1] if len(argv) > 1 else os.environ.get("VERIF_TIER", "quick")
    if tier not in ("quick", "thorough"):
        tier = "quick"
    if prop == "ALL":
        rc = 0
        for p in ALL_PROPS:
            if rule_module(p) is None:
                continue
            r = run_check(p, tier, repo_root)
            rc = max(rc, r)
        return rc
    return run_check(prop, tier, repo_root, explain)


def _reexec_if_newer_syntax(root, full_argv):
    """The package is written for the repository's own interpreter (/venv, Python 3.12); this analyser normally runs under the
    system python3 (3.11).  If some source file uses syntax this interpreter cannot parse but the repository's can, run the
    same check under that interpreter instead (text analysis only - mdpax is still never imported)."""
    import ast
    from pathlib import Path

    if os.environ.get("MDPAXLINT_REEXEC"):
        return
    base = Path(root or os.environ.get("MDPAX_REPO") or "/repo") / "src" / "mdpax"
    try:
        for f in sorted(base.rglob("*.py")):
            ast.parse(f.read_text())
        return
    except SyntaxError:
        pass
    except OSError:
        return
    alt = "/venv/bin/python"
    if os.path.exists(alt) and os.path.realpath(alt) != os.path.realpath(sys.executable):
        env = dict(os.environ, MDPAXLINT_REEXEC="1")
        os.execve(alt, [alt, "-m", "mdpaxlint.cli"] + full_argv[1:], env)


if __name__ == "__main__":
    sys.exit(main())
