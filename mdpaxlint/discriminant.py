"""Discriminant folding (part of the canonical program form, see canon.py).

A method may classify its situation once into a local discriminant - an Enum member or a literal - and branch on the
discriminant later:

    if self.checkpoint_frequency == 0: mode = Mode.DISABLED
    elif self.has_full_config:         mode = Mode.FULL
    else:                              mode = Mode.LIGHTWEIGHT
    ...
    if mode is Mode.DISABLED: ...            # == `if self.checkpoint_frequency == 0:`
    ...
    if mode == Mode.FULL: ...                # == `if not self.checkpoint_frequency == 0 and self.has_full_config:`

The rules read path conditions, so every later test of the discriminant against one of its possible values is replaced by the
condition under which it has that value.  Preconditions: the discriminant is a local assigned only by that one decision chain
(leaves `name = <constant | Enum member>`, possibly through the result variable of an inlined getter), the chain's conditions
are effect-free, and nothing between the chain and the test can write what the conditions read (transitive self-attribute
effects, for every concrete class that has the method).  Otherwise nothing is rewritten."""

from __future__ import annotations

import ast
import copy

from .effects import Effects


def _const_key(e: ast.AST):
    if isinstance(e, ast.Constant):
        return ("c", repr(e.value))
    v, parts = e, []
    while isinstance(v, ast.Attribute):
        parts.append(v.attr)
        v = v.value
    if isinstance(v, ast.Name) and parts:
        return ("n", ".".join([v.id] + parts[::-1]))
    return None


def _effect_free(e: ast.AST) -> bool:
    return not any(isinstance(n, (ast.Call, ast.Await, ast.Yield, ast.YieldFrom, ast.NamedExpr, ast.Lambda)) for n in ast.walk(e))


def _chain(stmts, name):
    """cases [(conditions, constant)] a statement list assigns to `name`, or None"""
    stmts = [s for s in stmts if not isinstance(s, ast.Pass)]
    if stmts and isinstance(stmts[0], ast.Assign) and len(stmts[0].targets) == 1 and isinstance(stmts[0].targets[0], ast.Name) \
            and stmts[0].targets[0].id == name and isinstance(stmts[0].value, ast.Constant) and stmts[0].value.value is None and len(stmts) > 1:
        stmts = stmts[1:]
    if len(stmts) != 1:
        return None
    st = stmts[0]
    if isinstance(st, ast.Assign) and len(st.targets) == 1 and isinstance(st.targets[0], ast.Name) and st.targets[0].id == name:
        return [([], st.value)] if _const_key(st.value) is not None else None
    if isinstance(st, ast.If) and st.orelse and _effect_free(st.test):
        a, b = _chain(st.body, name), _chain(st.orelse, name)
        if a is None or b is None:
            return None
        neg = ast.UnaryOp(op=ast.Not(), operand=st.test)
        return [([st.test] + c, k) for c, k in a] + [([neg] + c, k) for c, k in b]
    return None


def _condition_for(cases, key):
    alts = []
    for conds, k in cases:
        if _const_key(k) == key:
            if not conds:
                return ast.Constant(value=True)
            alts.append(copy.deepcopy(conds[0]) if len(conds) == 1 else ast.BoolOp(op=ast.And(), values=[copy.deepcopy(c) for c in conds]))
    if not alts:
        return ast.Constant(value=False)
    return alts[0] if len(alts) == 1 else ast.BoolOp(op=ast.Or(), values=alts)


def fold_discriminants(ct) -> list[str]:
    log: list[str] = []
    for owner in list(ct.by_qual.values()):
        concrete = [owner] + ct.subclasses(owner)
        for fn in owner.methods.values():
            body = fn.body
            stores: dict[str, int] = {}
            for n in ast.walk(fn):
                if isinstance(n, ast.Name) and isinstance(n.ctx, (ast.Store, ast.Del)):
                    stores[n.id] = stores.get(n.id, 0) + 1
            i = 0
            while i < len(body):
                st = body[i]
                # the chain: an If (optionally preceded by `name = None`), optionally followed by `alias = name`
                cand = None
                if isinstance(st, ast.If):
                    names = {n.id for n in ast.walk(st) if isinstance(n, ast.Name) and isinstance(n.ctx, ast.Store)}
                    for nm in sorted(names):
                        # an earlier `name = None` initialisation (the result variable of an inlined getter) that nothing reads in between
                        lead = []
                        for j in range(i - 1, -1, -1):
                            pj = body[j]
                            if isinstance(pj, ast.Assign) and len(pj.targets) == 1 and isinstance(pj.targets[0], ast.Name) and pj.targets[0].id == nm \
                                    and isinstance(pj.value, ast.Constant) and pj.value.value is None:
                                lead = [pj]
                                break
                            if any(isinstance(n, ast.Name) and n.id == nm for n in ast.walk(pj)):
                                break
                        cases = _chain(lead + [st], nm)
                        # locals the conditions read must be bound exactly once
                        if cases is not None and any(isinstance(n, ast.Name) and isinstance(n.ctx, ast.Load) and stores.get(n.id, 0) > 1
                                                     for cs, _k in cases for c in cs for n in ast.walk(c)):
                            cases = None
                        n_assign = sum(1 for n in ast.walk(st) if isinstance(n, ast.Name) and n.id == nm and isinstance(n.ctx, ast.Store)) + len(lead)
                        if cases is not None and len(cases) > 1 and stores.get(nm, 0) == n_assign:
                            cand = (nm, cases)
                            break
                if cand is None:
                    i += 1
                    continue
                nm, cases = cand
                end = i
                names_eq = {nm}
                # `alias = name` right after the chain (the inlined getter's result handed to the caller's variable)
                while end + 1 < len(body):
                    nx = body[end + 1]
                    if isinstance(nx, ast.Assign) and len(nx.targets) == 1 and isinstance(nx.targets[0], ast.Name) and isinstance(nx.value, ast.Name) \
                            and nx.value.id in names_eq and stores.get(nx.targets[0].id, 0) == 1:
                        names_eq.add(nx.targets[0].id)
                        end += 1
                    else:
                        break
                keys = {_const_key(k) for _c, k in cases}
                # reads of the conditions, per concrete class
                conds = [c for cs, _k in cases for c in cs]
                changed = 0
                for u in range(end + 1, len(body)):
                    between = body[end + 1:u]
                    use_st = body[u]
                    tests = []
                    if isinstance(use_st, (ast.If, ast.While)):
                        tests.append(("test", use_st))

                    def safe(region) -> bool:
                        for k in concrete:
                            eff = Effects(ct, k)
                            r = set()
                            for c in conds:
                                rr, _w = eff.of_region(ast.Expr(value=c), owner)
                                r |= rr
                            _r, w = eff.of_region(list(region), owner) if region else (set(), set())
                            if r & w:
                                return False
                        return True

                    class T(ast.NodeTransformer):
                        def __init__(self):
                            self.n = 0

                        def visit_FunctionDef(self, n):
                            return n

                        visit_Lambda = visit_FunctionDef

                        def visit_Compare(self, n):
                            self.generic_visit(n)
                            if len(n.ops) == 1 and isinstance(n.left, ast.Name) and n.left.id in names_eq and isinstance(n.ops[0], (ast.Is, ast.IsNot, ast.Eq, ast.NotEq)):
                                key = _const_key(n.comparators[0])
                                if key is not None and (key in keys or key[0] == "n"):
                                    e = _condition_for(cases, key)
                                    if isinstance(n.ops[0], (ast.IsNot, ast.NotEq)):
                                        e = ast.UnaryOp(op=ast.Not(), operand=e)
                                    self.n += 1
                                    return ast.copy_location(e, n)
                            return n

                    # the test of a top-level If sees only the statements between; tests nested deeper also see the enclosing statement
                    if isinstance(use_st, (ast.If, ast.While)) and any(isinstance(n, ast.Name) and n.id in names_eq for n in ast.walk(use_st.test)):
                        if safe(between):
                            t = T()
                            use_st.test = t.visit(use_st.test)
                            changed += t.n
                    inner = [n for f_ in ("body", "orelse", "finalbody") for s_ in getattr(use_st, f_, []) or [] for n in ast.walk(s_)
                             if isinstance(n, ast.Name) and n.id in names_eq]
                    if inner and safe(between + [use_st]):
                        t = T()
                        for f_ in ("body", "orelse", "finalbody"):
                            v = getattr(use_st, f_, None)
                            if isinstance(v, list):
                                setattr(use_st, f_, [t.visit(s_) for s_ in v])
                        changed += t.n
                if changed:
                    ast.fix_missing_locations(fn)
                    log.append(f"{owner.module.relpath}:{st.lineno} {owner.name}.{fn.name}: {changed} tests of the discriminant `{nm}` replaced by its defining conditions")
                i = end + 1
    return log
