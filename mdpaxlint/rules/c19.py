"""C19 - range spaces enumerate the integer box and the index function inverts them."""

from __future__ import annotations

from ..interp import Interp, Unsupported, fresh
from ..loader import AnalysisError
from ..terms import K, S, T_add, T_sub, alpha_norm, show_norm, subterms
from .common import Context

PROP = "C19"
EXPLANATION = (
    "create_range_space is abstractly interpreted with symbolic bound vectors MINS, MAXS: the space "
    "must be itertools.product over per-dimension ranges arange(MINS[i], MAXS[i]+1) taken in "
    "dimension order, the per-dimension count must equal the `dimensions` entry used for indexing, "
    "and the returned index function, applied to a symbolic VECTOR, must ravel exactly VECTOR - MINS "
    "against those dimensions in clip mode.  These are term identities (ring normal form), so they "
    "hold for every dimension count and every bound, including non-zero and negative lower bounds. "
    "Does not decide NumPy/JAX's own row-major semantics of product / ravel_multi_index."
    ' The shared-state clause R19.5 covers any container constructor at module or class level (through local aliases and type(self)) and writes into the problem object from solver code; the space may be listed by itertools.product, the np.indices grid idiom or an ij-indexed np.meshgrid (xy indexing, narrow or min_scalar_type dtypes of the ranges are reported).'
)
RULES = {
    "R19.1": "the multi-index passed to ravel_multi_index is VECTOR - MINS (translation by the lower bounds)",
    "R19.2": "per dimension, the arange count (MAXS[i]+1) - MINS[i] equals the dimensions entry MAXS[i]-MINS[i]+1 used for indexing",
    "R19.3": "the space is itertools.product(*ranges) with ranges[i] = arange(MINS[i], MAXS[i]+1) in dimension order",
    "R19.5": "the index function handed out is the one defined in this call, over this call's bounds: no module-level mutable container (a cache of functions / spaces / tables shared between calls) is written by any function of the package, so what a call returns never depends on earlier calls (expected count zero)",
    "R19.4": "ravel_multi_index uses the space's own dimensions and mode='clip' (out-of-box vectors map to the nearest row, as documented)",
}
ASSUMPTIONS = [
    "itertools.product enumerates in row-major order (last factor fastest) and jnp.ravel_multi_index is row-major",
]


MUTATORS = ("append", "extend", "insert", "update", "setdefault", "pop", "popitem", "clear", "remove", "add", "discard", "__setitem__")


def _module_state(ctx, col):
    """R19.5 (filed by every property that quantifies over histories through C19's index functions): module-level containers
    that functions write."""
    import ast

    n = 0
    for m in sorted(ctx.repo.modules.values(), key=lambda x: x.name):
        containers = {}
        for node in m.tree.body:
            tgt = val = None
            if isinstance(node, ast.Assign) and len(node.targets) == 1 and isinstance(node.targets[0], ast.Name):
                tgt, val = node.targets[0].id, node.value
            elif isinstance(node, ast.AnnAssign) and isinstance(node.target, ast.Name) and node.value is not None:
                tgt, val = node.target.id, node.value
            if tgt and (isinstance(val, (ast.Dict, ast.List, ast.Set)) or (isinstance(val, ast.Call) and _is_container_ctor(val))):
                containers[tgt] = node
        n += 1
        if not containers:
            continue
        for fn in [x for x in ast.walk(m.tree) if isinstance(x, (ast.FunctionDef, ast.Lambda))]:
            local = {a.arg for a in fn.args.args + fn.args.kwonlyargs} | ({x.id for x in ast.walk(fn) if isinstance(x, ast.Name) and isinstance(x.ctx, ast.Store)}
                                                                        - {g for s_ in ast.walk(fn) if isinstance(s_, ast.Global) for g in s_.names})
            for x in ast.walk(fn):
                name = None
                if isinstance(x, ast.Subscript) and isinstance(x.ctx, (ast.Store, ast.Del)) and isinstance(x.value, ast.Name):
                    name = x.value.id
                elif isinstance(x, ast.Call) and isinstance(x.func, ast.Attribute) and x.func.attr in MUTATORS and isinstance(x.func.value, ast.Name):
                    name = x.func.value.id
                elif isinstance(x, ast.AugAssign) and isinstance(x.target, ast.Name) and x.target.id in containers and any(
                        isinstance(s_, ast.Global) and x.target.id in s_.names for s_ in ast.walk(fn)):
                    name = x.target.id
                if name in containers and name not in local:
                    col.add("R19.5", f"{m.name}.{getattr(fn, 'name', '<lambda>')}", m.relpath, x.lineno, False,
                            f"`{ast.unparse(x)[:70]}` writes the module-level container `{name}` (line {containers[name].lineno}): state shared by all "
                            "calls in the process - what this function returns for one argument can depend on which arguments it saw before",
                            text=f"module state {name}")
    _class_state(ctx, col, "R19.5")
    _foreign_state(ctx, col, "R19.5")
    col.add("R19.5", "package", "src/mdpax", 0, True, f"{n} modules scanned: no function writes a module-level or class-level container", text="module state scanned")


_CONTAINER_CTORS = ("dict", "list", "set", "defaultdict", "OrderedDict", "WeakValueDictionary", "WeakKeyDictionary", "WeakSet", "Counter", "deque",
                    "ChainMap", "SimpleNamespace", "LRUCache", "TTLCache", "Cache", "bytearray")


def _is_container_ctor(call) -> bool:
    import ast
    return ast.unparse(call.func).split(".")[-1] in _CONTAINER_CTORS


def _foreign_state(ctx, col, rule="R19.5"):
    """Writes into the problem object from solver code.  The problem is supplied by the caller and may be shared by any number of solvers
    (and outlive them): an attribute or `__dict__` entry placed on it by one solver is state shared by all of them, exactly like a
    module-level container - what a later solver computes can then depend on the settings (batch size, device count, gamma, ..) of an
    earlier one.  Expected count zero."""
    import ast

    def rooted_in_problem(e, params):
        # self.problem[...], problem (a parameter of a solver method), through attribute / subscript chains
        while isinstance(e, (ast.Attribute, ast.Subscript)):
            if isinstance(e, ast.Attribute) and e.attr == "problem" and isinstance(e.value, ast.Name) and e.value.id == "self":
                return True
            e = e.value
        return isinstance(e, ast.Name) and e.id == "problem" and e.id in params

    n = 0
    for ci in sorted(ctx.ct.by_qual.values(), key=lambda c: c.qualname):
        names = {k.name for k in ctx.ct.mro(ci)}
        if not names & {"Solver", "CheckpointMixin"}:
            continue
        for mname, fn in ci.methods.items():
            params = {a.arg for a in fn.args.args + fn.args.kwonlyargs}
            n += 1
            for x in ast.walk(fn):
                hit = None
                if isinstance(x, (ast.Attribute, ast.Subscript)) and isinstance(x.ctx, (ast.Store, ast.Del)) and rooted_in_problem(x.value, params):
                    hit = x
                elif isinstance(x, ast.Call) and isinstance(x.func, ast.Attribute) and x.func.attr in MUTATORS and rooted_in_problem(x.func.value, params):
                    hit = x
                elif isinstance(x, ast.Call) and ast.unparse(x.func) in ("setattr", "object.__setattr__", "delattr") and x.args and (
                        rooted_in_problem(x.args[0], params) or (isinstance(x.args[0], ast.Name) and x.args[0].id == "problem" and "problem" in params)):
                    hit = x
                elif isinstance(x, ast.Call) and ast.unparse(x.func) == "vars" and x.args and rooted_in_problem(ast.Attribute(value=x.args[0], attr="_", ctx=ast.Load()), params):
                    hit = x
                if hit is not None:
                    col.add(rule, f"{ci.name}.{mname}", ci.module.relpath, hit.lineno, False,
                            f"`{ast.unparse(hit)[:80]}` writes into the problem object: the problem is shared by every solver built on it, so what is stored "
                            "there by one solver (for its batch size / device count / settings) is read back by the next one", text="state placed on the problem object")
    col.add(rule, "solvers", "src/mdpax", 0, True, f"{n} solver / mixin methods scanned: none writes into the problem object", text="problem object scanned")


def _class_state(ctx, col, rule):
    """class-level containers (`_managers: dict = {}` in a class body) that methods write through cls / self / the class name: shared by
    every instance in the process exactly like a module-level container"""
    import ast

    for ci in sorted(ctx.ct.by_qual.values(), key=lambda c: c.qualname):
        containers = {}
        for node in ci.node.body:
            tgt = val = None
            if isinstance(node, ast.Assign) and len(node.targets) == 1 and isinstance(node.targets[0], ast.Name):
                tgt, val = node.targets[0].id, node.value
            elif isinstance(node, ast.AnnAssign) and isinstance(node.target, ast.Name) and node.value is not None:
                tgt, val = node.target.id, node.value
            if tgt and not tgt.startswith("__") and (isinstance(val, (ast.Dict, ast.List, ast.Set)) or (
                    isinstance(val, ast.Call) and ast.unparse(val.func).split(".")[-1] in _CONTAINER_CTORS)):
                containers[tgt] = node
        if not containers or ci.is_dataclass():
            continue
        family = [ci] + ctx.ct.subclasses(ci)
        # an attribute every instance rebinds for itself (self.X = ...) is instance state, not shared
        rebound = {n.attr for k in family for fn in k.methods.values() for n in ast.walk(fn)
                   if isinstance(n, ast.Attribute) and isinstance(n.ctx, ast.Store) and isinstance(n.value, ast.Name) and n.value.id == "self"}
        for k in family:
            for fn in k.methods.values():
                def class_ref(e):
                    # cls / self / the class by name / type(self) / self.__class__
                    if isinstance(e, ast.Name):
                        return e.id in ("cls", "self", ci.name, k.name)
                    txt = ast.unparse(e)
                    return txt in ("type(self)", "self.__class__", "type(cls)", "cls.__class__")
                # a local bound to the container (tables = type(self)._tables) is the container
                alias = {}
                for st in ast.walk(fn):
                    if isinstance(st, ast.Assign) and len(st.targets) == 1 and isinstance(st.targets[0], ast.Name) and isinstance(st.value, ast.Attribute) \
                            and st.value.attr in containers and st.value.attr not in rebound and class_ref(st.value.value):
                        alias[st.targets[0].id] = st.value
                for x in ast.walk(fn):
                    base = None
                    if isinstance(x, ast.Subscript) and isinstance(x.ctx, (ast.Store, ast.Del)):
                        base = x.value
                    elif isinstance(x, ast.Call) and isinstance(x.func, ast.Attribute) and x.func.attr in MUTATORS:
                        base = x.func.value
                    if isinstance(base, ast.Name) and base.id in alias:
                        base = alias[base.id]
                    if isinstance(base, ast.Attribute) and base.attr in containers and base.attr not in rebound and class_ref(base.value):
                        col.add(rule, f"{k.name}.{fn.name}", k.module.relpath, x.lineno, False,
                                f"`{ast.unparse(x)[:70]}` writes the class-level container `{ci.name}.{base.attr}` (line {containers[base.attr].lineno}): state shared "
                                "by every instance in the process - what one solver or one call gets can depend on what another one did before (a manager, "
                                "table or result made for other arguments is handed out again)", text=f"class state {ci.name}.{base.attr}")


def run(ctx: Context, col) -> None:
    _module_state(ctx, col)
    col.floor("R19.5", 1)
    m, fn = ctx.repo.public_function("mdpax.utils.spaces.create_range_space")
    file = m.relpath
    I = Interp(ctx.ct, None, {}, axes={"MINS": ("dim",), "MAXS": ("dim",), "VECTOR": ("dim",)})
    MINS, MAXS, VEC = S("MINS"), S("MAXS"), S("VECTOR")
    try:
        r = I.call_function(m, fn, [MINS, MAXS])
    except Unsupported as e:
        raise AnalysisError(f"create_range_space: {e}") from e
    if r[0] != "tuple" or len(r[1]) != 2:
        raise AnalysisError("create_range_space does not return (space, index_fn)")
    space, index_fn = r[1]
    try:
        idx = I.call_value(index_fn, [VEC], {})
    except Unsupported as e:
        raise AnalysisError(f"index_fn: {e}") from e
    col.saw("functions", "mdpax.utils.spaces.create_range_space, index_fn")
    construct = "create_range_space.index_fn"
    rav = [t for t in subterms(idx) if t[0] == "app" and t[1] == "np.ravel_multi_index"]
    if len(rav) != 1:
        col.add("R19.1", construct, file, fn.lineno, False,
                f"index function is not a single ravel_multi_index: {show_norm(idx)[:160]}", text="index_fn term")
        return
    args = [a for a in rav[0][2] if a[0] != "kw"]
    kws = {a[1]: a[2] for a in rav[0][2] if a[0] == "kw"}
    want = T_sub(VEC, MINS)
    ok = len(args) >= 1 and args[0] == want and idx == rav[0]
    col.add("R19.1", construct, file, fn.lineno, ok,
            "multi-index == VECTOR - MINS" if ok else
            f"multi-index is {show_norm(args[0]) if args else None}; it must be VECTOR - MINS because the dimensions are MAXS - MINS + 1 "
            "(the raw vector maps listed vectors to wrong rows whenever MINS != 0)", text="ravel_multi_index(tuple(vector - mins), ...)")
    dims_want = T_add(T_sub(MAXS, MINS), K(1))
    from .solverterms import elementwise_same
    ok4 = len(args) >= 2 and elementwise_same(I, args[1], dims_want) and kws.get("mode") == ("const", "clip")
    col.add("R19.4", construct, file, fn.lineno, ok4,
            "dimensions == MAXS - MINS + 1, mode='clip'" if ok4 else
            f"dimensions {show_norm(args[1]) if len(args) > 1 else None}, mode {kws.get('mode')}", text="dims and mode")
    # the space
    construct = "create_range_space"
    # the dense-grid idiom np.indices(D).reshape(len(D), -1).T + M enumerates the same rows in the same order as
    # product(*[arange(M[i], M[i] + D[i])]): bring it to that form (an explicit narrow dtype of the offsets is not the same thing)
    from ..terms import NARROW_INT_DTYPES, indices_space, meshgrid_space
    # a space chosen between alternative constructions (by size, by dimension count): every alternative must be the documented enumeration
    if space[0] == "ite":
        leaves, stack_ = [], [space]
        while stack_:
            x_ = stack_.pop()
            if x_[0] == "ite":
                stack_ += [x_[3], x_[2]]
            else:
                leaves.append(x_)
        verdicts = []
        for leaf in leaves:
            mg = meshgrid_space(leaf)
            if mg is not None:
                rng_, ix_ = mg
                if ix_ == "xy":
                    col.add("R19.3", construct, file, fn.lineno, False,
                            "one construction of the space is np.stack(np.meshgrid(*ranges), axis=-1).reshape(N, dim) with the default indexing='xy': "
                            "the first two axes of the grid are swapped, so for two or more dimensions the rows are not in row-major order of the "
                            "ranges while the index function (ravel_multi_index) is - listed vectors map to other vectors' rows", text="space term")
                    return
                leaf = ("app", "itertools.product", (("star", rng_),))
            verdicts.append(leaf)
        if len({repr(alpha_norm(v)) for v in verdicts}) != 1:
            raise AnalysisError("create_range_space: the space is chosen between constructions that are not the same enumeration as terms: "
                                + " | ".join(show_norm(v)[:90] for v in verdicts))
        space = verdicts[0]
    else:
        mg = meshgrid_space(space)
        if mg is not None:
            if mg[1] == "xy":
                col.add("R19.3", construct, file, fn.lineno, False,
                        "the space is np.stack(np.meshgrid(*ranges), axis=-1).reshape(N, dim) with the default indexing='xy': the first two axes are "
                        "swapped, the rows are not in row-major order of the ranges while the index function is", text="space term")
                return
            space = ("app", "itertools.product", (("star", mg[0]),))
    grid = indices_space(space)
    if grid is not None:
        d_, m_, dt_ = grid
        if dt_ in NARROW_INT_DTYPES:
            col.add("R19.3", construct, file, fn.lineno, False,
                    f"the offsets of the grid are enumerated in {dt_}: they run up to MAXS[i] - MINS[i], which nothing bounds by the range of {dt_}, so a "
                    "dimension wider than that wraps around and the space lists wrong (repeated) vectors while the index function still uses "
                    "the true dimensions", text="space term")
            return
        j_ = fresh("dim")
        space = ("app", "itertools.product", (("star", ("lam", j_, "dim", ("app", "arange", (I.elem(m_, j_), I.elem(T_add(m_, d_), j_))))),))
    prods = [t for t in subterms(space) if t[0] == "app" and t[1] == "itertools.product"]
    if len(prods) != 1 or len(prods[0][2]) != 1 or prods[0][2][0][0] != "star":
        # a way of listing the vectors this rule has no normal form for: no verdict (not a violation)
        raise AnalysisError(f"create_range_space: the space is built by a construct outside the rule's vocabulary (itertools.product over per-dimension "
                            f"ranges, or the np.indices grid idiom): {show_norm(space)[:160]}")
    ranges = prods[0][2][0][1]
    # an explicit dtype of the per-dimension ranges: the listed values run from MINS[i] to MAXS[i]
    rk = [x for x in subterms(ranges) if x[0] == "app" and x[1] == "arange" and any(a[0] == "kw" and a[1] == "dtype" for a in x[2])]
    if rk:
        dt = [a[2] for a in rk[0][2] if a[0] == "kw" and a[1] == "dtype"][0]
        dtxt = show_norm(dt)
        mst = [x for x in subterms(dt) if x[0] == "app" and x[1].lstrip("?") in ("np.min_scalar_type", "jnp.min_scalar_type", "numpy.min_scalar_type")]
        short = dtxt.replace(">", "").split(".")[-1].strip()
        if short in NARROW_INT_DTYPES:
            col.add("R19.3", construct, file, fn.lineno, False,
                    f"the per-dimension ranges are enumerated in {short}: they run up to MAXS[i], which nothing bounds by the range of {short}, so a "
                    "wider bound wraps around and the space lists wrong vectors while the index function uses the true dimensions", text="space term")
            return
        if mst:
            col.add("R19.3", construct, file, fn.lineno, False,
                    f"the per-dimension ranges are enumerated in the dtype `{dtxt[:80]}`: min_scalar_type(x) guarantees only that x itself is representable "
                    "(for x = -b a signed type holding [-b, b-1]); the ranges list every value from MINS[i] to MAXS[i], so a bound equal to the type's "
                    "limit + 1 (128, 32768) wraps around and the space lists a vector outside the box in place of one inside it", text="space term")
            return
        raise AnalysisError(f"create_range_space: the per-dimension ranges are enumerated in the dtype `{dtxt[:80]}`, which is chosen at run time; "
                            "whether every listed value fits cannot be decided")
    i = fresh("dim")
    want_ranges = ("lam", i, "dim", ("app", "arange", (I.elem(MINS, i), T_add(I.elem(MAXS, i), K(1)))))
    ok3 = alpha_norm(ranges) == alpha_norm(want_ranges) and space == prods[0]
    col.add("R19.3", construct, file, fn.lineno, ok3,
            "space == product(*[arange(MINS[i], MAXS[i]+1) for each dimension i in order])" if ok3 else
            f"ranges are {show_norm(ranges)[:160]}", text="product of per-dimension ranges")
    # count per dimension
    if ranges[0] == "lam" and ranges[3][0] == "app" and ranges[3][1] == "arange" and len(ranges[3][2]) == 2:
        j = ranges[1]
        lo, hi = ranges[3][2]
        count = T_sub(hi, lo)
        dim_j = I.elem(args[1], j) if len(args) > 1 else None
        ok2 = dim_j is not None and (count == dim_j or elementwise_same(I, args[1], ("lam", j, "dim", count)))
        col.add("R19.2", construct, file, fn.lineno, ok2,
                "arange count per dimension == dimensions entry" if ok2 else
                f"arange count {show_norm(count)} differs from the dimensions entry {show_norm(dim_j) if dim_j else None}",
                text="count == dimensions")
    else:
        col.add("R19.2", construct, file, fn.lineno, False, "per-dimension range is not arange(lo, hi)", text="count == dimensions")
    for r_ in ("R19.1", "R19.2", "R19.3", "R19.4"):
        col.floor(r_, 1)
