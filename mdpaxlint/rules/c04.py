"""C04 - relative value iteration reports the optimal average reward within epsilon."""

from __future__ import annotations

import ast

from ..effects import is_self_attr
from ..loader import AnalysisError
from ..terms import K, S, ZERO, show_norm
from .c07 import KERNEL_METHODS
from .c20 import validator_constraints
from .common import Context
from .kernels import bellman_oracle, run_method
from .solverterms import VALUES, brief, same, span_of

PROP = "C04"
EXPLANATION = (
    "Decides the RVI-specific necessary conditions of bounded relative values and a meaningful gain, "
    "from the term of RelativeValueIteration._iteration_step: the returned iterate is the Bellman sweep "
    "minus a term read from self.gain with coefficient exactly -1; self.gain is re-assigned every sweep "
    "from the (relative or raw) sweep result at a constant reference index; the measure is the span of "
    "(returned iterate - previous values); the sweep it wraps is ValueIteration's, no kernel method is "
    "overridden, and the validator pins gamma to 1.  Does not decide that the gain is within epsilon of "
    "optimal (a theorem about unichain aperiodic MDPs, out of static reach)."
)
RULES = {
    "R4.1": "returned iterate == Bellman sweep - self.gain (coefficient -1; without it values diverge for any non-zero gain)",
    "R4.2": "self.gain is written on every sweep from the sweep result at a constant reference index",
    "R4.5": "the gain the first sweep subtracts is the reference component of the initial values (self.gain = values[ref] after initialisation): the update `gain = iterate[ref]` relies on gain == values[ref], and with any other start a run that converges at once - e.g. warm-started from earlier relative values - reports gain + values0[ref] instead of the gain",
    "R4.4": "every path from the solve loop to the return extracts the policy from the final relative values (greedy w.r.t. self.values at gamma = 1), also on a second solve() call",
    "R4.3": "the wrapped sweep is ValueIteration's (no kernel override), gamma is validated == 1, measure == span(new iterate, previous values)",
}
ASSUMPTIONS = [
    "threshold == epsilon, strict < and policy extraction after the loop are decided under C08 R8.3 and C01 R1.3 (RVI instances)",
]


def run(ctx: Context, col) -> None:
    cls = ctx.ct.get("RelativeValueIteration")
    file = cls.module.relpath
    owner, fn = ctx.ct.require(cls, "_iteration_step")
    I, t = run_method(ctx, cls, "_iteration_step", extra={"gain": S("GAIN")})
    if t[0] != "tuple" or len(t[1]) != 2:
        raise AnalysisError("RelativeValueIteration._iteration_step does not return (iterate, measure)")
    new, conv = t[1]
    sweep = bellman_oracle(I)
    want = I.arith("Sub", sweep, S("GAIN"))
    ok1 = same(new, want)
    why = "iterate == sweep - self.gain"
    if not ok1:
        if same(new, sweep):
            why = "the gain is never subtracted: the iterate is the raw sweep, relative values grow by the gain every iteration"
        elif same(new, I.arith("Add", sweep, S("GAIN"))):
            why = "the gain is ADDED to the sweep instead of subtracted"
        else:
            why = f"iterate is {brief(new, 300)}"
    col.add("R4.1", "RelativeValueIteration._iteration_step", file, fn.lineno, ok1, why, text="iterate = sweep - gain")
    # R4.2
    g1 = I.attrs.get("gain")
    assigns = [s for s in ast.walk(fn) if isinstance(s, ast.Assign) and any(is_self_attr(x, "gain") for x in s.targets)]
    hit = None
    ok2, why2 = False, "self.gain is not re-assigned in the step: the subtracted gain stays at its initial value"
    if g1 is not None and g1 != S("GAIN") and len(assigns) >= 1:
        v = assigns[-1].value
        consts = []
        for sub in list(ast.walk(v)) + list(ast.walk(fn)):  # the reference index may sit in a temporary / an inlined helper
            if isinstance(sub, ast.Subscript):
                try:
                    c = ast.literal_eval(sub.slice)
                except Exception:
                    c = None
                if isinstance(c, int) and c not in consts:
                    consts.append(c)
        hit = None
        for c in consts:
            if any(same(g1, x) for x in (I.elem(new, K(c)), I.elem(sweep, K(c)))):
                hit = c
        ok2 = hit is not None
        why2 = (f"self.gain := (sweep result)[{hit}] on every sweep (fixed reference state)" if ok2 else
                f"self.gain := `{ast.unparse(v)}` = {brief(g1, 160)} is not the sweep result at a constant reference index")
    col.add("R4.2", "RelativeValueIteration._iteration_step", file, (assigns[-1].lineno if assigns else fn.lineno), ok2, why2,
            text="gain update")
    # every path of the step writes the gain
    from ..cfg import cfg_of
    g = cfg_of(fn)
    paths = [p for p in g.paths(g.entry, lambda n: n is g.exit or n is g.raise_exit) if p[-1][0] is g.exit]
    allw = all(any(isinstance(n.ast, ast.Assign) and any(is_self_attr(x, "gain") for x in n.ast.targets) for n, _ in p) for p in paths)
    col.add("R4.2", "RelativeValueIteration._iteration_step", file, fn.lineno, allw and bool(paths),
            f"the gain is updated on all {len(paths)} paths of the step" if allw else "a path through the step leaves the gain stale",
            text="gain updated on every path")
    io, ifn = ctx.ct.require(cls, "_initialize_solver_state_elements")
    from .solverterms import solver_interp
    I0 = solver_interp(ctx, cls, "span")
    I0.call_method("_initialize_solver_state_elements")
    g0, v0 = I0.attrs.get("gain"), I0.attrs.get("values")
    ref = K(hit) if ok2 and hit is not None else None
    ok0 = g0 is not None and v0 is not None and ref is not None and same(g0, I0.elem(v0, ref))
    col.add("R4.5", "RelativeValueIteration._initialize_solver_state_elements", io.module.relpath, ifn.lineno, ok0,
            f"initial gain == initial values[{hit}]" if ok0 else
            f"gain starts at {show_norm(g0) if g0 else None} while the values start at problem.initial_value(state): for an initial value function with "
            f"values[{hit if ref is not None else 'ref'}] != 0 the first iterate is sweep - 0, so gain = iterate[ref] is off by values0[ref]; a warm start from a "
            "converged solution stops at iteration 1 reporting twice the gain",
            text="initial gain")
    # R4.3
    overridden = [m for m in KERNEL_METHODS if m in cls.methods]
    col.add("R4.3", "RelativeValueIteration", file, cls.node.lineno, not overridden,
            "no kernel method overridden: the wrapped sweep is ValueIteration's (C02 R2.1)" if not overridden else
            f"overrides kernel methods {overridden}", text="sweep identical to VI")
    want_conv = span_of(I, new, VALUES)
    okc = same(conv, want_conv)
    col.add("R4.3", "RelativeValueIteration._iteration_step", file, fn.lineno, okc,
            "measure == span(returned iterate - self.values)" if okc else f"measure is {brief(conv, 240)}", text="span of consecutive iterates")
    ca = ctx.ct.class_attr(cls, "Config")
    cfg = ctx.ct.class_of_dotted(ctx.ct.resolve_name(ca[0].module, ast.unparse(ca[1])))
    _o, vfn, got, _e, _n = validator_constraints(ctx, cfg)
    acc = [c for c in got.get("gamma", []) if c[0] == "accept"]
    okg = len(acc) == 1 and len(acc[0][1]) == 1 and acc[0][1][0].lo == acc[0][1][0].hi == 1.0
    col.add("R4.3", f"{cfg.name}.gamma", cfg.module.relpath, vfn.lineno, okg,
            "validator accepts gamma == 1.0 only" if okg else "validator does not pin gamma to 1.0: a discounted sweep minus a gain is not RVI",
            text="gamma pinned to 1")
    # R4.4 policy from the final values (the RVI instance of C01 R1.3)
    from .c01 import policy_after_loop
    policy_after_loop(ctx, cls, col, "R4.4")
    for r_, n in (("R4.1", 1), ("R4.2", 2), ("R4.3", 3), ("R4.4", 2), ("R4.5", 1)):
        col.floor(r_, n)
