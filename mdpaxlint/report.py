"""Verdict protocol: rule instances, findings, known-findings matching, evidence JSON."""

from __future__ import annotations

import json
import os
import time
from dataclasses import dataclass, field
from pathlib import Path

VERIF = Path(__file__).resolve().parent.parent
EVIDENCE_DIR = Path(os.environ.get("MDPAX_EVIDENCE_DIR") or (VERIF / "evidence"))
KNOWN_FINDINGS = VERIF / "known_findings.json"


@dataclass
class Instance:
    """One rule instance that was examined."""

    rule: str  # e.g. R8.3
    construct: str  # qualified construct, e.g. ValueIteration.solve
    file: str
    line: int
    ok: bool
    detail: str  # what was checked / what fails
    text: str = ""  # normalised statement text (part of the finding key)
    nontrivial: bool = True  # did the predicate actually get exercised?
    extra: dict = field(default_factory=dict)

    @property
    def key(self) -> str:
        return f"{self.rule}|{self.construct}|{self.text}"

    def where(self) -> str:
        return f"{self.file}:{self.line}"

    def as_sample(self) -> dict:
        d = {
            "rule": self.rule,
            "construct": self.construct,
            "at": self.where(),
            "verdict": "holds" if self.ok else "FAILS",
            "detail": self.detail,
        }
        if self.text:
            d["statement"] = self.text
        if self.extra:
            d.update(self.extra)
        return d


class Collector:
    """Accumulates instances for one property check."""

    def __init__(self, prop: str):
        self.prop = prop
        self.instances: list[Instance] = []
        self.analysed: dict[str, set[str]] = {}
        self.notes: list[str] = []
        self.floors: dict[str, int] = {}

    def add(self, rule, construct, file, line, ok, detail, text="", nontrivial=True, **extra):
        self.instances.append(
            Instance(rule, construct, file, int(line or 0), bool(ok), detail, text, nontrivial, extra)
        )
        return ok

    def saw(self, kind: str, what: str) -> None:
        self.analysed.setdefault(kind, set()).add(what)

    def floor(self, rule: str, n: int) -> None:
        """The rule must have examined at least n instances (confirmed by hand)."""
        self.floors[rule] = n

    def count(self, rule: str) -> int:
        return sum(1 for i in self.instances if i.rule == rule)

    def failures(self) -> list[Instance]:
        return [i for i in self.instances if not i.ok]


def load_known_findings() -> dict:
    if not KNOWN_FINDINGS.exists():
        return {"known": [], "fixed": []}
    return json.loads(KNOWN_FINDINGS.read_text())


def match_known(inst: Instance, prop: str, known: list[dict]) -> dict | None:
    for k in known:
        if k.get("property") != prop or k.get("rule") != inst.rule:
            continue
        if k.get("construct") != inst.construct:
            continue
        kt = k.get("text")
        if kt is not None and kt != inst.text:
            continue
        return k
    return None


def write_evidence(prop, tier, col: Collector, wall, rules_doc, explanation, assumptions,
                   violations, checker_cmd, selftest=None, known_hits=None) -> Path:
    EVIDENCE_DIR.mkdir(exist_ok=True)
    insts = col.instances
    distinct = {i.key for i in insts if i.nontrivial}
    per_rule: dict[str, dict] = {}
    for i in insts:
        d = per_rule.setdefault(i.rule, {"instances": 0, "holds": 0, "fails": 0})
        d["instances"] += 1
        d["holds" if i.ok else "fails"] += 1
    samples = [i.as_sample() for i in insts]
    cov = {
        "explanation": explanation,
        "rules": rules_doc,
        "obligations": len(insts),
        "discharged": sum(1 for i in insts if i.ok),
        "evaluations": len(insts),
        "distinct_nontrivial": len(distinct),
        "rule": "one evaluation = one rule instance (rule x qualified construct x statement) "
        "enumerated from the current source; non-trivial = the predicate was exercised on a "
        "construct that exists (not vacuous); distinct by rule|construct|normalised statement",
        "per_rule": per_rule,
        "count_floors": col.floors,
        "samples": samples,
        "analysed": {k: sorted(v) for k, v in col.analysed.items()},
        "notes": col.notes,
        "checker_cmd": checker_cmd,
        "trusted_base": [
            "python3 stdlib ast (parser)",
            "the rule tables in /verif/mdpaxlint/rules (frozen after reading the code)",
            "library semantics of jax / numpy / orbax / hydra as summarised in DESIGN.md",
        ],
        "exhaustive": True,
    }
    if known_hits:
        cov["known_findings_matched"] = known_hits
    if selftest is not None:
        cov["selftest"] = selftest
    ev = {
        "property_id": prop,
        "tier": tier,
        "seed": int(os.environ.get("VERIF_SEED", "0") or 0),
        "level": "other",
        "coverage": cov,
        "assumptions": assumptions,
        "wall_s": round(wall, 3),
        "violations": violations,
    }
    p = EVIDENCE_DIR / f"{prop}.json"
    p.write_text(json.dumps(ev, indent=1, default=str))
    return p


def write_violation_file(prop: str, fails: list[Instance]) -> Path:
    d = EVIDENCE_DIR / "violations"
    d.mkdir(parents=True, exist_ok=True)
    p = d / f"{prop}.json"
    p.write_text(
        json.dumps(
            {
                "property": prop,
                "generated": time.strftime("%Y-%m-%dT%H:%M:%S"),
                "violations": [dict(i.as_sample(), key=i.key) for i in fails],
            },
            indent=1,
            default=str,
        )
    )
    return p
