"""Oracle terms for the Bellman backup and helpers to obtain kernel terms per solver class."""

from __future__ import annotations

from ..interp import Interp, Unsupported, fresh
from ..loader import AnalysisError
from ..terms import S, T_add, T_mul, T_sum, subterms
from .solverterms import GAMMA, VALUES, solver_interp

SS = S("problem.state_space")
ACTIONS = S("problem.action_space")
EVENTS = S("problem.random_event_space")


def q_oracle(I: Interp, state, action, values=VALUES, gamma=GAMMA, ev_ix=None):
    """sum_e P(s,a,E[e]) * (R(s,a,E[e]) + gamma * V[idx(next(s,a,E[e]))])  - the property statement as a term."""
    e = ev_ix or fresh("ev")
    ev = I.elem(EVENTS, e)
    c = ("app", "problem.transition", (state, action, ev))
    nxt = ("app", "next_state", (c,))
    rew = ("app", "reward", (c,))
    p = ("app", "problem.random_event_probability", (state, action, ev))
    v = I.elem(values, ("app", "problem.state_to_index", (nxt,)))
    body = T_mul(p, T_add(rew, T_mul(gamma, v)))
    return T_sum(e, "ev", body)


def bellman_oracle(I: Interp, values=VALUES, gamma=GAMMA, reducer="max"):
    n = fresh("state")
    a = fresh("act")
    s = I.elem(SS, n)
    q = q_oracle(I, s, I.elem(ACTIONS, a), values, gamma)
    return ("lam", n, "state", ("red", reducer, a, "act", q))


def policy_oracle(I: Interp, values=VALUES, gamma=GAMMA):
    n = fresh("state")
    a = fresh("act")
    s = I.elem(SS, n)
    q = q_oracle(I, s, I.elem(ACTIONS, a), values, gamma)
    return ("lam", n, "state", I.elem(ACTIONS, ("red", "argmax", a, "act", q)))


def run_method(ctx, cls, name, args=(), conv_test="span", shuffle=False, extra=None):
    I = solver_interp(ctx, cls, conv_test, shuffle=shuffle, extra_facts=extra)
    try:
        t = I.call_method(name, list(args))
    except Unsupported as e:
        raise AnalysisError(f"{cls.name}.{name}: {e}") from e
    return I, t


def leaf_role_problems(I: Interp, allow_policy_action=False):
    """Check (state, action, event) roles at every problem.* leaf call recorded by the interpreter.
    Returns list of (leaf, message)."""
    out = []

    def is_state(t):
        return (t[0] == "elem" and t[1][0] == "batched" and t[1][1] == SS and len(t[2]) == 3) or \
            (t[0] == "elem" and t[1] == SS and len(t[2]) == 1)

    def is_action(t):
        if t[0] == "elem" and t[1] == ACTIONS and len(t[2]) == 1 and t[2][0][0] == "ix" and t[2][0][1] == "act":
            return True
        if allow_policy_action and t[0] == "elem" and t[1][0] == "sym" and t[1][1] in ("POLICY",) and len(t[2]) == 1:
            return True
        return False

    def is_event(t):
        return t[0] == "elem" and t[1] == EVENTS and len(t[2]) == 1 and t[2][0][0] == "ix" and t[2][0][1] == "ev"

    for name, args, where in I.leaf_calls:
        if name in ("problem.transition", "problem.random_event_probability"):
            if len(args) != 3:
                out.append((name, f"{where}: called with {len(args)} arguments"))
                continue
            roles = [is_state(args[0]), is_action(args[1]), is_event(args[2])]
            if not all(roles):
                from ..terms import show_norm
                out.append((name, f"{where}: arguments are ({', '.join(show_norm(a)[:50] for a in args)}); expected (state, action, event)"))
        elif name == "problem.state_to_index":
            a = args[0] if args else None
            ok = a is not None and (is_state(a) or (a[0] == "app" and a[1] == "next_state"))
            if not ok:
                from ..terms import show_norm
                out.append((name, f"{where}: argument {show_norm(a)[:60] if a else None} is not a state vector"))
        elif name in ("problem.initial_value", "problem.initial_policy"):
            a = args[0] if args else None
            if a is None or not is_state(a):
                from ..terms import show_norm
                out.append((name, f"{where}: argument {show_norm(a)[:60] if a else None} is not a state vector"))
    return out
