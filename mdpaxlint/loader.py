"""Parse every module of mdpax; import-alias tables; in-memory overlays for self-tests."""

from __future__ import annotations

import ast
import hashlib
import os
from pathlib import Path


class AnalysisError(Exception):
    """The analysis itself cannot be carried out (anchor vanished, unsupported construct,
    count floor missed).  Reported as ANALYSIS-ERROR / exit 2, never as a violation."""


def repo_root() -> Path:
    root = os.environ.get("MDPAX_REPO") or "/repo"
    p = Path(root)
    if not (p / "src" / "mdpax").is_dir():
        raise AnalysisError(f"no src/mdpax under repository root {root!r}")
    return p


class Module:
    def __init__(self, name: str, relpath: str, source: str):
        self.name = name  # dotted, e.g. mdpax.core.solver
        self.relpath = relpath  # relative to repo root
        self.source = source
        try:
            self.tree = ast.parse(source)
        except SyntaxError as e:  # a variant that does not compile is not a valid program
            raise AnalysisError(f"{relpath}: does not parse: {e}") from e
        self.lines = source.splitlines()
        self.imports: dict[str, str] = {}  # local alias -> dotted target
        self.functions: dict[str, ast.FunctionDef] = {}
        self.classes: dict[str, ast.ClassDef] = {}
        self.globals: dict[str, ast.AST] = {}  # simple module-level assignments
        self._index()

    def _index(self) -> None:
        pkg = self.name.rsplit(".", 1)[0] if "." in self.name else self.name
        is_pkg = self.relpath.endswith("__init__.py")
        for node in self.tree.body:
            if isinstance(node, ast.Import):
                for a in node.names:
                    self.imports[a.asname or a.name.split(".")[0]] = (
                        a.name if a.asname else a.name.split(".")[0]
                    )
            elif isinstance(node, ast.ImportFrom):
                base = node.module or ""
                if node.level:
                    parts = (self.name if is_pkg else pkg).split(".")
                    up = node.level - 1
                    parts = parts[: len(parts) - up] if up else parts
                    base = ".".join(parts + ([node.module] if node.module else []))
                for a in node.names:
                    self.imports[a.asname or a.name] = f"{base}.{a.name}"
            elif isinstance(node, ast.FunctionDef):
                self.functions[node.name] = node
            elif isinstance(node, ast.ClassDef):
                self.classes[node.name] = node
            elif isinstance(node, ast.Assign) and len(node.targets) == 1:
                t = node.targets[0]
                if isinstance(t, ast.Name):
                    self.globals[t.id] = node.value
            elif isinstance(node, ast.AnnAssign) and isinstance(node.target, ast.Name):
                if node.value is not None:
                    self.globals[node.target.id] = node.value

    def line(self, lineno: int) -> str:
        if 1 <= lineno <= len(self.lines):
            return self.lines[lineno - 1].strip()
        return ""


class Repo:
    """All modules under <root>/src/mdpax, optionally with an overlay {relpath: source}."""

    def __init__(self, root: Path | None = None, overlay: dict[str, str] | None = None):
        self.root = Path(root) if root is not None else repo_root()
        self.overlay = dict(overlay or {})
        self.modules: dict[str, Module] = {}
        self.by_relpath: dict[str, Module] = {}
        src = self.root / "src"
        files = sorted((src / "mdpax").rglob("*.py"))
        if not files:
            raise AnalysisError(f"no python files under {src / 'mdpax'}")
        seen = set()
        for f in files:
            rel = str(f.relative_to(self.root))
            seen.add(rel)
            text = self.overlay.get(rel)
            if text is None:
                text = f.read_text()
            self._add(rel, text)
        for rel, text in self.overlay.items():
            if rel not in seen and rel.startswith("src/mdpax/") and rel.endswith(".py"):
                self._add(rel, text)

    def _add(self, rel: str, text: str) -> None:
        parts = Path(rel).with_suffix("").parts[1:]  # drop 'src'
        if parts[-1] == "__init__":
            parts = parts[:-1]
        name = ".".join(parts)
        m = Module(name, rel, text)
        self.modules[name] = m
        self.by_relpath[rel] = m

    def module(self, name: str) -> Module:
        try:
            return self.modules[name]
        except KeyError:
            raise AnalysisError(f"anchor vanished: module {name}") from None

    def digest(self) -> str:
        h = hashlib.sha256()
        for rel in sorted(self.by_relpath):
            h.update(rel.encode())
            h.update(self.by_relpath[rel].source.encode())
        return h.hexdigest()[:16]

    def resolve_dotted(self, dotted: str):
        """Resolve 'mdpax.x.y.Name' to (Module, top-level node) if it lives in the repo.

        Follows re-exports through package __init__ modules (one alias hop per step)."""
        for _ in range(6):
            modname, _, attr = dotted.rpartition(".")
            m = self.modules.get(modname)
            if m is None:
                return None
            if attr in m.classes:
                return m, m.classes[attr]
            if attr in m.functions:
                return m, m.functions[attr]
            if attr in m.imports:
                dotted = m.imports[attr]
                continue
            if attr in m.globals:
                return m, m.globals[attr]
            return None
        return None


def unparse(node: ast.AST) -> str:
    return ast.unparse(node)


def norm_text(node: ast.AST | str) -> str:
    """Statement text normalised for finding keys: ast.unparse, single spaces, first line.

    Compound statements are keyed by their header only so that edits to the body of an
    `if` do not change the key of a finding about its test."""
    if isinstance(node, str):
        s = node
    elif isinstance(node, (ast.If, ast.While)):
        s = ("if " if isinstance(node, ast.If) else "while ") + ast.unparse(node.test)
    elif isinstance(node, ast.For):
        s = f"for {ast.unparse(node.target)} in {ast.unparse(node.iter)}"
    elif isinstance(node, (ast.FunctionDef, ast.ClassDef)):
        s = f"def {node.name}" if isinstance(node, ast.FunctionDef) else f"class {node.name}"
    elif isinstance(node, ast.Try):
        s = "try"
    elif isinstance(node, ast.With):
        s = "with " + ", ".join(ast.unparse(i) for i in node.items)
    else:
        s = ast.unparse(node)
    s = " ".join(s.split())
    return s[:160]
