"""Specialisation of inherited methods on class-level constants (part of the canonical program form, see canon.py).

A base class may describe what differs between its subclasses declaratively - `_info_fields = ("iteration", "gain")`,
`_state_class = RelativeValueIterationState` - and keep one generic method that reads `self._info_fields`.  For instances of a
given class that generic method IS the method with the class's constants written in, which is the shape the rules are written
against.  So: a class-level name bound to a literal or to a class / function of the package, never assigned through an instance
or the class anywhere in the package, is substituted where a method reads it through `self` / `cls`; a subclass that overrides
such a name and inherits the method gets its own copy of the method with its own values.  The table-driven loops and keyword
lists this exposes are unrolled by the statement normal forms afterwards.

Preconditions (otherwise nothing is rewritten): the method has no zero-argument `super()`, is not half of a property pair, its
free names mean the same in the subclass's module, and the constant's expression means the same there."""

from __future__ import annotations

import ast
import builtins
import copy

from .canon import _assigned_names, _is_literal


def _immutable_literal(e: ast.AST) -> bool:
    """a constant, or a tuple of such: a list / dict / set display in a class body is one shared MUTABLE object, not a constant"""
    if isinstance(e, ast.Constant):
        return True
    if isinstance(e, ast.UnaryOp) and isinstance(e.op, (ast.USub, ast.UAdd)) and isinstance(e.operand, ast.Constant):
        return True
    if isinstance(e, ast.Tuple):
        return all(_immutable_literal(x) for x in e.elts)
    return False


def _closed_value(ct, owner, e: ast.AST) -> bool:
    if _immutable_literal(e):
        return True
    if isinstance(e, ast.Name):
        dotted = ct.resolve_name(owner.module, e.id)
        if dotted in ct.by_qual:
            return True
        r = ct.repo.resolve_dotted(dotted)
        return bool(r and isinstance(r[1], (ast.ClassDef, ast.FunctionDef)))
    return False


def specialise_class_constants(ct) -> list[str]:
    log: list[str] = []
    written: set[str] = set()
    for m in ct.repo.modules.values():
        for n in ast.walk(m.tree):
            if isinstance(n, ast.Attribute) and isinstance(n.ctx, (ast.Store, ast.Del)):
                written.add(n.attr)
            elif isinstance(n, ast.Call) and isinstance(n.func, ast.Name) and n.func.id in ("setattr", "delattr") and len(n.args) >= 2:
                a = n.args[1]
                if isinstance(a, ast.Constant) and isinstance(a.value, str):
                    written.add(a.value)

    def const_of(k, x):
        for c in ct.mro(k):
            if x in c.methods:
                return None
            if x in c.attrs:
                if c.node.decorator_list or any(k.node.decorator_list for k in ct.mro(c)):
                    return None  # a dataclass field's default is not a constant of the instances
                return (c, c.attrs[x]) if _closed_value(ct, c, c.attrs[x]) else None
        return None

    def same_name_there(name: str, here, there) -> bool:
        if here is there:
            return True
        return ct.resolve_name(here, name) == ct.resolve_name(there, name) and (name in here.imports or name in here.classes or name in here.functions) \
            == (name in there.imports or name in there.classes or name in there.functions)

    classes = sorted(ct.by_qual.values(), key=lambda c: (len(ct.mro(c)), c.qualname))
    for b in classes:
        for mname, fn in list(b.methods.items()):
            if getattr(fn, "_specialised", False):
                continue
            reads: dict[str, list[ast.Attribute]] = {}
            for n in ast.walk(fn):
                if isinstance(n, ast.Attribute) and isinstance(n.ctx, ast.Load) and isinstance(n.value, ast.Name) and n.value.id in ("self", "cls") \
                        and n.attr not in written and const_of(b, n.attr) is not None:
                    reads.setdefault(n.attr, []).append(n)
            if not reads:
                continue
            if any(isinstance(n, ast.Call) and isinstance(n.func, ast.Name) and n.func.id == "super" for n in ast.walk(fn)):
                continue
            decos = [ast.unparse(d) for d in fn.decorator_list]
            if any(isinstance(it, ast.FunctionDef) and it is not fn and it.name == mname for it in b.node.body):
                continue  # a property pair (getter / setter share the name)
            if any(d not in ("property", "staticmethod", "classmethod") for d in decos) or "staticmethod" in decos:
                continue
            family = [b] + sorted(ct.subclasses(b), key=lambda c: (len(ct.mro(c)), c.qualname))
            if any(const_of(k, x) is None for k in family for x in reads):
                continue
            template = copy.deepcopy(fn)
            bound = {a.arg for a in fn.args.args + fn.args.kwonlyargs} | _assigned_names(fn.body)
            free = {n.id for n in ast.walk(fn) if isinstance(n, ast.Name) and isinstance(n.ctx, ast.Load) and n.id not in bound and not hasattr(builtins, n.id)}

            def values_for(k):
                return {x: const_of(k, x) for x in reads}

            def key(vals):
                return tuple(sorted((x, c.qualname) for x, (c, _e) in vals.items()))

            def instantiate(tree, vals):
                class S(ast.NodeTransformer):
                    def visit_Attribute(self, n):
                        self.generic_visit(n)
                        if isinstance(n.ctx, ast.Load) and isinstance(n.value, ast.Name) and n.value.id in ("self", "cls") and n.attr in vals:
                            return ast.copy_location(copy.deepcopy(vals[n.attr][1]), n)
                        return n
                tree.body = [S().visit(s) for s in tree.body]
                ast.fix_missing_locations(tree)
                tree._specialised = True  # type: ignore[attr-defined]
                return tree

            # feasibility of every copy before anything is changed
            plan = []
            planned: set[str] = set()
            held = {b.qualname: key(values_for(b))}
            feasible = True
            for k in family[1:]:
                r = ct.lookup(k, mname)
                if r is None or (r[1] is not fn and r[0].qualname not in planned):
                    continue  # overridden on the way down (a copy planned for an ancestor is still this method)
                src = next((c for c in ct.mro(k)[1:] if c.qualname in held), b)
                vals = values_for(k)
                if key(vals) == held[src.qualname]:
                    held[k.qualname] = held[src.qualname]
                    continue
                if not all(same_name_there(nm, b.module, k.module) for nm in free):
                    feasible = False
                    break
                for x, (c, e) in vals.items():
                    if isinstance(e, ast.Name) and not same_name_there(e.id, c.module, k.module):
                        feasible = False
                if not feasible:
                    break
                held[k.qualname] = key(vals)
                planned.add(k.qualname)
                plan.append((k, vals))
            bvals = values_for(b)
            for x, (c, e) in bvals.items():
                if isinstance(e, ast.Name) and not same_name_there(e.id, c.module, b.module):
                    feasible = False
            if not feasible:
                continue
            instantiate(fn, bvals)
            for k, vals in plan:
                new = instantiate(copy.deepcopy(template), vals)
                k.node.body.append(new)
                k.methods[mname] = new
                log.append(f"{k.module.relpath}:{k.node.lineno} {k.name}.{mname} = {b.name}.{mname} with {', '.join(sorted(vals))} of {k.name}")
            log.append(f"{b.module.relpath}:{fn.lineno} {b.name}.{mname}: class constants {', '.join(sorted(reads))} written in")
    return log
