"""Herbrand terms with a commutative-ring normaliser.

Terms are nested tuples (hashable, comparable by ==):

  ('const', v)                 v: Fraction | bool | None | str | float('inf')
  ('sym', name)
  ('poly', ((monomial, coef), ...))   monomial = ((atom, int power), ...) sorted, powers may be < 0
  ('app', fname, (args...))    uninterpreted application, canonical function name
  ('tuple', (items...))
  ('ix', tag, n)               index variable over an axis with that tag
  ('lam', ix, tag, body)       array whose leading axis (tag) is indexed by ix
  ('elem', base, (i, ...))     base[i, ...]
  ('red', op, ix, tag, body)   reduction (max/min/sum/argmax/any/all...) of body over ix
  ('ite', c, a, b)
  ('sumover', var, count, body)   Σ_{var < count} body
  ('scatter', base, idx, val) / ('atadd', base, idx, val)
  ('batched', X)               BatchProcessor.prepare_batches(X)

Arithmetic is normalised: equal(t, u) := t == u after construction through T_* functions,
which is complete for the polynomial / rational-monomial fragment and treats everything else
as an atom."""

from __future__ import annotations

from fractions import Fraction

ZERO = ("const", Fraction(0))
ONE = ("const", Fraction(1))
NONE = ("const", None)
TRUE = ("const", True)
FALSE = ("const", False)
INF = ("const", float("inf"))


def K(c) -> tuple:
    if isinstance(c, bool) or c is None or isinstance(c, str):
        return ("const", c)
    if isinstance(c, float):
        if c != c or c in (float("inf"), float("-inf")):
            return ("const", c)
        return ("const", Fraction(repr(c)))
    return ("const", Fraction(c))


def S(name: str) -> tuple:
    return ("sym", name)


def is_num(t) -> bool:
    return t[0] == "const" and isinstance(t[1], Fraction)


def _key(x):
    return repr(x)


# ------------------------------------------------------------------ polynomials
def P_const(c):
    c = Fraction(c)
    return {(): c} if c != 0 else {}


def P_atom(a, power=1):
    return {((a, power),): Fraction(1)}


def P_add(p, q, s=1):
    r = dict(p)
    for m, c in q.items():
        v = r.get(m, 0) + s * c
        if v == 0:
            r.pop(m, None)
        else:
            r[m] = v
    return r


def mono_mul(m1, m2):
    d = {}
    for a, k in m1 + m2:
        d[a] = d.get(a, 0) + k
    return tuple(sorted(((a, k) for a, k in d.items() if k != 0), key=_key))


def P_mul(p, q):
    r = {}
    for m1, c1 in p.items():
        for m2, c2 in q.items():
            m = mono_mul(m1, m2)
            v = r.get(m, 0) + c1 * c2
            if v == 0:
                r.pop(m, None)
            else:
                r[m] = v
    return r


def mk_poly(p):
    if not p:
        return ZERO
    if len(p) == 1:
        ((m, c),) = p.items()
        if m == ():
            return ("const", c)
        if c == 1 and len(m) == 1 and m[0][1] == 1:
            return m[0][0]
    return ("poly", tuple(sorted(p.items(), key=_key)))


def to_poly(t):
    if is_num(t):
        return P_const(t[1])
    if t[0] == "const" and isinstance(t[1], bool):
        return P_const(int(t[1]))
    if t[0] == "poly":
        return dict(t[1])
    return P_atom(t)


def T_add(a, b, s=1):
    return mk_poly(P_add(to_poly(a), to_poly(b), s))


def T_sub(a, b):
    return T_add(a, b, -1)


def T_neg(a):
    return T_mul(K(-1), a)


def T_mul(a, b):
    return mk_poly(P_mul(to_poly(a), to_poly(b)))


def T_inv(b):
    """1/b: exact for constants and monomials, otherwise the atom inv(b) with inv(inv(x)) = x."""
    p = to_poly(b)
    if not p:
        return ("app", "inv", (ZERO,))
    if len(p) == 1:
        ((m, c),) = p.items()
        return mk_poly({tuple(sorted(((a, -k) for a, k in m), key=_key)): 1 / c})
    if b[0] == "app" and b[1] == "inv":
        return b[2][0]
    return ("app", "inv", (b,))


def T_div(a, b):
    return T_mul(a, T_inv(b))


def T_pow(base, e):
    if is_num(e) and e[1].denominator == 1 and abs(e[1]) <= 12:
        k = int(e[1])
        if k == 0:
            return ONE
        r = ONE
        for _ in range(abs(k)):
            r = T_mul(r, base)
        return r if k > 0 else T_inv(r)
    if is_num(base) and is_num(e):
        try:
            v = float(base[1]) ** float(e[1])
            return K(v)
        except Exception:
            pass
    return ("app", "pow", (base, e))


def T_inv_pow_aware(b):
    """1/pow(x, e) = pow(x, -e)."""
    if b[0] == "app" and b[1] == "pow":
        return ("app", "pow", (b[2][0], T_neg(b[2][1])))
    return T_inv(b)


def T_truediv(a, b):
    return T_mul(a, T_inv_pow_aware(b))


def T_mod(x, m):
    """Mod with the rewrites  Mod(Mod(y,m) + c, m) -> Mod(y + c, m)  and removal of
    integer multiples of m; numeric arguments are evaluated."""
    if is_num(x) and is_num(m) and m[1] != 0:
        return K(x[1] % m[1])
    p = to_poly(x)
    out = {}
    for mono, c in p.items():
        if (
            len(mono) == 1
            and mono[0][1] == 1
            and mono[0][0][0] == "app"
            and mono[0][0][1] == "mod"
            and mono[0][0][2][1] == m
            and c.denominator == 1
        ):
            out = P_add(out, to_poly(mono[0][0][2][0]), c)
        else:
            out = P_add(out, {mono: c})
    x2 = mk_poly(out)
    x2 = mod_canon(x2, m)
    return ("app", "mod", (x2, m))


def mod_canon(x, m):
    """Canonical representative of x modulo m: subtract k*m for the k in -4..4 that makes the
    constant coefficient smallest non-negative *as a polynomial heuristic*: we pick the k
    minimising the number of monomials, ties by smallest |constant|."""
    best = None
    for k in range(-4, 5):
        cand = T_sub(x, T_mul(K(k), m))
        p = to_poly(cand)
        score = (len(p), abs(p.get((), 0)), k < 0, abs(k))
        if best is None or score < best[0]:
            best = (score, cand)
    return best[1]


def mod_equiv(a, b, m) -> bool:
    """a ≡ b (mod m): a − b is an integer multiple k·m for |k| ≤ 6."""
    d = T_sub(a, b)
    for k in range(-6, 7):
        if T_sub(d, T_mul(K(k), m)) == ZERO:
            return True
    return False


def T_sum(ix, tag, body):
    """Σ_{ix} body, normalised by linearity: sums distribute over + and factors that do not
    depend on the index move out, so  Σ_e p*(r + g*v)  ==  Σ_e p*r + g*Σ_e p*v."""
    if body[0] in ("lam", "tuple"):
        return ("red", "sum", ix, tag, body)
    p = to_poly(body)
    if not p:
        return ZERO
    out = {}
    for mono, c in p.items():
        dep = tuple((a, k) for a, k in mono if occurs(a, lambda x: x == ix))
        indep = tuple((a, k) for a, k in mono if (a, k) not in dep)
        inner = mk_poly({dep: Fraction(1)}) if dep else ONE
        atom = ("red", "sum", ix, tag, inner)
        out = P_add(out, P_mul({indep: c}, P_atom(atom)))
    return mk_poly(out)


def T_floordiv(a, b):
    if is_num(a) and is_num(b) and b[1] != 0:
        return K(a[1] // b[1])
    return ("app", "floordiv", (a, b))


def T_ite(c, a, b):
    if c == TRUE:
        return a
    if c == FALSE:
        return b
    if a == b:
        return a
    # canonical polarity: conditions are positive (`not`, `!=`, `<=` select the swapped branches),
    # so `if c: A else: B` and `if not c: B else: A` are the same term
    if c[0] == "app" and c[1] == "not":
        return T_ite(c[2][0], b, a)
    if c[0] == "app" and c[1] == "cmpNotEq":
        return ("ite", ("app", "cmpEq", c[2]), b, a)
    if c[0] == "app" and c[1] == "cmpLtE":
        return ("ite", ("app", "cmpLt", (c[2][1], c[2][0])), b, a)
    return ("ite", c, a, b)


def vnorm(t):
    """Normal form of 1-D vector compositions, applied to both sides of a term identity: nested hstack / concatenate
    flattened; `x[:k]` is `x[0:k]`; inside a concatenation a one-element slice `x[-1:]` / `x[k:k+1]` is the element
    `x[-1]` / `x[k]`; a stack of scalars is the concatenation of those scalars."""
    if not isinstance(t, tuple) or not t:
        return t
    if t[0] == "poly":
        m = {}
        for mono, _c in t[1]:
            for a, _p in mono:
                na = vnorm(a)
                if na != a:
                    m[a] = na
        return subst(t, m) if m else t
    t = tuple(vnorm(x) if isinstance(x, tuple) else x for x in t)
    if t[0] == "app" and t[1] == "slice" and len(t[2]) == 4 and t[2][3] == NONE and t[2][1] == NONE:
        t = ("app", "slice", (t[2][0], ZERO, t[2][2], NONE))
    if t[0] == "app" and t[1] == "stack" and all(isinstance(x, tuple) and x and x[0] != "lam" and not (x[0] == "app" and x[1] in ("slice", "hstack", "stack", "array"))
                                                 for x in t[2]):
        t = ("app", "hstack", t[2])
    if t[0] == "app" and t[1] == "hstack":
        items = []
        for x in t[2]:
            if isinstance(x, tuple) and x and x[0] == "app" and x[1] == "hstack":
                items.extend(x[2])
            else:
                items.append(x)
        out = []
        for x in items:
            if isinstance(x, tuple) and x and x[0] == "app" and x[1] == "slice" and len(x[2]) == 4 and x[2][3] == NONE:
                base, lo, hi = x[2][0], x[2][1], x[2][2]
                if lo == K(-1) and hi == NONE:
                    x = ("elem", base, (K(-1),))
                elif hi != NONE and lo != NONE and T_sub(hi, lo) == ONE:
                    x = ("elem", base, (lo,))
            out.append(x)
        t = ("app", "hstack", tuple(out))
    return t


def case_table(t, max_atoms: int = 6):
    """A nested where / ite over boolean conditions as a decision table: {assignment of the atomic conditions: leaf}.
    None if the term is not of that shape or has too many atoms."""
    atoms: list = []

    def cond_atoms(c):
        if isinstance(c, tuple) and c and c[0] == "app" and c[1] in ("and", "or", "not"):
            for x in c[2]:
                cond_atoms(x)
        elif c not in atoms:
            atoms.append(c)

    def collect(x):
        if isinstance(x, tuple) and x and x[0] == "app" and x[1] == "where" and len(x[2]) == 3:
            cond_atoms(x[2][0]); collect(x[2][1]); collect(x[2][2])
        elif isinstance(x, tuple) and x and x[0] == "ite":
            cond_atoms(x[1]); collect(x[2]); collect(x[3])

    collect(t)
    if not atoms or len(atoms) > max_atoms:
        return None, None
    atoms_sorted = sorted(atoms, key=repr)

    def ev_c(c, env):
        if isinstance(c, tuple) and c and c[0] == "app" and c[1] == "and":
            return all(ev_c(x, env) for x in c[2])
        if isinstance(c, tuple) and c and c[0] == "app" and c[1] == "or":
            return any(ev_c(x, env) for x in c[2])
        if isinstance(c, tuple) and c and c[0] == "app" and c[1] == "not":
            return not ev_c(c[2][0], env)
        return env[c]

    def ev_t(x, env):
        if isinstance(x, tuple) and x and x[0] == "app" and x[1] == "where" and len(x[2]) == 3:
            return ev_t(x[2][1], env) if ev_c(x[2][0], env) else ev_t(x[2][2], env)
        if isinstance(x, tuple) and x and x[0] == "ite":
            return ev_t(x[2], env) if ev_c(x[1], env) else ev_t(x[3], env)
        return x

    import itertools as _it
    table = {}
    for bits in _it.product((False, True), repeat=len(atoms_sorted)):
        env = dict(zip(atoms_sorted, bits))
        table[bits] = ev_t(t, env)
    return tuple(atoms_sorted), table


def case_equal(a, b) -> bool:
    """Two nested conditionals select the same leaf under every truth assignment of their (shared) atomic conditions."""
    aa, ta = case_table(a)
    ab, tb = case_table(b)
    if aa is None or ab is None or set(aa) != set(ab):
        return False
    return aa == ab and ta == tb


def lift_ite(t, cond, budget: int = 64):
    """Pull the conditional on `cond` to the top: f(.., ite(cond, a, b), ..) -> ite(cond, f(.., a, ..), f(.., b, ..)), so
    that `x = ite(c, a, b); return f(x)` and `if c: return f(a) ... return f(b)` are the same term.  Binders are not crossed."""
    if not isinstance(t, tuple) or not t or budget <= 0:
        return t
    k = t[0]
    if k == "ite" and t[1] == cond:
        return T_ite(cond, lift_ite(t[2], cond, budget - 1), lift_ite(t[3], cond, budget - 1))
    if k == "app":
        args = tuple(lift_ite(a, cond, budget - 1) for a in t[2])
        for i, a in enumerate(args):
            if isinstance(a, tuple) and a and a[0] == "ite" and a[1] == cond:
                yes = ("app", t[1], args[:i] + (a[2],) + args[i + 1:])
                no = ("app", t[1], args[:i] + (a[3],) + args[i + 1:])
                return T_ite(cond, lift_ite(yes, cond, budget - 1), lift_ite(no, cond, budget - 1))
        return ("app", t[1], args)
    return t


def T_cmp(op, a, b):
    if is_num(a) and is_num(b):
        x, y = a[1], b[1]
        return K(
            {"Lt": x < y, "LtE": x <= y, "Gt": x > y, "GtE": x >= y, "Eq": x == y, "NotEq": x != y}[op]
        )
    if op in ("Eq", "NotEq") and a[0] == "const" and b[0] == "const":
        return K((a[1] == b[1]) == (op == "Eq"))
    # canonical direction: Gt/GtE are rewritten to Lt/LtE with swapped operands
    if op == "Gt":
        return ("app", "cmpLt", (b, a))
    if op == "GtE":
        return ("app", "cmpLtE", (b, a))
    if op in ("Eq", "NotEq"):
        a, b = sorted((a, b), key=_key)
    return ("app", "cmp" + op, (a, b))


def T_not(c):
    if c == TRUE:
        return FALSE
    if c == FALSE:
        return TRUE
    if c[0] == "app" and c[1].startswith("cmp"):
        flip = {"cmpLt": "cmpLtE", "cmpLtE": "cmpLt", "cmpEq": "cmpNotEq", "cmpNotEq": "cmpEq"}
        op = c[1]
        a, b = c[2]
        if op in ("cmpLt", "cmpLtE"):
            return ("app", flip[op], (b, a))
        if op in flip:
            return ("app", flip[op], (a, b))
    if c[0] == "app" and c[1] == "not":
        return c[2][0]
    return ("app", "not", (c,))


# ----------------------------------------------------------------- substitution
def subst(t, m):
    """Replace sub-terms according to the mapping m, re-normalising arithmetic."""
    if not m:
        return t
    try:
        if t in m:
            return m[t]
    except TypeError:
        pass
    if not isinstance(t, tuple) or not t:
        return t
    k = t[0]
    if k == "poly":
        r = {}
        for mono, c in t[1]:
            q = P_const(c)
            for a, p in mono:
                aa = subst(a, m)
                if p > 0:
                    for _ in range(p):
                        q = P_mul(q, to_poly(aa))
                else:
                    ia = T_inv(aa)
                    for _ in range(-p):
                        q = P_mul(q, to_poly(ia))
            r = P_add(r, q)
        return mk_poly(r)
    if k in ("const", "sym", "ix"):
        return t
    if k == "app":
        args = tuple(subst(x, m) for x in t[2])
        return rebuild_app(t[1], args)
    if k == "elem":
        base = subst(t[1], m)
        idx = tuple(subst(i, m) for i in t[2])
        return elem_many(base, idx)
    if k == "ite":
        return T_ite(subst(t[1], m), subst(t[2], m), subst(t[3], m))
    return tuple(subst(x, m) if isinstance(x, tuple) else x for x in t)


def rebuild_app(name, args):
    if name == "mod":
        return T_mod(args[0], args[1])
    if name == "inv":
        return T_inv(args[0])
    if name == "pow":
        return T_pow(args[0], args[1])
    if name.startswith("cmp") and len(args) == 2:
        return T_cmp(name[3:], args[0], args[1])
    return ("app", name, args)


def elem(t, i):
    """t[i] along the leading axis."""
    k = t[0]
    if k == "lam":
        return subst(t[3], {t[1]: i})
    if k == "elem":
        return ("elem", t[1], t[2] + (i,))
    if k == "tuple":
        return ("tuple", tuple(elem(x, i) for x in t[1]))
    if k == "ite":
        return T_ite(t[1], elem(t[2], i), elem(t[3], i))
    return ("elem", t, (i,))


def elem_many(base, idx):
    for i in idx:
        base = elem(base, i)
    return base


def occurs(t, pred) -> bool:
    if pred(t):
        return True
    if isinstance(t, tuple):
        return any(occurs(x, pred) for x in t if isinstance(x, tuple))
    return False


def subterms(t):
    """All sub-terms (tuples whose head is a kind string), polynomial atoms included."""
    if isinstance(t, tuple) and t and isinstance(t[0], str):
        yield t
    if isinstance(t, tuple):
        for x in t:
            if isinstance(x, tuple):
                yield from subterms(x)


def free_syms(t) -> set[str]:
    return {x[1] for x in subterms(t) if x and x[0] == "sym"}


# ------------------------------------------------------------------- rendering
def show(t, depth=0) -> str:
    if not isinstance(t, tuple) or not t:
        return repr(t)
    k = t[0]
    if k == "sym":
        return t[1]
    if k == "const":
        v = t[1]
        if isinstance(v, Fraction):
            return str(v.numerator) if v.denominator == 1 else f"{v.numerator}/{v.denominator}"
        return repr(v)
    if k == "ix":
        return f"{t[1]}{t[2]}"
    if k == "elem":
        return f"{show(t[1])}[{','.join(show(i) for i in t[2])}]"
    if k == "lam":
        return f"[{show(t[1])} -> {show(t[3])}]"
    if k == "red":
        return f"{t[1]}_{{{show(t[2])}}}({show(t[4])})"
    if k == "app":
        if t[1].startswith("cmp") and len(t[2]) == 2:
            op = {"Lt": "<", "LtE": "<=", "Eq": "==", "NotEq": "!=", "Is": "is", "IsNot": "is not", "In": "in", "NotIn": "not in"}.get(t[1][3:], t[1][3:])
            return f"({show(t[2][0])} {op} {show(t[2][1])})"
        return f"{t[1]}({', '.join(show(x) for x in t[2])})"
    if k == "tuple":
        return "(" + ", ".join(show(x) for x in t[1]) + ")"
    if k == "poly":
        out = []
        for mono, c in t[1]:
            s = "*".join((show(a) + (f"^{p}" if p != 1 else "")) for a, p in mono)
            cs = show(("const", c))
            out.append((f"{cs}*" if c != 1 else "") + s if s else cs)
        return "(" + " + ".join(out) + ")"
    if k == "ite":
        return f"ite({show(t[1])}, {show(t[2])}, {show(t[3])})"
    if k == "sumover":
        return f"Σ_{{{show(t[1])}<{show(t[2])}}}({show(t[3])})"
    if k in ("scatter", "atadd"):
        return f"{k}({show(t[1])} @ {show(t[2])} := {show(t[3])})"
    if k == "batched":
        return f"batched({show(t[1])})"
    if k == "take":
        return f"take({show(t[1])}, {show(t[2])})"
    return "<" + " ".join(show(x) if isinstance(x, tuple) else str(x) for x in t) + ">"


import re as _re


def show_norm(t) -> str:
    """Rendering with index-variable numbers erased (stable across runs / α-renaming)."""
    return _re.sub(r"\b(act|ev|slot|dev|batch|state|sdim|adim|edim|dim|\?)(\d+)", r"\1#", show(t))


def alpha_norm(t, depth=0):
    """α-normalise bound index variables to de Bruijn *levels* (binder at nesting depth d is
    named L<d>), re-normalising polynomials afterwards.  Independent of fresh-name numbering
    and of the order in which sibling sub-terms were sorted."""
    if not isinstance(t, tuple) or not t:
        return t
    if not isinstance(t[0], str):
        return tuple(alpha_norm(x, depth) if isinstance(x, tuple) else x for x in t)
    k = t[0]
    if k in ("const", "sym", "ix"):
        return t
    if k == "lam":
        new = ("ix", t[2], f"L{depth}")
        return ("lam", new, t[2], alpha_norm(subst(t[3], {t[1]: new}), depth + 1))
    if k == "red":
        new = ("ix", t[3], f"L{depth}")
        return ("red", t[1], new, t[3], alpha_norm(subst(t[4], {t[2]: new}), depth + 1))
    if k == "sumover":
        new = ("ix", "sum", f"L{depth}")
        return ("sumover", new, alpha_norm(t[2], depth), alpha_norm(subst(t[3], {t[1]: new}), depth + 1))
    if k == "poly":
        r = {}
        for mono, c in t[1]:
            q = P_const(c)
            for a, pw in mono:
                aa = alpha_norm(a, depth)
                base = to_poly(aa) if pw > 0 else to_poly(T_inv(aa))
                for _ in range(abs(pw)):
                    q = P_mul(q, base)
            r = P_add(r, q)
        return mk_poly(r)
    if k == "app":
        return rebuild_app(t[1], tuple(alpha_norm(x, depth) if isinstance(x, tuple) else x for x in t[2]))
    if k == "elem":
        return ("elem", alpha_norm(t[1], depth), tuple(alpha_norm(i, depth) for i in t[2]))
    return tuple(alpha_norm(x, depth) if isinstance(x, tuple) else x for x in t)


def subst_binders(t, m):
    """subst that also renames binder positions of lam/red/sumover."""
    if not isinstance(t, tuple) or not t:
        return t
    if t in m:
        return m[t]
    k = t[0]
    if k == "poly":
        return subst(t, m)
    if k in ("const", "sym"):
        return t
    if k == "app":
        return rebuild_app(t[1], tuple(subst_binders(x, m) for x in t[2]))
    return tuple(subst_binders(x, m) if isinstance(x, tuple) else x for x in t)


NARROW_INT_DTYPES = ("uint8", "int8", "uint16", "int16", "bool", "bool_")


def indices_space(t):
    """(D, M, dtype) when t is the dense-grid idiom  np.indices(D[, dtype=..]).reshape(len(D), -1).T + M : all offsets in the box D,
    one per row, in row-major order (the same enumeration as itertools.product over arange(D[i])), translated by M; else None.
    `dtype` is the short name of an explicit dtype of the offsets (they run up to D[i] - 1) or None."""
    if not (isinstance(t, tuple) and t):
        return None

    def core(a):
        if not (a[0] == "app" and a[1] == "transpose" and len(a[2]) == 1):
            return None
        r = a[2][0]
        if not (r[0] == "app" and r[1] == "reshape" and len(r[2]) == 3 and r[2][2] == K(-1)):
            return None
        g, n = r[2][0], r[2][1]
        if not (g[0] == "app" and g[1] == "np.indices" and g[2]):
            return None
        pos = [x for x in g[2] if x[0] != "kw"]
        kws = {x[1]: x[2] for x in g[2] if x[0] == "kw"}
        if len(pos) != 1 or set(kws) - {"dtype"}:
            return None
        d = pos[0]
        def vec_atoms(x):
            return {a for mono, _c in x[1] for a, _p in mono} if x[0] == "poly" else {x}
        # the row count is len(D), or len of another pointwise ring expression over the same vectors (it has the same length)
        if not (n[0] == "app" and n[1] == "len" and len(n[2]) == 1 and (n[2][0] == d or vec_atoms(n[2][0]) == vec_atoms(d))):
            return None
        dt = kws.get("dtype")
        name = None
        if dt is not None:
            name = show(dt).replace(">", "").split(".")[-1].strip()
        return d, name

    c = core(t)
    if c is not None:
        return c[0], K(0), c[1]
    if t[0] == "poly":
        for mono, coef in t[1]:
            if coef == 1 and len(mono) == 1 and mono[0][1] == 1:
                c = core(mono[0][0])
                if c is not None:
                    rest = T_sub(t, mono[0][0])
                    if any(x == mono[0][0] for x in subterms(rest)):
                        return None
                    return c[0], rest, c[1]
    return None



def meshgrid_space(t):
    """(ranges, indexing) when t is  np.stack(np.meshgrid(*ranges[, indexing=..]), axis=-1).reshape(N, len(ranges)) : one row per grid
    point.  With indexing='ij' the rows come in row-major order of the ranges (the enumeration of itertools.product); with the default
    'xy' the first two axes are swapped, so for two or more ranges the rows come in another order.  Else None."""
    if not (isinstance(t, tuple) and t and t[0] == "app" and t[1] == "reshape" and len(t[2]) == 3):
        return None
    st, _n, k = t[2]
    if not (st[0] == "app" and st[1] == "stack" and len(st[2]) == 2 and st[2][1] == ("kw", "axis", K(-1))):
        return None
    mg = st[2][0]
    if not (mg[0] == "app" and mg[1] in ("?np.meshgrid", "np.meshgrid", "?jnp.meshgrid", "jnp.meshgrid")):
        return None
    pos = [x for x in mg[2] if x[0] != "kw"]
    kws = {x[1]: x[2] for x in mg[2] if x[0] == "kw"}
    if len(pos) != 1 or pos[0][0] != "star" or set(kws) - {"indexing", "copy", "sparse"}:
        return None
    if kws.get("sparse", ("const", False)) != ("const", False):
        return None
    ranges = pos[0][1]
    if not (k[0] == "app" and k[1] == "len" and len(k[2]) == 1 and k[2][0] == ranges):
        return None
    ix = kws.get("indexing", ("const", "xy"))
    if ix[0] != "const" or ix[1] not in ("ij", "xy"):
        return None
    return ranges, ix[1]


def canonical_space(t):
    """A space chosen between alternative constructions (`ite`) all of which are the same enumeration is that enumeration;
    the ij-indexed meshgrid idiom is the product of its ranges.  Anything else is returned unchanged."""
    if not (isinstance(t, tuple) and t):
        return t
    if t[0] == "ite":
        a, b = canonical_space(t[2]), canonical_space(t[3])
        if repr(alpha_norm(a)) == repr(alpha_norm(b)):
            return a
        return t
    mg = meshgrid_space(t)
    if mg is not None and mg[1] == "ij":
        return ("app", "itertools.product", (("star", mg[0]),))
    return t
