"""Shared analysis of the semi-asynchronous sweep (used by C03 and C06)."""

from __future__ import annotations

from ..interp import fresh
from ..loader import AnalysisError
from ..terms import K, S, T_mul, alpha_norm, show_norm, subst, subterms
from .kernels import ACTIONS, SS, q_oracle, run_method
from .solverterms import GAMMA, same

N_STATES = S("problem.n_states")


class SaviSweep:
    def __init__(self, ctx, shuffle: bool):
        self.ctx = ctx
        self.shuffle = shuffle
        self.cls = ctx.ct.get("SemiAsyncValueIteration")
        self.I, self.step = run_method(ctx, self.cls, "_iteration_step", shuffle=shuffle, extra={"key": S("KEY")})
        recs = [s for s in self.I.scans if s["kind"] == "recurrence"]
        maps = [s for s in self.I.scans if s["kind"] == "map"]
        self.recs, self.maps = recs, maps
        self.rec = recs[0] if len(recs) == 1 else None
        self.new = self.step[1][0] if self.step[0] == "tuple" else None

    # --- pieces of the recurrence
    def parts(self):
        """(C, row, idx_lam, val_lam, dbk) or raises AnalysisError with a reason."""
        r = self.rec
        if r is None:
            return None
        carry, cout = r["carry"], r["carry_out"]
        if carry[0] != "tuple" or cout[0] != "tuple":
            return None
        return carry, cout

    def carry_symbol(self):
        r = self.rec
        if r is None or r["changed"] in ([None],):
            return None
        ks = r["changed"]
        return ks, [r["carry"][1][k] for k in ks]


def mask_term(I, batched_x, dbk):
    """The documented padding mask for slot (d,b,k): flat index >= n_states."""
    total = T_mul(T_mul(("app", "shape", (batched_x, K(0))), ("app", "shape", (batched_x, K(1)))), ("app", "shape", (batched_x, K(2))))
    flat = ("app", "cmpLtE", (N_STATES, ("app", "arange", (total,))))
    return ("elem", ("rebatched", flat, batched_x), tuple(dbk))


def normalise_mask(m, batched_x):
    """Other spellings of the documented mask, brought to `arange(total) >= n_states`:
    * `max(total - n_states, 0)` with total = the slot count of the batched array is `total - n_states`, because the slots cover the
      states (total >= n_states: the coverage fact decided by C18 R18.4);
    * `concatenate([zeros(a, bool), ones(b, bool)])` is `arange(a + b) >= a` (a leading False, b trailing True)."""
    from ..terms import T_add, T_sub, ZERO
    total = T_mul(T_mul(("app", "shape", (batched_x, K(0))), ("app", "shape", (batched_x, K(1)))), ("app", "shape", (batched_x, K(2))))
    pad = T_sub(total, N_STATES)
    mp = {}
    for t in subterms(m):
        if t[0] == "app" and t[1] == "pymax" and len(t[2]) == 2 and set(t[2]) == {ZERO, pad}:
            mp[t] = pad
    m2 = subst(m, mp) if mp else m
    mp2 = {}
    for t in subterms(m2):
        if t[0] == "app" and t[1] == "hstack" and len(t[2]) == 2:
            z, o = t[2]
            def arr(x, names):
                if x[0] == "app" and x[1] in names and x[2]:
                    pos = [a for a in x[2] if a[0] != "kw"]
                    kws = {a[1]: a[2] for a in x[2] if a[0] == "kw"}
                    if len(pos) == 1 and set(kws) <= {"dtype"} and kws.get("dtype", ("builtin", "bool")) in (("builtin", "bool"), ("mod", "jnp.bool_"), ("mod", "np.bool_")) and "dtype" in kws:
                        return pos[0]
                return None
            a_, b_ = arr(z, ("zeros", "np.zeros", "jnp.zeros")), arr(o, ("ones", "np.ones", "jnp.ones"))
            if a_ is not None and b_ is not None:
                mp2[t] = ("app", "cmpLtE", (a_, ("app", "arange", (T_add(a_, b_),))))
    return subst(m2, mp2) if mp2 else m2


def analyse_recurrence(sw: SaviSweep):
    """Returns dict of named boolean facts + details about one symbolic scan step."""
    I = sw.I
    out = {"ok_single_recurrence": sw.rec is not None, "details": {}}
    if sw.rec is None:
        out["details"]["why"] = f"{len(sw.recs)} evolving scans found (carry returned unchanged means plain Jacobi)"
        return out
    r = sw.rec
    changed = r["changed"]
    out["changed"] = changed
    out["only_values_evolve"] = changed == [3]
    if changed != [3]:
        out["details"]["why"] = f"evolving carry components {changed}, expected only #3 (values)"
        return out
    C = r["carry"][1][3]
    co = r["carry_out"][1][3]
    out["carry_in"] = C
    # carry_out[3] == scatter(C, [k -> idx(row_k)], [k -> where(mask_k, C[idx(row_k)], B_C(row_k))])
    if co[0] != "scatter" or co[1] != C:
        out["scatter_shape"] = False
        out["details"]["why"] = f"carried values become {show_norm(co)[:160]}, not a scatter into the carried values"
        return out
    idx_lam, val_lam = co[2], co[3]
    if idx_lam[0] != "lam" or val_lam[0] != "lam" or idx_lam[2] != "slot" or val_lam[2] != "slot":
        out["scatter_shape"] = False
        out["details"]["why"] = "scatter index/value are not per-slot comprehensions"
        return out
    out["scatter_shape"] = True
    k = fresh("slot")
    idx_k = subst(idx_lam[3], {idx_lam[1]: k})
    val_k = subst(val_lam[3], {val_lam[1]: k})
    # row
    rows = [t for t in subterms(idx_k) if t[0] == "elem" and t[1][0] == "batched" and len(t[2]) == 3]
    if not rows:
        out["index_ok"] = False
        out["details"]["why"] = f"scatter index {show_norm(idx_k)[:120]} is not state_to_index of the batch row"
        return out
    row = rows[0]
    out["row"] = row
    out["batched"] = row[1]
    dbk = row[2]
    out["index_ok"] = idx_k == ("app", "problem.state_to_index", (row,))
    a = fresh("act")
    bell = ("red", "max", a, "act", q_oracle(I, row, I.elem(ACTIONS, a), values=C, gamma=GAMMA))
    out["bellman_from_carry"] = bell
    cur = I.elem(C, ("app", "problem.state_to_index", (row,)))
    want_mask = mask_term(I, row[1], dbk)
    want_val = ("app", "where", (want_mask, cur, bell))
    out["value_ok"] = same(val_k, want_val)
    if not out["value_ok"] and val_k[0] == "app" and val_k[1] == "where" and len(val_k[2]) == 3:
        nm_ = normalise_mask(val_k[2][0], row[1])
        if nm_ != val_k[2][0]:
            val_k = ("app", "where", (nm_,) + tuple(val_k[2][1:]))
            out["value_ok"] = same(val_k, want_val)
    if not out["value_ok"]:
        # diagnose
        if val_k[0] == "app" and val_k[1] == "where" and len(val_k[2]) == 3:
            m, c_, n_ = val_k[2]
            out["mask_ok"] = same(m, want_mask)
            cached_ = sorted({t[1] for t in subterms(m) if t[0] == "sym" and isinstance(t[1], str) and t[1].startswith("self._")})
            if not out["mask_ok"] and cached_:
                raise AnalysisError(f"SemiAsyncValueIteration: the padding mask is read from solver state {cached_} that the sweep itself assigns (a cache): whether "
                                    "it is the documented mask depends on what earlier calls stored; the rule gives no verdict")
            known_bp = {"n_pad", "n_devices", "n_batches", "batch_size", "n_states", "batch_shape", "max_batch_size", "state_dim"}
            opaque_ = sorted({t[1] for t in subterms(m) if t[0] == "sym" and isinstance(t[1], str) and t[1].startswith("batch_processor.")
                              and t[1].split(".", 1)[1].split("[")[0] not in known_bp})
            if not out["mask_ok"] and opaque_:
                # not a comparison over the flat slot index at all (a table, a concatenation, a cumulative count, ..): the rule has no normal form
                # for this way of building a mask, so it gives no verdict
                raise AnalysisError(f"SemiAsyncValueIteration: the padding mask is read from {opaque_}, which the BatchProcessor summary does not describe (the rule "
                                    f"knows the mask as a comparison of the flat slot index arange(total) with n_states): {show_norm(m)[:160]}")
            out["keep_ok"] = same(c_, cur)
            out["new_ok"] = same(n_, bell)
            out["details"]["mask"] = show_norm(m)[:200]
        else:
            out["mask_ok"] = False
            out["keep_ok"] = out["new_ok"] = same(val_k, bell)
            out["details"]["why"] = "scattered value is not where(mask, carried value, new value): padded rows overwrite a real state"
    else:
        out["mask_ok"] = out["keep_ok"] = out["new_ok"] = True
    # outputs
    y = r["y"]
    yk = subst(y[3], {y[1]: k}) if y[0] == "lam" else None
    out["y_ok"] = yk is not None and same(yk, bell)
    out["mask_travels_with_states"] = True
    return out


def is_zero_like(t) -> bool:
    from ..terms import ZERO
    return t == ZERO or (isinstance(t, tuple) and t and t[0] == "app" and t[1] in ("zeros", "zeros_like"))


def is_permutation(t) -> bool:
    """a term that is a permutation of 0..n-1 by construction"""
    return isinstance(t, tuple) and bool(t) and t[0] == "app" and t[1].split(".")[-1] in ("permutation", "argsort")


def perm_rewrite(t):
    """p[argsort(p)[m]] -> m for any term p."""
    if not isinstance(t, tuple) or not t:
        return t
    if t[0] == "poly":
        m = {}
        for mono, _c in t[1]:
            for a, _p in mono:
                na = perm_rewrite(a)
                if na != a:
                    m[a] = na
        return subst(t, m) if m else t
    t2 = tuple(perm_rewrite(x) if isinstance(x, tuple) else x for x in t)
    # zeros.at[p].set(arange(len(p))) is the inverse of a permutation p, i.e. argsort(p)
    if t2[0] == "scatter" and len(t2) == 4 and t2[1] == ("const", 0) or (t2[0] == "scatter" and len(t2) == 4 and is_zero_like(t2[1])):
        p_, val = t2[2], t2[3]
        if val == ("app", "arange", (("app", "len", (p_,)),)) and is_permutation(p_):
            return ("app", "argsort", (p_,))
    # zeros_like(v).at[p].set(v) for a permutation p of all positions writes every position once: out[p[k]] = v[k], i.e. out[m] = v[argsort(p)[m]]
    if t2[0] == "scatter" and len(t2) == 4 and (t2[1] == ("const", 0) or is_zero_like(t2[1])) and is_permutation(t2[2]) \
            and t2[3][0] == "lam" and t2[3][2] == "state":
        m_ = fresh("state")
        body = subst(t2[3][3], {t2[3][1]: ("elem", ("app", "argsort", (t2[2],)), (m_,))})
        return perm_rewrite(("lam", m_, "state", body))
    if t2[0] == "elem" and len(t2[2]) == 1:
        p, i = t2[1], t2[2][0]
        if i[0] == "elem" and len(i[2]) == 1 and i[1] == ("app", "argsort", (p,)):
            return i[2][0]
    return t2
