"""mdpaxlint - repository-specific static analysis for joefarrington/mdpax.

Everything here works on the *source text* of /repo/src/mdpax (stdlib ``ast`` only);
mdpax itself is never imported or executed.  See /verif/DESIGN.md.
"""

__all__ = ["loader", "classes", "cfg", "effects", "terms", "interp", "report"]
