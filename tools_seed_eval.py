#!/usr/bin/env python3
"""Evaluate a seeded change: apply <patch.diff> to /repo, run every check (quick) with evidence
redirected to a scratch directory, undo the patch, print which checks report what.

usage: tools_seed_eval.py <patch.diff> [--json]"""
import json
import os
import subprocess
import sys
import tempfile
from pathlib import Path

here = Path(__file__).resolve().parent
REPO = os.environ.get("MDPAX_REPO") or "/repo"


def sh(*a, **k):
    return subprocess.run(a, capture_output=True, text=True, **k)


def scratch_main(patch):
    """--scratch: the same evaluation on a scratch copy of /repo/src (`<quick_cmd> --repo <copy>`), leaving /repo untouched - for use
    while something else is reading /repo"""
    import shutil

    td = Path(tempfile.mkdtemp(prefix="mdpax_seed_scratch_"))
    out = {}
    try:
        shutil.copytree(Path(REPO) / "src", td / "src")
        r = sh("git", "apply", str(patch), cwd=td)
        if r.returncode:
            print("patch does not apply:", r.stderr)
            return 2
        (td / "ev").mkdir()
        env = dict(os.environ, MDPAX_EVIDENCE_DIR=str(td / "ev"))
        man = json.loads((here / "MANIFEST.json").read_text())
        for c in man["checks"]:
            pid = c["property_id"]
            r = subprocess.run(c["quick_cmd"] + f" --repo {td}", shell=True, cwd=here, capture_output=True, text=True, env=env)
            lines = [l for l in r.stdout.splitlines() if not l.startswith("KNOWN-FINDING")]
            out[pid] = {"exit": r.returncode, "reports": [l for l in lines if l.startswith("src/") or l.startswith("ANALYSIS-ERROR")][:6]}
    finally:
        shutil.rmtree(td, ignore_errors=True)
    fired = {p: v for p, v in out.items() if v["exit"] == 1}
    errs = {p: v for p, v in out.items() if v["exit"] == 2}
    if "--json" in sys.argv:
        print(json.dumps({"fired": fired, "errors": errs}, indent=1))
    else:
        print(f"checks reporting a VIOLATION: {sorted(fired) or 'none'}; ANALYSIS-ERROR: {sorted(errs) or 'none'}")
        for p, v in {**fired, **errs}.items():
            for l in v["reports"]:
                print(f"  [{p}] {l[:330]}")
    return 0


def main():
    patch = Path(sys.argv[1]).resolve()
    if "--scratch" in sys.argv or os.environ.get("MDPAX_SEED_SCRATCH"):
        return scratch_main(patch)
    st = sh("git", "-C", REPO, "status", "--porcelain", "--", "src").stdout.strip()
    if st:
        print("refusing: /repo/src has uncommitted changes:\n" + st)
        return 2
    chk = sh("git", "-C", REPO, "apply", "--check", str(patch))
    if chk.returncode:
        print("patch does not apply:", chk.stderr)
        return 2
    sh("git", "-C", REPO, "apply", str(patch))
    out = {}
    try:
        with tempfile.TemporaryDirectory(prefix="mdpax_seed_ev_") as td:
            env = dict(os.environ, MDPAX_EVIDENCE_DIR=td)
            man = json.loads((here / "MANIFEST.json").read_text())
            for c in man["checks"]:
                pid = c["property_id"]
                r = subprocess.run(c["quick_cmd"], shell=True, cwd=here, capture_output=True, text=True, env=env)
                lines = [l for l in r.stdout.splitlines() if not l.startswith("KNOWN-FINDING")]
                out[pid] = {"exit": r.returncode,
                            "reports": [l for l in lines if l.startswith("src/") or l.startswith("ANALYSIS-ERROR")][:6]}
    finally:
        sh("git", "-C", REPO, "checkout", "--", ".")
    fired = {p: v for p, v in out.items() if v["exit"] == 1}
    errs = {p: v for p, v in out.items() if v["exit"] == 2}
    if "--json" in sys.argv:
        print(json.dumps({"fired": fired, "errors": errs}, indent=1))
    else:
        print(f"checks reporting a VIOLATION: {sorted(fired) or 'none'}; ANALYSIS-ERROR: {sorted(errs) or 'none'}")
        for p, v in {**fired, **errs}.items():
            for l in v["reports"]:
                print(f"  [{p}] {l[:330]}")
    st = sh("git", "-C", REPO, "status", "--porcelain", "--", "src").stdout.strip()
    if st:
        print("WARNING: /repo not clean after evaluation:", st)
    return 0


if __name__ == "__main__":
    sys.exit(main())
