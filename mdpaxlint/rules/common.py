"""Shared analysis context and the solve-loop model used by C01, C05, C07, C08, C09, C12."""

from __future__ import annotations

import ast
from dataclasses import dataclass, field

from ..cfg import CFG, Node, cfg_of
from ..classes import ClassInfo, ClassTable, shipped_problems, shipped_solvers
from ..effects import Effects, is_self_attr, is_super_call
from ..loader import AnalysisError, Repo, norm_text


class Context:
    def __init__(self, repo: Repo):
        self.repo = repo
        self.ct = ClassTable(repo)
        self._eff: dict[str, Effects] = {}
        self._loops: dict[str, SolveLoop] = {}
        self.cache: dict = {}
        self.dealiased = _dealias_read_only_attrs(self.ct)

    def effects(self, cls: ClassInfo) -> Effects:
        e = self._eff.get(cls.qualname)
        if e is None:
            e = self._eff[cls.qualname] = Effects(self.ct, cls)
        return e

    def solvers(self) -> list[ClassInfo]:
        return shipped_solvers(self.ct)

    def problems(self) -> list[ClassInfo]:
        return shipped_problems(self.ct)

    def solve_loop(self, cls: ClassInfo) -> "SolveLoop":
        s = self._loops.get(cls.qualname)
        if s is None:
            s = self._loops[cls.qualname] = SolveLoop(self, cls)
        return s

    def rel(self, cls_or_mod) -> str:
        m = cls_or_mod.module if isinstance(cls_or_mod, ClassInfo) else cls_or_mod
        return m.relpath


def _block_of(fn, stmt):
    """the statement list of `fn` that directly contains `stmt`"""
    for n in ast.walk(fn):
        for field in ("body", "orelse", "finalbody"):
            blk = getattr(n, field, None)
            if isinstance(blk, list) and any(x is stmt for x in blk):
                return blk
    return None


def _dealias_read_only_attrs(ct: ClassTable) -> int:
    """`t = self.a.b` ... `t` (a loop invariant looked up once) is read as `self.a.b` wherever the method - under the class
    that defines it and under every subclass - can be shown never to write `self.a`, directly or through anything it calls.
    A local that caches an attribute the method *does* write keeps its own identity: that is the stale-value hazard the
    ordering rules look for, and it must stay visible."""
    import copy

    n_done = 0
    eff_cache: dict[str, Effects] = {}
    for ci in list(ct.by_qual.values()):
        for fn in list(ci.methods.values()):
            if not fn.args.args or fn.args.args[0].arg != "self":
                continue
            defs: dict[str, list] = {}
            for st in ast.walk(fn):
                tg = st.targets if isinstance(st, ast.Assign) else [st.target] if isinstance(st, (ast.AugAssign, ast.AnnAssign, ast.For, ast.NamedExpr)) else \
                    [i.optional_vars for i in st.items if i.optional_vars is not None] if isinstance(st, ast.With) else []
                for t in tg:
                    for x in ast.walk(t):
                        if isinstance(x, ast.Name) and isinstance(x.ctx, ast.Store):
                            defs.setdefault(x.id, []).append(st)
                if isinstance(st, ast.ExceptHandler) and st.name:
                    defs.setdefault(st.name, []).append(st)
            params = {a.arg for a in fn.args.args + fn.args.kwonlyargs}
            cands = {}
            for name, ds in defs.items():
                if name in params or len(ds) != 1 or not isinstance(ds[0], ast.Assign) or len(ds[0].targets) != 1 \
                        or not isinstance(ds[0].targets[0], ast.Name):
                    continue
                v = ds[0].value
                base = v
                while isinstance(base, ast.Attribute):
                    root_attr = base.attr
                    base = base.value
                if isinstance(v, ast.Attribute) and isinstance(base, ast.Name) and base.id == "self":
                    cands[name] = (v, root_attr, ds[0])
            if not cands:
                continue
            # transitive writes of the method under every class it can run in
            writes: set[str] = set()
            ok = True
            for k in [ci] + ct.subclasses(ci):
                e = eff_cache.get(k.qualname)
                if e is None:
                    try:
                        e = eff_cache[k.qualname] = Effects(ct, k)
                    except AnalysisError:
                        ok = False
                        break
                try:
                    writes |= set(e.of_function(ci, fn)[1])
                except (AnalysisError, RecursionError):
                    ok = False
                    break
            if not ok:
                continue
            methodish = set()
            for k in [ci] + ct.subclasses(ci) + ct.mro(ci):
                methodish |= set(k.methods)
            table = {}
            for n, (v, root, _d) in cands.items():
                if root in writes:
                    continue
                if root not in methodish:
                    table[n] = v
                    continue
                # a property read once: the same value later iff the property only reads, and reads nothing the method writes
                if isinstance(v.value, ast.Name) and ct.is_property(ci, root):
                    pure = True
                    for k in [ci] + ct.subclasses(ci):
                        r_ = ct.lookup(k, root)
                        if r_ is None:
                            continue
                        try:
                            pr, pw = eff_cache[k.qualname].of_function(r_[0], r_[1])[:2]
                        except (AnalysisError, RecursionError, KeyError):
                            pure = False
                            break
                        if pw or (set(pr) & writes):
                            pure = False
                            break
                    if pure:
                        table[n] = v
            # an alias of an attribute the method does write is still the attribute itself up to the first statement that
            # can write it: `it = self.iteration; self.save(it)` right after each other (typically an inlined helper's
            # parameter) reads the counter, whereas a copy taken before the loop and used inside it does not
            local_done = 0
            e0 = eff_cache.get(ci.qualname)
            for n_, (v_, root_, d_) in cands.items():
                if n_ in table or root_ in methodish or e0 is None:
                    continue
                blk = _block_of(fn, d_)
                if blk is None:
                    continue
                k0 = next(i_ for i_, st_ in enumerate(blk) if st_ is d_)
                for st_ in blk[k0 + 1:]:
                    try:
                        w_ = set(e0.of_region([st_], ci)[1])
                    except (AnalysisError, RecursionError):
                        break
                    if isinstance(st_, (ast.For, ast.While)):
                        break  # a loop may run its body after a later write

                    class R1(ast.NodeTransformer):
                        def visit_Name(self, nn):
                            if isinstance(nn.ctx, ast.Load) and nn.id == n_:
                                return ast.copy_location(copy.deepcopy(v_), nn)
                            return nn

                        def visit_Lambda(self, f):
                            return f

                    if root_ in w_:
                        # the writing statement itself may still read the alias before it writes (`self.save(it)` does not
                        # write the counter; `self.iteration = it + 1` would): only a plain call / expression is rewritten
                        break
                    R1().visit(st_)
                    local_done += 1
            n_done += local_done
            if not table:
                continue
            defining = {id(d) for n, (_v, _r, d) in cands.items() if n in table}

            class R(ast.NodeTransformer):
                def visit_Assign(self, st):
                    if id(st) in defining:
                        return st  # the alias binding itself stays
                    return self.generic_visit(st)

                def visit_Name(self, n):
                    if isinstance(n.ctx, ast.Load) and n.id in table:
                        return ast.copy_location(copy.deepcopy(table[n.id]), n)
                    return n

                def visit_FunctionDef(self, f):
                    return self.generic_visit(f) if f is fn else f

                def visit_Lambda(self, f):
                    return f

            R().visit(fn)
            n_done += len(table)
    return n_done


class Parts:
    """Runs the independent rule groups of a property one after the other: a group that cannot be decided
    (AnalysisError) does not keep the others from being decided and reported; `finish()` re-raises what was collected."""

    def __init__(self):
        self.errors: list[str] = []

    def __call__(self, fn, *a, **k):
        try:
            return fn(*a, **k)
        except AnalysisError as e:
            self.errors.append(str(e))
            return None

    def finish(self):
        if self.errors:
            raise AnalysisError("; ".join(dict.fromkeys(self.errors)))


def parents_of(root: ast.AST) -> dict[int, ast.AST]:
    p = {}
    for n in ast.walk(root):
        for c in ast.iter_child_nodes(n):
            p[id(c)] = n
    return p


def guard_conditions(fn: ast.AST, node: ast.AST) -> list[ast.AST]:
    """Effective conditions under which `node` runs: for every enclosing `if`, its test when the node is in the
    body and the complement of the test when it is in the else branch (innermost first)."""
    import copy

    from ..loader import _neg

    parents = parents_of(fn)
    out = []
    cur = node
    while cur is not fn and cur is not None:
        par = parents.get(id(cur))
        if isinstance(par, ast.If):
            in_body = any(cur is s for s in par.body)
            in_else = any(cur is s for s in par.orelse)
            if in_body:
                out.append(par.test)
            elif in_else:
                out.append(_neg(copy.deepcopy(par.test)))
        cur = par
    return out


def collaborator_attrs(ctx, cls) -> dict[str, str]:
    """Attributes of `cls` that hold an instance of another class of the package (`self._history = _ValueHistory(...)`):
    state kept inside such an object is mutated through its methods, which the attribute-level effect analysis cannot see."""
    out = {}
    for owner in ctx.ct.mro(cls):
        for fn in owner.methods.values():
            for st in ast.walk(fn):
                if isinstance(st, ast.Assign) and len(st.targets) == 1 and is_self_attr(st.targets[0]) and isinstance(st.value, ast.Call):
                    f = st.value.func
                    name = f.id if isinstance(f, ast.Name) else None
                    if name and name in owner.module.classes or (name and owner.module.imports.get(name) and
                                                                  ctx.ct.class_of_dotted(owner.module.imports[name]) is not None):
                        ci = ctx.ct.by_qual.get(f"{owner.module.name}.{name}") or ctx.ct.class_of_dotted(owner.module.imports.get(name, ""))
                        if ci is not None and not ci.name.endswith(("Config", "State", "Info")) and ci.name != "BatchProcessor":
                            out[st.targets[0].attr] = ci.name
    return out


def backing_attr(ctx, cls, prop: str) -> str:
    """Name of the private attribute behind a public property (`state_space` -> `_state_space`), read from the property's
    own return statement, so that renaming the private attribute does not matter."""
    r = ctx.ct.lookup(cls, prop)
    if r is not None:
        rv = returned_expr(r[1])
        if is_self_attr_node(rv):
            return rv.attr
    raise AnalysisError(f"anchor vanished: property {cls.name}.{prop} does not return a `self.<attribute>`")


def is_self_attr_node(e) -> bool:
    return isinstance(e, ast.Attribute) and isinstance(e.value, ast.Name) and e.value.id == "self"


def data_attrs_used(ctx, cls, method: str, how: str) -> list[str]:
    """Private data attributes (never methods / properties of the class) that `method` calls (`how == "call"`) or
    subscripts (`how == "subscript"`), in order of first use."""
    owner, fn = ctx.ct.require(cls, method)
    names = set(ctx.ct.methods_of(cls))
    out = []
    for n in ast.walk(fn):
        e = n.func if (how == "call" and isinstance(n, ast.Call)) else n.value if (how == "subscript" and isinstance(n, ast.Subscript)) else None
        if e is not None and is_self_attr_node(e) and e.attr not in names and e.attr not in out:
            out.append(e.attr)
    return out


def one_data_attr(ctx, cls, method: str, how: str, what: str) -> str:
    got = data_attrs_used(ctx, cls, method, how)
    if len(got) != 1:
        raise AnalysisError(f"anchor vanished: {cls.name}.{method} uses {len(got)} data attributes by {how} ({got}); expected exactly the {what}")
    return got[0]


def conditions_at(fn: ast.AST, node: ast.AST, raising_guards: bool = True) -> list[ast.AST]:
    """Path conditions known to hold when `node` executes: the effective conditions of the enclosing `if`s, plus the
    complement of every guard clause (`if T: ...raise/return/break/continue`) that precedes it in an enclosing block.
    (The program is in conditional normal form, so early exits are exactly else-less `if`s ending in a terminator.)"""
    import copy

    from ..loader import _neg, _terminates

    parents = parents_of(fn)
    out = list(guard_conditions(fn, node))
    cur = node
    while cur is not fn and cur is not None:
        par = parents.get(id(cur))
        if par is None:
            break
        for field in ("body", "orelse", "finalbody"):
            blk = getattr(par, field, None)
            if isinstance(blk, list) and any(cur is s for s in blk):
                for s in blk:
                    if s is cur:
                        break
                    if isinstance(s, ast.If) and not s.orelse and _terminates(s.body):
                        if raising_guards or not isinstance(s.body[-1], ast.Raise):
                            out.append(_neg(copy.deepcopy(s.test)))
        cur = par
    # conjunctions contribute each conjunct
    flat = []
    for c in out:
        stack = [c]
        while stack:
            x = stack.pop()
            if isinstance(x, ast.BoolOp) and isinstance(x.op, ast.And):
                stack.extend(x.values)
            else:
                flat.append(x)
    return flat


def implies_positive(cond: ast.AST, names: set[str]) -> bool:
    """cond => X > 0 (for an integer X >= 0: X != 0, X > 0, X >= 1, truthiness of X), X one of the expressions in `names`;
    `getattr(self, "x", 0)` counts as `self.x`."""
    def is_x(e):
        if isinstance(e, ast.Call) and isinstance(e.func, ast.Name) and e.func.id == "getattr" and len(e.args) == 3 \
                and isinstance(e.args[1], ast.Constant) and isinstance(e.args[2], ast.Constant) and e.args[2].value in (0, None, False):
            return f"{ast.unparse(e.args[0])}.{e.args[1].value}" in names
        return ast.unparse(e) in names

    def const(e, v):
        return isinstance(e, ast.Constant) and e.value == v and not isinstance(e.value, bool)

    if is_x(cond):
        return True
    if isinstance(cond, ast.Compare) and len(cond.ops) == 1:
        l, r, op = cond.left, cond.comparators[0], cond.ops[0]
        if is_x(l):
            return (isinstance(op, (ast.Gt, ast.NotEq)) and const(r, 0)) or (isinstance(op, ast.GtE) and const(r, 1))
        if is_x(r):
            return (isinstance(op, (ast.Lt, ast.NotEq)) and const(l, 0)) or (isinstance(op, ast.LtE) and const(l, 1))
    if isinstance(cond, ast.UnaryOp) and isinstance(cond.op, ast.Not):
        c = cond.operand
        if isinstance(c, ast.Compare) and len(c.ops) == 1:
            l, r, op = c.left, c.comparators[0], c.ops[0]
            if is_x(l) and const(r, 0) and isinstance(op, (ast.Eq, ast.LtE)):
                return True
            if is_x(r) and const(l, 0) and isinstance(op, (ast.Eq, ast.GtE)):
                return True
    return False


def calls_in(node: ast.AST):
    return [n for n in ast.walk(node) if isinstance(n, ast.Call)]


def self_call_name(call: ast.Call) -> str | None:
    """`self.m(...)` -> 'm'."""
    if isinstance(call.func, ast.Attribute) and is_self_attr(call.func):
        return call.func.attr
    return None


def is_logger_stmt(s: ast.AST) -> bool:
    return (
        isinstance(s, ast.Expr)
        and isinstance(s.value, ast.Call)
        and isinstance(s.value.func, ast.Attribute)
        and isinstance(s.value.func.value, ast.Name)
        and s.value.func.value.id == "logger"
    )


@dataclass
class Event:
    kind: str  # INC STEP STORE WRITE SAVE TEST BREAK LOG OTHER RETURN
    node: Node
    label: str = ""
    attrs: frozenset = frozenset()  # attributes written (transitively) by this node
    info: dict = field(default_factory=dict)

    def __repr__(self):
        return f"{self.kind}@L{self.node.lineno}{('/' + self.label) if self.label else ''}"


class SolveLoop:
    """Model of `solve` of one solver class, resolved through the MRO."""

    COUNTER = "iteration"
    STEP = "_iteration_step"

    def __init__(self, ctx: Context, cls: ClassInfo):
        self.ctx = ctx
        self.cls = cls
        ct = ctx.ct
        self.owner, self.fn = ct.require(cls, "solve")
        self.eff = ctx.effects(cls)
        self.cfg: CFG = cfg_of(self.fn)
        self.file = self.owner.module.relpath
        params = [a.arg for a in self.fn.args.args if a.arg != "self"]
        if not params:
            raise AnalysisError(f"{cls.name}.solve has no iteration-limit parameter")
        self.limit_param = params[0]
        self._step_cache: dict[int, bool] = {}
        self._save_cache: dict[int, bool] = {}
        self.header = self._find_loop()
        self.members = self.cfg.loop_members(self.header)

    # ---------------------------------------------------------------- anchors
    def _find_loop(self) -> Node:
        """The top-level loop of solve whose body runs the step.  Its trip count is judged
        separately (`bound_ok`): `for _ in range(<limit parameter>)` or an equivalent range."""
        self._step_cache = {}
        self._save_cache = {}
        loops = [n for n in self.cfg.nodes if n.kind == "iter" and n.depth == 0]
        cands = []
        for h in loops:
            members = self.cfg.loop_members(h)
            if any(self.reaches_step(self.cfg.nodes[i]) for i in members):
                cands.append(h)
        if len(cands) != 1:
            raise AnalysisError(
                f"anchor vanished: {self.cls.name}.solve has {len(cands)} top-level loops that run "
                f"_iteration_step (expected 1)"
            )
        h = cands[0]
        if not isinstance(h.ast, ast.For):
            raise AnalysisError(f"{self.cls.name}.solve: the sweep loop is a `while` loop - trip count not analysable")
        return h

    def bound_ok(self):
        """(ok, message): the loop performs exactly <limit parameter> iterations unless it breaks."""
        it = self.header.ast.iter
        lim = self.limit_param
        src = ast.unparse(it)
        if isinstance(it, ast.Call) and isinstance(it.func, ast.Name) and it.func.id == "range" and not it.keywords:
            a = [ast.unparse(x) for x in it.args]
            if a in ([lim], ["0", lim], ["1", f"{lim} + 1"], ["1", f"1 + {lim}"]):
                return True, f"for ... in {src}: at most {lim} further sweeps"
        return False, (f"the sweep loop runs over `{src}`, not over range({lim}): solve({lim}) does not perform "
                       f"up to {lim} FURTHER sweeps (e.g. a bound that involves the running counter breaks solve(k1); solve(k2) == solve(k1+k2))")

    # ------------------------------------------------------- node predicates
    def reaches_step(self, node: Node) -> bool:
        """Does executing this node (possibly through helper methods) run _iteration_step?"""
        k = node.id
        if k in self._step_cache:
            return self._step_cache[k]
        region = self.node_region(node)
        res = False
        if region is not None:
            step_fns = set()
            r = self.ctx.ct.lookup(self.cls, self.STEP)
            if r:
                step_fns.add(id(r[1]))
            # direct or transitive
            res = self._region_calls_fn(region, self.owner, step_fns)
        self._step_cache[k] = res
        return res

    def _region_calls_fn(self, region, owner, fn_ids, seen=None) -> bool:
        seen = seen if seen is not None else set()
        for o2, f2 in self.eff.callees(region, owner):
            if id(f2) in fn_ids:
                return True
            key = (o2.qualname, f2.name)
            if key in seen:
                continue
            seen.add(key)
            if self._region_calls_fn(f2, o2, fn_ids, seen):
                return True
        return False

    def reaches_save(self, node: Node) -> bool:
        k = node.id
        if k in self._save_cache:
            return self._save_cache[k]
        region = self.node_region(node)
        res = False
        if region is not None:
            r = self.ctx.ct.lookup(self.cls, "save")
            res = bool(r) and self._region_calls_fn(region, self.owner, {id(r[1])})
        self._save_cache[k] = res
        return res

    @staticmethod
    def node_region(node: Node):
        """The AST evaluated *at* this CFG node (not the bodies it controls)."""
        a = node.ast
        if a is None:
            return None
        if node.kind == "test":
            return a.test
        if node.kind == "iter":
            return a.iter if isinstance(a, ast.For) else a.test
        if node.kind == "with":
            return [i.context_expr for i in a.items]
        if node.kind == "except":
            return None
        if isinstance(a, (ast.FunctionDef, ast.ClassDef)):
            return None
        return a

    def node_writes(self, node: Node) -> set[str]:
        region = self.node_region(node)
        if region is None:
            return set()
        return self.eff.of_region(region, self.owner)[1]

    def node_reads(self, node: Node) -> set[str]:
        region = self.node_region(node)
        if region is None:
            return set()
        return self.eff.of_region(region, self.owner)[0]

    def is_inc(self, node: Node) -> bool:
        a = node.ast
        if isinstance(a, ast.AugAssign) and is_self_attr(a.target, self.COUNTER):
            return isinstance(a.op, ast.Add) and isinstance(a.value, ast.Constant) and a.value.value == 1
        if isinstance(a, ast.Assign) and len(a.targets) == 1 and is_self_attr(a.targets[0], self.COUNTER):
            v = a.value
            if isinstance(v, ast.BinOp) and isinstance(v.op, ast.Add):
                l, r = v.left, v.right
                if is_self_attr(l, self.COUNTER) and isinstance(r, ast.Constant) and r.value == 1:
                    return True
                if is_self_attr(r, self.COUNTER) and isinstance(l, ast.Constant) and l.value == 1:
                    return True
        return False

    # ------------------------------------------------------------ loop facts
    def loop_carried(self) -> set[str]:
        body = self.header.ast.body
        R, W = self.eff.of_region(list(body), self.owner)
        return R & W

    def pre_loop_stmts(self) -> list:
        """top-level statements of solve() that precede the sweep loop"""
        out = []
        for st in self.fn.body:
            if st is self.header.ast or any(x is self.header.ast for x in ast.walk(st)):
                break
            out.append(st)
        return out

    def solve_carried(self) -> set[str]:
        """attributes that solve() reads BEFORE the loop and writes anywhere (transitively): state a later call starts from"""
        pre = self.pre_loop_stmts()
        if not pre:
            return set()
        R = self.eff.of_region(list(pre), self.owner)[0]
        W = self.eff.of_region(list(self.fn.body), self.owner)[1]
        return set(R) & set(W)

    def loop_rw(self):
        return self.eff.of_region(list(self.header.ast.body), self.owner)

    def relevant_attrs(self, seeds=("values", "policy", "iteration")) -> set[str]:
        """Attributes that can influence what a run returns or decides: backward closure, over the statements of the loop
        body (with the transitive effects of what they call, and through locals), from the result attributes `seeds`, from
        everything a statement containing `break` / `return` / a save reads, and from the loop's own tests.  An attribute
        that is carried from sweep to sweep but never flows into any of these (a timer, a counter kept for reporting) is
        not part of the state a resumed run must reproduce."""
        stmts = list(self.header.ast.body) + self.pre_loop_stmts()
        facts = []
        for st in stmts:
            R, W = self.eff.of_region([st], self.owner)
            lr = {"local:" + n.id for n in ast.walk(st) if isinstance(n, ast.Name) and isinstance(n.ctx, ast.Load)}
            lw = {"local:" + n.id for n in ast.walk(st) if isinstance(n, ast.Name) and isinstance(n.ctx, (ast.Store, ast.Del))}
            decisive = any(isinstance(n, (ast.Break, ast.Return, ast.Continue, ast.Raise)) for n in ast.walk(st)) or any(
                self_call_name(c) == "save" for c in calls_in(st))
            facts.append((set(R) | lr, set(W) | lw, decisive))
        rel = set(seeds)
        changed = True
        while changed:
            changed = False
            for R, W, decisive in facts:
                if (decisive or (W & rel)) and not R <= rel:
                    rel |= R
                    changed = True
        return {a for a in rel if not a.startswith("local:")}

    def breaks(self) -> list[Node]:
        return [
            self.cfg.nodes[i]
            for i in sorted(self.members)
            if isinstance(self.cfg.nodes[i].ast, ast.Break)
            and self.cfg.nodes[i].loop is self.header
        ]

    def break_guards(self, brk: Node):
        """The chain of (If statement, polarity) that encloses the break inside the loop body."""
        parents = parents_of(self.header.ast)
        chain = []
        cur = brk.ast
        while True:
            p = parents.get(id(cur))
            if p is None or p is self.header.ast:
                break
            if isinstance(p, ast.If):
                pol = any(cur is s for s in p.body)
                chain.append((p, pol))
            elif isinstance(p, (ast.For, ast.While, ast.Try, ast.With)):
                chain.append((p, None))
            cur = p
        return list(reversed(chain))

    def step_binding(self):
        """The statement `a, b = self._iteration_step()` (possibly via a helper): returns
        (node, [target names])."""
        cands = [self.cfg.nodes[i] for i in sorted(self.members) if self.reaches_step(self.cfg.nodes[i])]
        return cands

    def local_def(self, name: str, before: Node):
        """The unique assignment `name = expr` inside the loop that dominates `before`."""
        defs = []
        for i in self.members:
            n = self.cfg.nodes[i]
            a = n.ast
            if n.kind == "stmt" and isinstance(a, ast.Assign):
                for t in a.targets:
                    for x in ast.walk(t):
                        if isinstance(x, ast.Name) and x.id == name:
                            defs.append(n)
        if len(defs) == 1 and self.cfg.dominates(defs[0], before):
            return defs[0]
        return None

    def events(self, path) -> list[Event]:
        out = []
        for node, label in path:
            if node is self.header:
                continue
            a = node.ast
            if node.kind == "test":
                w = frozenset(self.node_writes(node))
                out.append(Event("TEST", node, label, w))
                continue
            if isinstance(a, ast.Break):
                out.append(Event("BREAK", node))
                continue
            if isinstance(a, ast.Return):
                out.append(Event("RETURN", node, attrs=frozenset(self.node_writes(node))))
                continue
            if is_logger_stmt(a):
                out.append(Event("LOG", node))
                continue
            if self.is_inc(node):
                out.append(Event("INC", node, attrs=frozenset({self.COUNTER})))
                continue
            w = frozenset(self.node_writes(node))
            if self.reaches_step(node):
                out.append(Event("STEP", node, attrs=w))
            elif self.reaches_save(node):
                out.append(Event("SAVE", node, attrs=w))
            elif w:
                out.append(Event("WRITE", node, attrs=w))
            else:
                out.append(Event("OTHER", node))
        return out

    def body_paths(self):
        return self.cfg.loop_body_paths(self.header)

    def post_loop_paths(self):
        """Paths from each first node after the loop to the function's normal exit."""
        out = []
        for start in self.cfg.after_loop(self.header):
            if start is self.cfg.exit:
                out.append([(start, "")])
                continue
            stop = lambda n: n is self.cfg.exit or n is self.cfg.raise_exit  # noqa: E731
            for p in self.cfg.paths(start, stop):
                out.append(p)
        return out


def deref(fn: ast.FunctionDef, node: ast.AST) -> ast.AST:
    """Copy of `node` in which every local that the function binds exactly once to a pure attribute
    chain (`x = self.a.b`) is replaced by that chain (alias resolution for shape-based rules)."""
    import copy

    defs: dict[str, list] = {}
    for s in ast.walk(fn):
        if isinstance(s, (ast.Assign, ast.AugAssign, ast.AnnAssign, ast.For, ast.With, ast.NamedExpr)):
            tg = s.targets if isinstance(s, ast.Assign) else [getattr(s, "target", None)] if not isinstance(s, ast.With) else [i.optional_vars for i in s.items]
            for t in tg:
                if t is None:
                    continue
                for x in ast.walk(t):
                    if isinstance(x, ast.Name):
                        defs.setdefault(x.id, []).append(s)
    params = {a.arg for a in fn.args.args + fn.args.kwonlyargs}

    def pure_chain(v):
        while isinstance(v, ast.Attribute):
            v = v.value
        return isinstance(v, ast.Name) and v.id == "self"

    table = {}
    for name, ds in defs.items():
        if name in params or len(ds) != 1 or not isinstance(ds[0], ast.Assign) or len(ds[0].targets) != 1:
            continue
        if isinstance(ds[0].targets[0], ast.Name) and isinstance(ds[0].value, ast.Attribute) and pure_chain(ds[0].value):
            table[name] = ds[0].value

    class R(ast.NodeTransformer):
        def visit_Name(self, n):
            if isinstance(n.ctx, ast.Load) and n.id in table:
                return copy.deepcopy(table[n.id])
            return n

    return R().visit(copy.deepcopy(node)) if table else node


def returned_expr(fn: ast.FunctionDef):
    """The expression a function returns: its single `return <expr>`, looked through one local
    binding (`r = <expr>; return r`).  None if there is not exactly one value-returning return."""
    rets = [n for n in ast.walk(fn) if isinstance(n, ast.Return) and n.value is not None]
    if len(rets) != 1:
        return None
    v = rets[0].value
    if isinstance(v, ast.Name):
        defs = [s for s in ast.walk(fn) if isinstance(s, ast.Assign) and len(s.targets) == 1
                and isinstance(s.targets[0], ast.Name) and s.targets[0].id == v.id]
        if len(defs) == 1:
            return defs[0].value
    return v


def fmt_path(path) -> str:
    parts = []
    for node, label in path:
        if node.kind in ("entry", "exit", "raise"):
            parts.append(node.kind)
        else:
            parts.append(f"L{node.lineno}" + (f"({label})" if label in ("T", "F") else ""))
    return " -> ".join(parts)


def stmt_text(node: Node) -> str:
    return norm_text(node.ast) if node.ast is not None else node.kind
