"""Memoisation normal form (part of the canonical program form, see canon.py).

    v = self._cache.get(key)                 if key not in self._cache:
    if v is None:                                self._cache[key] = <E(key)>
        <compute v = E(key)>                 v = self._cache[key]
        self._cache[key] = v

Both are `v = E(key)` when the cache is nothing but a cache: a dict attribute initialised empty, touched only by this idiom, whose
computation is pure, deterministic, never None and reads only what cannot change after construction (locals, the key, library
functions, attributes that only the constructor and the set-up methods it alone calls assign).  The rules are written against the
computation, and a sweep that looks its mask up in a table computes the same sweep.  When a precondition fails nothing is rewritten
(the cache is then ordinary mutable solver state and the rules treat it as such)."""

from __future__ import annotations

import ast

PURE_ROOTS = ("jnp", "np", "jax", "math", "numpy", "itertools", "functools", "operator")
PURE_BUILTINS = ("len", "int", "float", "bool", "tuple", "list", "range", "max", "min", "sum", "abs", "sorted", "zip", "enumerate", "reversed", "round", "divmod")
IMPURE_LIB = ("random", "PRNGKey", "split", "seed", "time", "perf_counter", "device_put", "block_until_ready")


def _is_self_attr(n, name=None):
    return isinstance(n, ast.Attribute) and isinstance(n.value, ast.Name) and n.value.id == "self" and (name is None or n.attr == name)


def _constructor_only_methods(ct, cls) -> set[str]:
    """names of methods (of cls's family) that only run while an instance is constructed"""
    fam = ct.mro(cls) + ct.subclasses(cls)
    methods: dict[str, list[ast.FunctionDef]] = {}
    for k in fam:
        for n, fn in k.methods.items():
            methods.setdefault(n, []).append(fn)
    callers: dict[str, set[str]] = {n: set() for n in methods}
    for n, fns in methods.items():
        for fn in fns:
            for x in ast.walk(fn):
                if isinstance(x, ast.Attribute) and isinstance(x.ctx, ast.Load) and x.attr in methods:
                    v = x.value
                    if (isinstance(v, ast.Name) and v.id in ("self", "cls")) or (isinstance(v, ast.Call) and isinstance(v.func, ast.Name) and v.func.id == "super"):
                        callers[x.attr].add(n)
    only = {"__init__", "__post_init__"} & set(methods)
    changed = True
    while changed:
        changed = False
        for n in methods:
            if n in only or not n.startswith("_") or n.startswith("__"):
                continue
            cs = callers[n] - {n}
            if cs and cs <= only:
                only.add(n)
                changed = True
    return only


def _stable_attrs(ct, cls) -> set[str] | None:
    """attributes of instances that nothing assigns once construction is over"""
    fam = ct.mro(cls) + ct.subclasses(cls)
    only = _constructor_only_methods(ct, cls)
    written_late: set[str] = set()
    written: set[str] = set()
    for k in fam:
        for n, fn in k.methods.items():
            for x in ast.walk(fn):
                if _is_self_attr(x) and isinstance(x.ctx, (ast.Store, ast.Del)):
                    written.add(x.attr)
                    if n not in only:
                        written_late.add(x.attr)
                # self.a[i] = .. / self.a.b = ..  in-place
                if isinstance(x, (ast.Subscript, ast.Attribute)) and isinstance(x.ctx, (ast.Store, ast.Del)) and not _is_self_attr(x):
                    b = x.value
                    while isinstance(b, (ast.Subscript, ast.Attribute)) and not _is_self_attr(b):
                        b = b.value
                    if _is_self_attr(b) and n not in only:
                        written_late.add(b.attr)
                if isinstance(x, ast.Call) and isinstance(x.func, ast.Name) and x.func.id == "setattr":
                    return None
    return written - written_late


_PURE_METHOD = None  # set by fold_memo: (method name, stable attrs) -> bool


def _pure_expr(e, locals_, stable, outer_locals=frozenset(), key_names=frozenset()) -> bool:
    """pure, deterministic, and a function of the key alone: a local of the enclosing function that is not part of the key (and not derived
    from it inside the block) would make the table return a value computed for another call's inputs"""
    approved: set[int] = set()  # `self.helper` callee nodes whose helper was shown to be a pure computation (ast.walk visits a call before its func)
    for n in ast.walk(e):
        if isinstance(n, ast.Name) and isinstance(n.ctx, ast.Load) and n.id in outer_locals and n.id not in key_names and n.id not in locals_ and n.id != "self":
            return False
        if isinstance(n, (ast.Await, ast.Yield, ast.YieldFrom, ast.NamedExpr, ast.Lambda, ast.ListComp, ast.SetComp, ast.DictComp, ast.GeneratorExp)):
            return False
        if isinstance(n, ast.Call):
            f = n.func
            if isinstance(f, ast.Name):
                if f.id not in PURE_BUILTINS:
                    return False
            elif isinstance(f, ast.Attribute):
                root = f
                while isinstance(root, ast.Attribute):
                    root = root.value
                if f.attr in IMPURE_LIB:
                    return False
                if isinstance(root, ast.Name) and root.id in PURE_ROOTS:
                    if any(p in ast.unparse(f) for p in (".random.", ".config.")):
                        return False
                    continue
                # a method of a value (array.reshape(..), shape.index(..)): pure for the array / tuple values of this package, but not on self
                if isinstance(root, ast.Name) and root.id == "self":
                    # .. unless it is a helper method whose whole body is itself such a computation of its parameters and stable attributes
                    if isinstance(f.value, ast.Name) and _PURE_METHOD is not None and _PURE_METHOD(f.attr, stable):
                        approved.add(id(f))
                        continue
                    return False
                if f.attr in ("append", "extend", "insert", "update", "pop", "clear", "sort", "setdefault", "remove", "add"):
                    return False
            else:
                return False
        if _is_self_attr(n) and isinstance(n.ctx, ast.Load) and n.attr not in stable and id(n) not in approved:
            return False
    return True


def fold_memo(ct) -> list[str]:
    log: list[str] = []
    # candidate caches: self.C = {} / dict()
    inits: dict[str, list] = {}
    for k in ct.by_qual.values():
        for fn in k.methods.values():
            for st in ast.walk(fn):
                if isinstance(st, (ast.Assign, ast.AnnAssign)):
                    tg = st.targets if isinstance(st, ast.Assign) else [st.target]
                    v = st.value
                    if len(tg) == 1 and _is_self_attr(tg[0]) and v is not None and \
                            ((isinstance(v, ast.Dict) and not v.keys) or (isinstance(v, ast.Call) and isinstance(v.func, ast.Name) and v.func.id == "dict" and not v.args and not v.keywords)):
                        inits.setdefault(tg[0].attr, []).append((k, fn, st))
    for c, sites in sorted(inits.items()):
        host = sites[0][0]
        stable = _stable_attrs(ct, host)
        if stable is None:
            continue
        init_nodes = {id(s[2].targets[0] if isinstance(s[2], ast.Assign) else s[2].target) for s in sites}
        global _PURE_METHOD
        _seen_pm: dict = {}

        def _pure_method(name, stable_, _host=host):
            if name in _seen_pm:
                return _seen_pm[name]
            _seen_pm[name] = False  # recursion guard
            r_ = ct.lookup(_host, name)
            fam_ = [k_ for k_ in ct.subclasses(_host) if name in k_.methods]
            if not r_ or fam_ and any(k_.methods[name] is not r_[1] for k_ in fam_):
                return False
            fn_ = r_[1]
            if fn_.decorator_list or fn_.args.vararg or fn_.args.kwarg:
                return False
            locs = {a.arg for a in fn_.args.args + fn_.args.kwonlyargs}
            for st_ in fn_.body:
                if isinstance(st_, ast.Expr) and isinstance(st_.value, ast.Constant):
                    continue
                if isinstance(st_, ast.Assign) and all(isinstance(t_, ast.Name) for t_ in st_.targets) and _pure_expr(st_.value, locs, stable_):
                    locs |= {t_.id for t_ in st_.targets}
                    continue
                if isinstance(st_, ast.Return) and st_.value is not None and _pure_expr(st_.value, locs, stable_):
                    continue
                return False
            _seen_pm[name] = True
            return True

        _PURE_METHOD = _pure_method
        # every other occurrence of `.C` must belong to an idiom instance
        occurrences = [n for m in ct.repo.modules.values() for n in ast.walk(m.tree) if isinstance(n, ast.Attribute) and n.attr == c and id(n) not in init_nodes]
        claimed: set[int] = set()
        rewrites = []  # (statement list, index, replacement statements)

        def scan(body, owner, outer=frozenset()):
            for i, st in enumerate(body):
                for f_ in ("body", "orelse", "finalbody"):
                    v = getattr(st, f_, None)
                    if isinstance(v, list) and v and isinstance(v[0], ast.stmt) and not isinstance(st, (ast.FunctionDef, ast.ClassDef)):
                        scan(v, owner, outer)
                if isinstance(st, ast.Try):
                    for h in st.handlers:
                        scan(h.body, owner, outer)
                # form 1
                if isinstance(st, ast.Assign) and len(st.targets) == 1 and isinstance(st.targets[0], ast.Name) and isinstance(st.value, ast.Call) \
                        and isinstance(st.value.func, ast.Attribute) and st.value.func.attr == "get" and _is_self_attr(st.value.func.value, c) \
                        and 1 <= len(st.value.args) <= 2 and not st.value.keywords and i + 1 < len(body):
                    if len(st.value.args) == 2 and not (isinstance(st.value.args[1], ast.Constant) and st.value.args[1].value is None):
                        continue
                    v, key = st.targets[0].id, st.value.args[0]
                    key_expr = key
                    if isinstance(key, ast.Name):
                        # the key is a local bound just before to a display of names: the table is keyed by those names
                        binds = [b_ for b_ in body[:i] if isinstance(b_, ast.Assign) and len(b_.targets) == 1 and isinstance(b_.targets[0], ast.Name) and b_.targets[0].id == key.id]
                        if len(binds) == 1 and isinstance(binds[0].value, (ast.Tuple, ast.Name, ast.Attribute, ast.Subscript)):
                            key_expr = binds[0].value
                    nx = body[i + 1]
                    if not (isinstance(nx, ast.If) and not nx.orelse and isinstance(nx.test, ast.Compare) and len(nx.test.ops) == 1
                            and isinstance(nx.test.ops[0], ast.Is) and isinstance(nx.test.left, ast.Name) and nx.test.left.id == v
                            and isinstance(nx.test.comparators[0], ast.Constant) and nx.test.comparators[0].value is None and len(nx.body) >= 2):
                        continue
                    *comp, store = nx.body
                    if not (isinstance(store, ast.Assign) and len(store.targets) == 1 and isinstance(store.targets[0], ast.Subscript)
                            and _is_self_attr(store.targets[0].value, c) and ast.dump(store.targets[0].slice) == ast.dump(key)
                            and isinstance(store.value, ast.Name) and store.value.id == v):
                        continue
                    locals_ = set()
                    okc = True
                    key_names = frozenset(n.id for n in ast.walk(key) if isinstance(n, ast.Name)) | frozenset(n.id for n in ast.walk(key_expr) if isinstance(n, ast.Name))
                    for s_ in comp:
                        if not (isinstance(s_, ast.Assign) and all(isinstance(t, ast.Name) or (isinstance(t, ast.Tuple) and all(isinstance(e, ast.Name) for e in t.elts))
                                                                   for t in s_.targets) and _pure_expr(s_.value, locals_, stable, outer, key_names)):
                            okc = False
                            break
                        for t in s_.targets:
                            locals_ |= {e.id for e in ([t] if isinstance(t, ast.Name) else t.elts)}
                    last = comp[-1] if comp else None
                    if not okc or not (isinstance(last, ast.Assign) and len(last.targets) == 1 and isinstance(last.targets[0], ast.Name) and last.targets[0].id == v
                                       and isinstance(last.value, (ast.Call, ast.BinOp, ast.Compare, ast.Subscript))):
                        continue
                    if not _pure_expr(key, set(), stable) or any(isinstance(n, ast.Call) for n in ast.walk(key)):
                        continue
                    claimed.update({id(st.value.func.value), id(store.targets[0].value)})
                    rewrites.append((body, st, nx, list(comp)))

        for k in ct.by_qual.values():
            for fn in k.methods.values():
                outer_ = frozenset({a.arg for a in fn.args.args + fn.args.kwonlyargs} | {n.id for n in ast.walk(fn) if isinstance(n, ast.Name) and isinstance(n.ctx, ast.Store)})
                scan(fn.body, k, outer_)
        if not rewrites or {id(n) for n in occurrences} != claimed:
            continue
        for body, st, nx, comp in rewrites:
            i = next(j for j, s_ in enumerate(body) if s_ is st)
            body[i:i + 2] = comp
        log.append(f"{host.module.relpath}:{sites[0][2].lineno} self.{c} is a pure memo table ({len(rewrites)} lookup(s)): lookups replaced by the computation")
    return log
