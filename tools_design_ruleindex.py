#!/usr/bin/env python3
"""Replace the body of DESIGN.md section 10.10 (rule index) with the output of tools_rule_index.py (run after a thorough pass: counts come from the evidence files)."""
import subprocess
from pathlib import Path
here = Path(__file__).resolve().parent
s = (here / "DESIGN.md").read_text()
i = s.index("### 10.10 Rule index")
j = s.index("## Appendix A")
head_end = s.index("\n", i) + 1
idx = subprocess.run(["python3", str(here / "tools_rule_index.py")], capture_output=True, text=True, check=True).stdout
s = s[:head_end] + "\n" + idx.rstrip() + "\n\n" + s[j:]
(here / "DESIGN.md").write_text(s)
print("section 10.10 regenerated")
