"""C09 - interrupt-and-resume at any iteration equals an uninterrupted run."""

from __future__ import annotations

import ast

from ..effects import is_self_attr
from ..loader import AnalysisError, norm_text
from .common import Context, SolveLoop, calls_in, fmt_path, self_call_name, stmt_text

PROP = "C09"
EXPLANATION = (
    "Decides the structural premises of resume-equals-uninterrupted for every solver class at "
    "once: the set of loop-carried attributes of `solve` (computed by a transitive read/write "
    "effect analysis over the loop body, MRO-resolved) must be contained in what `solver_state` "
    "saves and what `_restore_state_from_checkpoint` restores, through the *same* field path; "
    "every save inside the loop must be labelled with the counter and lie after the iteration's "
    "increment and after every write to loop-carried state on every path; and the checkpoint code "
    "(save, set-up, enabled-test, snapshot property) must not write any solver state.  Does not "
    "decide bit equality across processes."
    ' Loop-carried state includes solve-carried state: attributes solve() reads before the loop and writes anywhere (what a later call or a resumed solver starts from).'
)
RULES = {
    "R9.1": "loop-carried(C) is a subset of Saved(C) and of Restored(C) (exemption: SemiAsyncValueIteration.key, advanced only under shuffle_states)",
    "R9.2": "every restored attribute is read from the field path into which solver_state stores that same attribute",
    "R9.3": "every save(step) in solve has step == self.iteration and follows the increment and all loop-carried writes of that iteration on every path",
    "R9.4": "save / _setup_checkpointing / is_checkpointing_enabled / solver_state / has_full_config write no loop-carried or saved attribute",
    "R9.6": "the restore template agrees in kind with what is saved: a fresh solver's solver_state is the StandardRestore template and Orbax casts every restored leaf to the template leaf's type, so a scalar field annotated `float` (`int`) in the State/Info dataclass is never written from an int (float) expression outside _restore_state_from_checkpoint",
    "R9.7": "what a save stores is the state the sweep left: on every path, between an iteration's step and the next save (in the loop or the final one after it) a saved attribute is written only by storing a result of that step - never cleared, reset or post-processed before it has been saved",
    "R9.5": "save() snapshots self.solver_state and hands exactly that snapshot, with its own step argument, to checkpoint_manager.save",
}
ASSUMPTIONS = [
    "Orbax StandardSave/StandardRestore round-trip a pytree of arrays and scalars field by field; a restored leaf takes the type of the template leaf (an int template truncates a saved float)",
    "attribute effects are tracked on `self` only (aliases of solver state held in locals are not followed)",
]

EXEMPT = {("SemiAsyncValueIteration", "key"): "advanced only under shuffle_states; C09 exempts shuffled runs from bit equality"}


def save_paths(ctx, cls):
    """attr -> field path, from the constructor-call tree returned by solver_state."""
    owner, fn = ctx.ct.require(cls, "solver_state")
    from .common import returned_expr
    rv = returned_expr(fn)
    if not isinstance(rv, ast.Call):
        raise AnalysisError(f"{cls.name}.solver_state: expected a single `return <State>(...)`")
    out: dict[str, tuple] = {}
    ctor_calls = []

    def walk(call: ast.Call, prefix: tuple):
        ctor_calls.append((call, prefix))
        if call.args:
            raise AnalysisError(f"{cls.name}.solver_state: positional constructor arguments")
        kws_ = []
        for kw in call.keywords:
            if kw.arg is None:
                # `**self._hook()` where the hook, resolved for THIS class, returns a dict display with string keys: those are the keywords
                hv = kw.value
                exp = None
                if isinstance(hv, ast.Call) and not hv.args and not hv.keywords and isinstance(hv.func, ast.Attribute) \
                        and isinstance(hv.func.value, ast.Name) and hv.func.value.id == "self":
                    r_ = ctx.ct.lookup(cls, hv.func.attr)
                    if r_:
                        body_ = [b for b in r_[1].body if not (isinstance(b, ast.Expr) and isinstance(b.value, ast.Constant))]
                        if len(body_) == 1 and isinstance(body_[0], ast.Return) and isinstance(body_[0].value, ast.Dict) \
                                and all(isinstance(k_, ast.Constant) and isinstance(k_.value, str) for k_ in body_[0].value.keys):
                            exp = [ast.keyword(arg=k_.value, value=v_) for k_, v_ in zip(body_[0].value.keys, body_[0].value.values)]
                if exp is None:
                    raise AnalysisError(f"{cls.name}.solver_state: **kwargs in constructor")
                kws_.extend(exp)
            else:
                kws_.append(kw)
        call.keywords = kws_  # (this class's own copy of solver_state: the hook's entries are its keywords)
        for kw in kws_:
            v = kw.value
            if isinstance(v, ast.Name):  # a sub-record built in a local first
                ds = [s_ for s_ in ast.walk(fn) if isinstance(s_, ast.Assign) and len(s_.targets) == 1
                      and isinstance(s_.targets[0], ast.Name) and s_.targets[0].id == v.id]
                if len(ds) == 1:
                    v = ds[0].value
            if isinstance(v, ast.Call) and isinstance(v.func, ast.Name):
                walk(v, prefix + (kw.arg,))
            elif is_self_attr(v):
                out.setdefault(v.attr, prefix + (kw.arg,))
                if out[v.attr] != prefix + (kw.arg,):
                    out[v.attr + "#2"] = prefix + (kw.arg,)
            else:
                out["<expr:" + ast.unparse(v) + ">"] = prefix + (kw.arg,)

    walk(rv, ())
    return owner, fn, out, ctor_calls


def restore_paths(ctx, cls):
    """attr -> field path read from the parameter, from `self.a = param.x.y` statements
    (following super()._restore_state_from_checkpoint(param))."""
    owner, fn = ctx.ct.require(cls, "_restore_state_from_checkpoint")
    return _restore_paths_of(ctx, cls, owner, fn)


def _restore_paths_of(ctx, cls, owner, fn):
    params = [a.arg for a in fn.args.args if a.arg != "self"]
    if len(params) != 1:
        raise AnalysisError(f"{cls.name}._restore_state_from_checkpoint: expected one parameter")
    p = params[0]
    out: dict[str, tuple] = {}
    other = []
    alias: dict[str, tuple] = {p: ()}  # local name -> field path it stands for (`info = solver_state.info`)

    def path_of(v):
        path = []
        while isinstance(v, ast.Attribute):
            path.append(v.attr)
            v = v.value
        if isinstance(v, ast.Name) and v.id in alias:
            return alias[v.id] + tuple(reversed(path))
        return None

    for s in fn.body:
        if isinstance(s, ast.Expr) and isinstance(s.value, ast.Constant) or isinstance(s, ast.Pass):
            continue
        if isinstance(s, ast.Assign) and len(s.targets) == 1 and isinstance(s.targets[0], ast.Name) and path_of(s.value) is not None \
                and s.targets[0].id != p:
            alias[s.targets[0].id] = path_of(s.value)
            continue
        if isinstance(s, ast.Expr) and isinstance(s.value, ast.Call) and ast.unparse(s.value.func).startswith("logger."):
            continue
        # super()._restore_state_from_checkpoint(<param>): inherit the parent's restores
        if isinstance(s, ast.Expr) and isinstance(s.value, ast.Call) and ast.unparse(s.value.func) == "super()._restore_state_from_checkpoint" \
                and len(s.value.args) == 1 and isinstance(s.value.args[0], ast.Name) and s.value.args[0].id == p:
            up = ctx.ct.lookup(cls, "_restore_state_from_checkpoint", after=owner)
            if up is not None:
                _o, _f, inherited, _other = _restore_paths_of(ctx, cls, up[0], up[1])
                for k_, v_ in inherited.items():
                    out.setdefault(k_, v_)
                other.extend(_other)
                continue
        # self._hook(<param path>): a restore hook resolved for THIS class, whose parameter stands for that path
        if isinstance(s, ast.Expr) and isinstance(s.value, ast.Call) and isinstance(s.value.func, ast.Attribute) and isinstance(s.value.func.value, ast.Name) \
                and s.value.func.value.id == "self" and len(s.value.args) == 1 and not s.value.keywords and path_of(s.value.args[0]) is not None:
            hk = ctx.ct.lookup(cls, s.value.func.attr)
            if hk is not None:
                hparams = [a_.arg for a_ in hk[1].args.args if a_.arg != "self"]
                if len(hparams) == 1:
                    base_ = path_of(s.value.args[0])
                    _o, _f, sub, sub_other = _restore_paths_of(ctx, cls, hk[0], hk[1])
                    for k_, v_ in sub.items():
                        out.setdefault(k_, base_ + v_)
                    other.extend(sub_other)
                    continue
        if isinstance(s, ast.Assign) and len(s.targets) == 1 and is_self_attr(s.targets[0]):
            path = []
            v = s.value
            # value-transparent wrappers: jnp.asarray(x), np.array(x), int(x), float(x)
            while isinstance(v, ast.Call) and len(v.args) == 1 and not v.keywords and ast.unparse(v.func) in (
                    "jnp.asarray", "jnp.array", "np.asarray", "np.array", "int", "float"):
                v = v.args[0]
            pth = path_of(v)
            if pth is not None:
                out[s.targets[0].attr] = pth
                continue
        other.append(s)
    return owner, fn, out, other


def _single_slot_cache(ctx, cls, a) -> bool:
    """every write of self.<a> outside constructor-only code is `self.a = v` as the last statement of `if v is None [or ..]:` where `v = self.a` precedes"""
    writes = []
    for k in ctx.ct.mro(cls):
        for name, fn in k.methods.items():
            for st in ast.walk(fn):
                for blk in (getattr(st, "body", None), getattr(st, "orelse", None)):
                    if not isinstance(blk, list):
                        continue
                    for i, s_ in enumerate(blk):
                        if isinstance(s_, ast.Assign) and len(s_.targets) == 1 and is_self_attr(s_.targets[0], a):
                            writes.append((st, blk, i, s_))
    late = [w for w in writes if not (isinstance(w[3].value, ast.Constant) and w[3].value.value is None)]
    if not late or len(late) == len(writes):
        return False  # never reset to None in a set-up method, or never filled
    for st, blk, i, s_ in late:
        if not (isinstance(st, ast.If) and blk is st.body and i == len(blk) - 1 and isinstance(s_.value, ast.Name)):
            return False
        v = s_.value.id
        t = st.test
        first = t.values[0] if isinstance(t, ast.BoolOp) and isinstance(t.op, ast.Or) else t
        if not (isinstance(first, ast.Compare) and isinstance(first.left, ast.Name) and first.left.id == v and len(first.ops) == 1
                and isinstance(first.ops[0], ast.Is) and isinstance(first.comparators[0], ast.Constant) and first.comparators[0].value is None):
            return False
    return True


def run(ctx: Context, col) -> None:
    from .common import Parts

    part = Parts()
    for cls in ctx.solvers():
        loop = ctx.solve_loop(cls)
        eff = ctx.effects(cls)
        L = loop.loop_carried()
        # state read before the loop and written by solve: what a later call (or a resumed solver) starts from
        SC = loop.solve_carried() - L
        so, sfn, spaths, _ = save_paths(ctx, cls)
        ro, rfn, rpaths, rother = restore_paths(ctx, cls)
        saved_reads = eff.of_function(so, sfn)[0]
        restored_writes = eff.of_function(ro, rfn)[1]
        col.saw("loop-carried", f"{cls.name}: {sorted(L)}")
        col.saw("saved", f"{cls.name}: {sorted(saved_reads)}")
        col.saw("restored", f"{cls.name}: {sorted(restored_writes)}")
        # R9.1 one instance per loop-carried attribute
        relevant = loop.relevant_attrs()
        from .common import collaborator_attrs
        collab = collaborator_attrs(ctx, cls)
        hidden = sorted(a for a in L if a in collab and a not in spaths)
        if hidden:
            raise AnalysisError(f"{cls.name}: loop-carried state is kept inside collaborator object(s) {[f'self.{a}: {collab[a]}' for a in hidden]}; what "
                                "solver_state saves of it goes through that object's own attributes, which this rule set does not follow")
        for a in sorted(L | SC):
            ex = EXEMPT.get((cls.name, a))
            in_s, in_r = a in spaths, a in rpaths
            if ex is None and not (in_s and in_r) and a not in relevant:
                ex = "carried between sweeps but never flows into values, policy, the counter, a stopping test or a save (bookkeeping only)"
            ok = (in_s and in_r) or ex is not None
            if not ok and not in_s and not in_r and _single_slot_cache(ctx, cls, a):
                raise AnalysisError(f"{cls.name}.{a} is carried between sweeps, not checkpointed, and every write of it is the single-slot cache idiom "
                                    f"(`v = self.{a}; if v is None or <stale>: v = <compute>; self.{a} = v`): it is state only if the computation can change, "
                                    "which this rule cannot tell; R9.1 cannot be decided")
            col.add("R9.1", f"{cls.name}.{a}", loop.file, loop.header.lineno, ok,
                    (f"loop-carried `{a}` is saved at {'.'.join(spaths[a])} and restored" if in_s and in_r else
                     f"exempt: {ex}" if ex else
                     f"loop-carried `{a}` is {'not saved by solver_state' if not in_s else 'saved'} and "
                     f"{'not restored by _restore_state_from_checkpoint' if not in_r else 'restored'}"),
                    text=f"loop-carried {a}", nontrivial=ex is None)
        # R9.2 path agreement for every restored attribute
        for a, rp in sorted(rpaths.items()):
            sp = spaths.get(a)
            ok = sp == rp
            col.add("R9.2", f"{cls.name}.{a}", ro.module.relpath, rfn.lineno, ok,
                    f"`{a}` restored from {'.'.join(rp)}, the path solver_state stores it at" if ok else
                    f"`{a}` is restored from {'.'.join(rp) or '<param>'} but solver_state stores it at {'.'.join(sp) if sp else '<nowhere>'}",
                    text=f"restore {a}")
        if rother:
            col.add("R9.2", f"{cls.name}._restore_state_from_checkpoint", ro.module.relpath, rother[0].lineno, False,
                    f"statement is not `self.<attr> = <param>.<path>`: {norm_text(rother[0])}", text=norm_text(rother[0]))
        part(_save_placement, ctx, cls, loop, L, col)
        part(_no_state_writes, ctx, cls, L | set(spaths), col)
        part(_saved_state_untouched, ctx, cls, loop, {k for k in spaths if not k.startswith("<")}, col)
        template_kinds(ctx, cls, col, "R9.6")
    part(_save_body, ctx, col)
    part.finish()
    col.floor("R9.7", 5)
    col.floor("R9.6", 10)
    col.floor("R9.1", 14)
    col.floor("R9.2", 17)
    col.floor("R9.3", 10)
    col.floor("R9.4", 5)
    col.floor("R9.5", 1)


def _save_arg_is_counter(call: ast.Call) -> bool:
    return len(call.args) == 1 and not call.keywords and is_self_attr(call.args[0], SolveLoop.COUNTER) or (
        not call.args and len(call.keywords) == 1 and call.keywords[0].arg == "step"
        and is_self_attr(call.keywords[0].value, SolveLoop.COUNTER)
    )


def _save_placement(ctx, cls, loop: SolveLoop, L, col):
    construct = f"{cls.name}.solve"
    # every save call site in solve (direct) is labelled with the counter
    sites = []
    for n in loop.cfg.stmts():
        region = SolveLoop.node_region(n)
        if region is None:
            continue
        for reg in (region if isinstance(region, list) else [region]):
            for c in calls_in(reg):
                if self_call_name(c) == "save":
                    sites.append((n, c))
    for n, c in sites:
        ok = _save_arg_is_counter(c)
        col.add("R9.3", construct, loop.file, n.lineno, ok,
                "save labelled with self.iteration" if ok else f"save labelled with `{ast.unparse(c)}`, not the counter",
                text=norm_text(c) + (" [in loop]" if n.id in loop.members else " [after loop]"))
    # ordering inside an iteration
    bad = None
    npaths = 0
    for kind, p in loop.body_paths():
        evs = loop.events(p)
        npaths += 1
        for i, e in enumerate(evs):
            if e.kind != "SAVE":
                continue
            before = evs[:i]
            after = evs[i + 1:]
            if not any(x.kind == "INC" for x in before):
                bad = (p, e, "the save precedes the increment of self.iteration")
            late = [x for x in after if x.kind in ("WRITE", "STEP", "INC", "TEST") and (x.attrs & L)]
            if late:
                bad = (p, e, f"line {late[0].node.lineno} writes loop-carried {sorted(late[0].attrs & L)} after the save of the same iteration")
            if not any(x.kind == "STEP" for x in before):
                bad = (p, e, "the save precedes the step of this iteration")
        if bad:
            break
    col.add("R9.3", construct, loop.file, (bad[1].node.lineno if bad else loop.header.lineno), bad is None,
            f"on all {npaths} paths every in-loop save follows the increment, the step and all loop-carried writes"
            if bad is None else f"path {fmt_path(bad[0])}: {bad[2]}", text="save placement in iteration")


def _saved_state_untouched(ctx, cls, loop: SolveLoop, saved: set, col, rule="R9.7"):
    """R9.7: no destructive write of saved state between a step and the save that records it."""
    construct = f"{cls.name}.solve"
    step_locals = set()
    for n in loop.cfg.stmts():
        if loop.reaches_step(n) and isinstance(n.ast, ast.Assign):
            for t in n.ast.targets:
                step_locals |= {x.id for x in ast.walk(t) if isinstance(x, ast.Name)}

    def is_store(ev):
        a = ev.node.ast
        return isinstance(a, ast.Assign) and len(a.targets) == 1 and is_self_attr(a.targets[0]) and isinstance(a.value, ast.Name) \
            and a.value.id in step_locals

    bad = None
    npaths = 0
    body = list(loop.body_paths())
    post = [q for q in loop.post_loop_paths() if q[-1][0] is not loop.cfg.raise_exit]
    for _kind, p in body:
        ev_p = loop.events(p)
        for q in [[]] + post:
            npaths += 1
            evs = ev_p + (loop.events(q) if q else [])
            seen_step = False
            dirty = None
            for e in evs:
                if e.kind == "STEP":
                    seen_step, dirty = True, None
                elif e.kind == "SAVE":
                    if seen_step and dirty is not None and bad is None:
                        bad = (p + q, dirty, e)
                    # what follows this save belongs to the next save (if any)
                    dirty = None
                elif e.kind in ("WRITE", "TEST") and seen_step and (e.attrs & saved) and not is_store(e):
                    if e.attrs & saved - {SolveLoop.COUNTER}:
                        dirty = dirty or e
        if bad:
            break
    col.add(rule, construct, loop.file, (bad[1].node.lineno if bad else loop.header.lineno), bad is None,
            f"on all {npaths} step-to-save paths saved state is only written by storing the step's results" if bad is None else
            f"path {fmt_path(bad[0])}: line {bad[1].node.lineno} (`{stmt_text(bad[1].node)[:70]}`) overwrites saved {sorted(bad[1].attrs & saved)} after the step "
            f"and before the save at line {bad[2].node.lineno}: the checkpoint labelled with this iteration does not hold the state of this iteration",
            text="saved state untouched before save")


CKPT_METHODS = ["save", "_setup_checkpointing", "is_checkpointing_enabled", "solver_state",
                "has_full_config", "_save_solver_config", "_create_checkpoint_manager", "_checkpoint_operation"]


def _no_state_writes(ctx, cls, state: set, col):
    eff = ctx.effects(cls)
    bad = []
    seen = []
    for m in CKPT_METHODS:
        r = ctx.ct.lookup(cls, m)
        if r is None:
            continue
        seen.append(m)
        w = eff.of_function(r[0], r[1])[1] & state
        if w:
            bad.append((m, r, sorted(w)))
    if "save" not in seen or "solver_state" not in seen:
        raise AnalysisError(f"anchor vanished: {cls.name}.save / solver_state")
    ok = not bad
    file = bad[0][1][0].module.relpath if bad else ctx.ct.require(cls, "save")[0].module.relpath
    line = bad[0][1][1].lineno if bad else ctx.ct.require(cls, "save")[1].lineno
    col.add("R9.4", f"{cls.name}", file, line, ok,
            f"{', '.join(seen)} write none of the solver state {sorted(state)}" if ok else
            f"{bad[0][0]} writes solver state {bad[0][2]}: enabling checkpointing would change computed results",
            text="checkpoint code writes no solver state")


def _save_body(ctx, col):
    cm = ctx.ct.get("CheckpointMixin")
    owner, fn = ctx.ct.require(cm, "save")
    params = [a.arg for a in fn.args.args if a.arg != "self"]
    step = params[0] if params else None
    from .common import deref
    dfn = deref(fn, fn)
    snap_names = set()
    for s in ast.walk(dfn):
        if isinstance(s, ast.Assign) and len(s.targets) == 1 and isinstance(s.targets[0], ast.Name) and is_self_attr(s.value, "solver_state"):
            snap_names.add(s.targets[0].id)
    mgr_calls = [c for c in calls_in(dfn) if isinstance(c.func, ast.Attribute) and c.func.attr == "save"
                 and is_self_attr(c.func.value, "checkpoint_manager")]
    ok, why = True, "save(step) passes `step` and StandardSave(self.solver_state snapshot) to checkpoint_manager.save"
    if len(mgr_calls) != 1:
        ok, why = False, f"{len(mgr_calls)} calls of self.checkpoint_manager.save in save() (expected 1)"
    else:
        c = mgr_calls[0]
        lab_ = c.args[0] if c.args else None
        # int(step) / operator.index(step) of the integer counter is the counter
        while isinstance(lab_, ast.Call) and len(lab_.args) == 1 and not lab_.keywords and ast.unparse(lab_.func) in ("int", "operator.index"):
            lab_ = lab_.args[0]
        if not (isinstance(lab_, ast.Name) and lab_.id == step):
            ok, why = False, f"checkpoint_manager.save is labelled `{ast.unparse(c.args[0]) if c.args else '?'}`, not save()'s own `{step}` argument"
        else:
            payload = None
            for kw in c.keywords:
                if kw.arg == "args" and isinstance(kw.value, ast.Call) and kw.value.args:
                    payload = kw.value.args[0]
            if payload is None and len(c.args) > 1 and isinstance(c.args[1], ast.Call) and c.args[1].args:
                payload = c.args[1].args[0]
            good = payload is not None and (
                (isinstance(payload, ast.Name) and payload.id in snap_names) or is_self_attr(payload, "solver_state")
            )
            if not good:
                ok, why = False, f"payload `{ast.unparse(payload) if payload is not None else None}` is not the solver_state snapshot"
    col.add("R9.5", "CheckpointMixin.save", owner.module.relpath, fn.lineno, ok, why, text="save payload and label")


# ------------------------------------------------------------------------------------------------ R9.6
def _scalar_kind(ann: ast.AST):
    src = ast.unparse(ann)
    if src in ("int", "float"):
        return src
    if src.startswith("Float[") or src.split(" | ")[0] in ("ValueFunction",):
        return "float64 array"
    return None


NARROW = ("float32", "float16", "bfloat16", "int64", "int32", "int16", "int8", "uint8", "int", "bool")


def expr_kind(e: ast.AST, field_kinds: dict):
    """'int' / 'float' / None (undetermined) of a scalar expression, from literals and annotated state fields."""
    if isinstance(e, ast.Call):
        for kw in e.keywords:
            if kw.arg == "dtype" and ast.unparse(kw.value).split(".")[-1] in NARROW:
                return ast.unparse(kw.value).split(".")[-1] + " array"
        if isinstance(e.func, ast.Attribute) and e.func.attr == "astype" and e.args and ast.unparse(e.args[0]).split(".")[-1] in NARROW:
            return ast.unparse(e.args[0]).split(".")[-1] + " array"
    if isinstance(e, ast.Constant):
        if isinstance(e.value, bool):
            return None
        return "int" if isinstance(e.value, int) else "float" if isinstance(e.value, float) else None
    if isinstance(e, ast.UnaryOp) and isinstance(e.op, (ast.USub, ast.UAdd)):
        return expr_kind(e.operand, field_kinds)
    if is_self_attr(e):
        return field_kinds.get(e.attr)
    if isinstance(e, ast.Call) and isinstance(e.func, ast.Name) and e.func.id in ("int", "len", "float"):
        return "float" if e.func.id == "float" else "int"
    if isinstance(e, ast.BinOp):
        a, b = expr_kind(e.left, field_kinds), expr_kind(e.right, field_kinds)
        if isinstance(e.op, ast.Div):
            return "float" if a and b else None
        if a == "float" or b == "float":
            return "float" if a and b else None
        return "int" if a == "int" and b == "int" else None
    return None


def template_kinds(ctx, cls, col, rule):
    """One instance per scalar leaf of solver_state: every write of its source attribute outside the
    restore method has the kind the State/Info dataclass declares."""
    so, sfn, spaths, ctor_calls = save_paths(ctx, cls)
    ro, rfn, _rp, _x = restore_paths(ctx, cls)
    declared = {}
    for call, _prefix in ctor_calls:
        dc = ctx.ct.class_of_dotted(ctx.ct.resolve_name(so.module, call.func.id)) if isinstance(call.func, ast.Name) else None
        if dc is None:
            continue
        fields = ctx.ct.all_fields(dc)
        for kw in call.keywords:
            if is_self_attr(kw.value) and kw.arg in fields:
                k = _scalar_kind(fields[kw.arg][1].annotation)
                if k:
                    declared[kw.value.attr] = (k, dc.name, kw.arg)
    kinds = {a: k for a, (k, _d, _f) in declared.items()}
    for attr, (k, dcname, fname) in sorted(declared.items()):
        bad = None
        n = 0
        for owner in ctx.ct.mro(cls):
            for fn in owner.methods.values():
                if fn is rfn:
                    continue
                for st in ast.walk(fn):
                    val = None
                    if isinstance(st, ast.Assign) and any(is_self_attr(t, attr) for t in st.targets):
                        val = st.value
                    elif isinstance(st, ast.AugAssign) and is_self_attr(st.target, attr):
                        val = st.value
                    elif isinstance(st, ast.AnnAssign) and is_self_attr(st.target, attr) and st.value is not None:
                        val = st.value
                    if val is None:
                        continue
                    n += 1
                    if isinstance(val, ast.Constant) and val.value is None and fn.name in ("_initialize_solver_state_elements", "__init__") \
                            and k.endswith("array") and bad is None:
                        # the fresh solver's state is the restore template: a None leaf is skipped by Orbax, so the saved array
                        # is silently not restored
                        bad = (owner, fn, st, "None (so the template has no leaf here and the saved array is skipped on restore)")
                        continue
                    got = expr_kind(val, kinds)
                    if k == "float64 array" and not (got or "").endswith(" array"):
                        got = None
                    if got and got != k and bad is None:
                        bad = (owner, fn, st, got)
        file, line = (bad[0].module.relpath, bad[2].lineno) if bad else (so.module.relpath, sfn.lineno)
        col.add(rule, f"{cls.name}.{attr}", file, line, bad is None,
                f"`{attr}` ({dcname}.{fname}: {k}): {n} writes outside the restore method, none of the other kind" if bad is None else
                f"`{norm_text(bad[2])}` in {bad[0].name}.{bad[1].name} writes an {bad[3]} into `{attr}`, declared `{fname}: {k}` in {dcname}: "
                f"on a fresh solver this value is the StandardRestore template leaf, and Orbax casts the restored leaf to the template's type "
                f"({'the counter comes back as a float' if k == 'int' else 'the saved float64 value is truncated on resume'})",
                text=f"template kind {attr}")
