"""C20 - configuration contract: valid parameters work by every route, invalid rejected."""

from __future__ import annotations

import ast
import builtins
import symtable

from ..cfg import cfg_of
from ..effects import is_self_attr
from ..interval import INF, IntervalFn, Iv, term_interval
from ..loader import AnalysisError, norm_text
from ..terms import S, show_norm
from . import c10
from .common import Context, calls_in, parents_of
from .solverterms import CONV_TESTS, HAS_CONV_TEST, solver_interp

PROP = "C20"
EXPLANATION = (
    "Decides the structural clauses of the configuration contract over the whole package: no name "
    "is loaded that is not bound in some enclosing scope (scope analysis of every function, "
    "annotations excluded); no variable that a function itself tests against None is dereferenced "
    "where that test has not established non-None; every validator's guards, read as an accepted "
    "set per field (interval-set algebra over the guard's boolean structure), equal the documented "
    "domain, which also makes the five solver validators agree on their shared fields; the "
    "progress-message number format gets a precision >= 0 and no int() of a possibly infinite value "
    "for every threshold the validators admit (interval evaluation of the threshold term, then of "
    "get_convergence_format); and the 64-bit switch dominates every array creation in the solver "
    "constructor.  Does not decide that solve() completes for every accepted value."
    ' Also decides that the 64-bit flag is only ever switched ON by the package (R20.6) and that a NaN gamma is rejected by some guard (R20.15).'
)
RULES = {
    "R20.1": "no name is loaded in any function of src/mdpax that is unbound in every enclosing scope, the module and builtins",
    "R20.2": "a variable the function tests against None is not dereferenced where non-None has not been established",
    "R20.3": "validator guards accept exactly the documented domain of every documented field and raise ValueError/TypeError",
    "R20.4": "`_target_` <-> class <-> Config round trip (the configuration-only and reload routes build the right classes)",
    "R20.5": "format precision >= 0 and no int() of a possibly infinite value, for every validator-admitted (gamma, epsilon) and convergence_test",
    "R20.7": "every self.config.<field> read by a method that a concrete solver / problem class resolves to exists in that class's own Config (so the kwargs, config-only and reload routes all find it)",
    "R20.8": "the four problem constructors and the solver accept `config` or keyword arguments the same way: self.config = config if given else self.Config(**kwargs)",
    "R20.9": "verbosity: every validator-accepted level 0..4 is a key of the level table, the table is {0:ERROR,1:WARNING,2:INFO,3:DEBUG,4:TRACE}, the string table of set_verbosity is its inverse, anything else raises",
    "R20.10": "defaults: every field default lies in the validator-accepted domain, and the five solver configurations agree on the defaults of their shared fields (gamma of relative value iteration excepted); jax_double_precision defaults to True",
    "R20.15": "a discount factor that is not a number in [0, 1] is rejected - NaN included: some guard on gamma raises when every comparison with gamma is false (`not 0 <= gamma <= 1` does, `gamma < 0 or gamma > 1` does not, and a NaN gamma then builds a solver whose threshold and values are NaN)",
    "R20.14": "a division whose divisor can be 0 for a validator-accepted configuration (the max-diff threshold divides by gamma, and gamma = 0 is accepted) is carried out on JAX / NumPy scalars, where it yields inf, never on Python numbers, where it raises ZeroDivisionError in the constructor: the attribute holding the divisor is assigned from an array constructor",
    "R20.13": "no function or method of the package has a mutable or call-valued default argument (list / dict / set display, constructor call): it is evaluated once and shared by every call and every solver instance, so one solve could change the defaults of the next (expected count zero)",
    "R20.12": "a configuration value for which 0 / 0.0 is a valid setting (gamma, checkpoint_frequency, max_checkpoints, fire / substitution probability, random_seed) is never subjected to truthiness (`x or default`, `if x:`, `x and ...`): the valid zero would silently become the fallback (expected count zero; `verbose`, where 0 means quiet, is exempt)",
    "R20.11": "solver code never takes a dtype from a runtime value (`x.astype(v.dtype)`, `dtype=v.dtype`) nor casts to a narrower float: with double precision requested, results must not inherit the width of whatever estimates or tables came in (expected count zero)",
    "R20.6": "the 64-bit switch dominates every JAX array creation and the problem instantiation in Solver._setup_config; problem constructors do not create floating tables before a solver can enable it",
}
ASSUMPTIONS = [
    "integer-typed fields hold integers (x <= 0 rejects exactly x < 1)",
    "the documented domains are those frozen in DESIGN.md Appendix C.1 (from the property statement and the Args: docstrings)",
]


# =============================================================================== R20.1
class _Strip(ast.NodeTransformer):
    def visit_arg(self, n):
        n.annotation = None
        return n

    def visit_FunctionDef(self, n):
        n.returns = None
        self.generic_visit(n)
        return n

    def visit_AnnAssign(self, n):
        self.generic_visit(n)
        if n.value is None:
            return None
        return ast.copy_location(ast.Assign(targets=[n.target], value=n.value), n)


def _scopes(ctx, col):
    nfun = 0
    for m in sorted(ctx.repo.modules.values(), key=lambda x: x.relpath):
        tree = _Strip().visit(ast.parse(m.source))
        ast.fix_missing_locations(tree)
        src = ast.unparse(tree)
        st = symtable.symtable(src, m.relpath, "exec")
        modnames = {s.get_name() for s in st.get_symbols() if s.is_assigned() or s.is_imported() or s.is_namespace()}
        bad = []

        def walk(t, path):
            nonlocal nfun
            if t.get_type() == "function":
                nfun += 1
            for s in t.get_symbols():
                if s.is_referenced() and not (s.is_assigned() or s.is_imported() or s.is_parameter() or s.is_namespace()):
                    n = s.get_name()
                    if s.is_global() or (not s.is_local() and not s.is_free()):
                        if n not in modnames and not hasattr(builtins, n):
                            bad.append((".".join(path + [t.get_name()]) if t.get_type() != "module" else m.name, n))
            for c in t.get_children():
                walk(c, path + ([t.get_name()] if t.get_type() != "module" else []))

        walk(st, [])
        # locate a line for each report in the original source
        for where, name in bad:
            line = 0
            fname = where.split(".")[-1]
            for node in ast.walk(m.tree):
                if isinstance(node, ast.FunctionDef) and node.name == fname:
                    for x in ast.walk(node):
                        if isinstance(x, ast.Name) and x.id == name and isinstance(x.ctx, ast.Load):
                            line = x.lineno
                            break
                    if line:
                        break
            col.add("R20.1", where, m.relpath, line, False,
                    f"name `{name}` is used but bound nowhere (NameError when this line runs)", text=f"undefined {name}")
        col.add("R20.1", m.name, m.relpath, 1, True, "module scope table examined", text="module scanned", nontrivial=True)
    col.saw("functions scanned", str(nfun))
    if nfun < 150:
        raise AnalysisError(f"count floor missed: scope analysis saw {nfun} functions (expected >= 150)")


# =============================================================================== R20.2
def _none_belief(ctx, col):
    nfn = 0
    for m in sorted(ctx.repo.modules.values(), key=lambda x: x.relpath):
        parents = parents_of(m.tree)
        for fn in ast.walk(m.tree):
            if not isinstance(fn, ast.FunctionDef):
                continue
            tested = set()
            for n in ast.walk(fn):
                if (isinstance(n, ast.Compare) and len(n.ops) == 1 and isinstance(n.ops[0], (ast.Is, ast.IsNot))
                        and isinstance(n.comparators[0], ast.Constant) and n.comparators[0].value is None
                        and isinstance(n.left, ast.Name)):
                    tested.add(n.left.id)
            if not tested:
                continue
            nfn += 1
            out = []

            def derefs(node, st):
                for n in ast.walk(node):
                    if (isinstance(n, (ast.Attribute, ast.Subscript)) and isinstance(n.value, ast.Name)
                            and n.value.id in tested and isinstance(n.value.ctx, ast.Load)):
                        if st.get(n.value.id, "maybe") != "nonnull":
                            out.append((n.value.id, n.lineno, ast.unparse(n)))

            def cond_info(test):
                if (isinstance(test, ast.Compare) and len(test.ops) == 1 and isinstance(test.left, ast.Name)
                        and isinstance(test.comparators[0], ast.Constant) and test.comparators[0].value is None
                        and isinstance(test.ops[0], (ast.Is, ast.IsNot))):
                    return test.left.id, isinstance(test.ops[0], ast.IsNot)
                return None

            def term(b):
                return bool(b) and isinstance(b[-1], (ast.Raise, ast.Return, ast.Continue, ast.Break))

            def run(stmts, st):
                for s in stmts:
                    if isinstance(s, ast.If):
                        ci = cond_info(s.test)
                        # `x is not None and x.attr` : the right operands are evaluated under the belief
                        if isinstance(s.test, ast.BoolOp) and isinstance(s.test.op, ast.And):
                            st2 = dict(st)
                            for v in s.test.values:
                                derefs(v, st2)
                                c2 = cond_info(v)
                                if c2 and c2[1]:
                                    st2[c2[0]] = "nonnull"
                        else:
                            derefs(s.test, st)
                        s1, s2 = dict(st), dict(st)
                        if ci:
                            v, sense = ci
                            s1[v] = "nonnull" if sense else "null"
                            s2[v] = "null" if sense else "nonnull"
                        elif isinstance(s.test, ast.BoolOp) and isinstance(s.test.op, ast.And):
                            for v in s.test.values:
                                c2 = cond_info(v)
                                if c2 and c2[1]:
                                    s1[c2[0]] = "nonnull"
                        e1, e2 = run(s.body, s1), run(s.orelse, s2)
                        if term(s.body) and not term(s.orelse):
                            st = e2
                        elif term(s.orelse) and not term(s.body):
                            st = e1
                        else:
                            st = {k: (e1.get(k, "maybe") if e1.get(k, "maybe") == e2.get(k, "maybe") else "maybe")
                                  for k in set(e1) | set(e2)}
                    elif isinstance(s, (ast.For, ast.While, ast.With, ast.Try)):
                        for b in ("body", "orelse", "finalbody"):
                            if hasattr(s, b):
                                st = run(getattr(s, b), st)
                        for h in getattr(s, "handlers", []):
                            st = run(h.body, st)
                    elif isinstance(s, (ast.FunctionDef, ast.ClassDef)):
                        continue
                    else:
                        derefs(s, st)
                        if isinstance(s, ast.Assign):
                            for t in s.targets:
                                if isinstance(t, ast.Name) and t.id in tested:
                                    if isinstance(s.value, ast.BoolOp):
                                        st[t.id] = "maybe"
                                    elif isinstance(s.value, ast.Constant) and s.value.value is None:
                                        st[t.id] = "null"
                                    elif isinstance(s.value, ast.IfExp):
                                        st[t.id] = "maybe"
                                    else:
                                        st[t.id] = "nonnull"
                return st

            run(fn.body, {})
            cur = fn
            names = [fn.name]
            while True:
                cur = parents.get(id(cur))
                if cur is None:
                    break
                if isinstance(cur, (ast.ClassDef, ast.FunctionDef)):
                    names.append(cur.name)
            q = ".".join(reversed(names))
            if not out:
                col.add("R20.2", q, m.relpath, fn.lineno, True,
                        f"None-tested variables {sorted(tested)} are only dereferenced where non-None is established",
                        text="none-belief")
            for var, line, src in out:
                col.add("R20.2", q, m.relpath, line, False,
                        f"`{src}` dereferences `{var}`, which this function tests against None, on a path where it may be None",
                        text=f"deref {src}")
    col.saw("functions with a None test", str(nfn))


# =============================================================================== R20.3
def ivset_complement(s):
    out = []
    lo, lo_open = -INF, True  # (-inf
    for iv in s:
        if (iv.lo, ) > (lo, ) or (iv.lo == lo and not lo_open and iv.lo_open):
            out.append(Iv(lo, iv.lo, lo_open, not iv.lo_open))
        elif iv.lo == lo and lo_open and not iv.lo_open and lo != -INF:
            pass
        lo, lo_open = iv.hi, not iv.hi_open
    out.append(Iv(lo, INF, lo_open, True))
    return [x for x in out if not x.is_empty() and not (x.lo == -INF and x.hi == -INF) and not (x.lo == INF)]


def ivset_union(a, b):
    items = sorted(a + b, key=lambda v: (v.lo, v.lo_open))
    out = []
    for iv in items:
        if not out:
            out.append(iv)
            continue
        last = out[-1]
        touching = iv.lo < last.hi or (iv.lo == last.hi and not (iv.lo_open and last.hi_open))
        if touching:
            out[-1] = last.join(iv)
        else:
            out.append(iv)
    return out


def ivset_intersect(a, b):
    out = []
    for x in a:
        for y in b:
            z = x.meet(y)
            if not z.is_empty():
                out.append(z)
    return sorted(out, key=lambda v: (v.lo, v.lo_open))


def _num(e):
    if isinstance(e, ast.Constant) and isinstance(e.value, (int, float)) and not isinstance(e.value, bool):
        return float(e.value)
    if isinstance(e, ast.UnaryOp) and isinstance(e.op, ast.USub) and isinstance(e.operand, ast.Constant):
        return -float(e.operand.value)
    return None


def _field_of(e, var="self"):
    if isinstance(e, ast.Attribute) and isinstance(e.value, ast.Name) and e.value.id == var:
        return e.attr
    return None


def _cmp_set(op, c, field_left=True):
    """{x : x op c} (or {x : c op x} when the field is on the right)."""
    if not field_left:
        op = {ast.Lt: ast.Gt, ast.LtE: ast.GtE, ast.Gt: ast.Lt, ast.GtE: ast.LtE}.get(type(op), type(op))()
    if isinstance(op, ast.Lt):
        return [Iv(-INF, c, True, True)]
    if isinstance(op, ast.LtE):
        return [Iv(-INF, c, True, False)]
    if isinstance(op, ast.Gt):
        return [Iv(c, INF, True, True)]
    if isinstance(op, ast.GtE):
        return [Iv(c, INF, False, True)]
    if isinstance(op, ast.Eq):
        return [Iv(c, c)]
    if isinstance(op, ast.NotEq):
        return ivset_complement([Iv(c, c)])
    raise AnalysisError("comparison operator")


def pred_set(test, field, var="self"):
    """Set of numeric values of `field` for which the boolean expression is true; None if the
    expression is not a pure numeric predicate of that single field."""
    if isinstance(test, ast.UnaryOp) and isinstance(test.op, ast.Not):
        s = pred_set(test.operand, field, var)
        return None if s is None else ivset_complement(s)
    if isinstance(test, ast.BoolOp):
        parts = [pred_set(v, field, var) for v in test.values]
        if any(p is None for p in parts):
            return None
        r = parts[0]
        for p in parts[1:]:
            r = ivset_union(r, p) if isinstance(test.op, ast.Or) else ivset_intersect(r, p)
        return r
    if isinstance(test, ast.Compare):
        operands = [test.left] + list(test.comparators)
        r = [Iv(-INF, INF, True, True)]
        for (l, rr), op in zip(zip(operands, operands[1:]), test.ops):
            if _field_of(l, var) == field and _num(rr) is not None:
                r = ivset_intersect(r, _cmp_set(op, _num(rr), True))
            elif _field_of(rr, var) == field and _num(l) is not None:
                r = ivset_intersect(r, _cmp_set(op, _num(l), False))
            else:
                return None
        return r
    return None


def fields_in(test, var="self"):
    return sorted({n.attr for n in ast.walk(test) if isinstance(n, ast.Attribute) and isinstance(n.value, ast.Name) and n.value.id == var})


def _is_type_guard(test, field) -> bool:
    if isinstance(test, ast.UnaryOp) and isinstance(test.op, ast.Not):
        return _is_type_guard(test.operand, field)
    if isinstance(test, ast.BoolOp):
        return all(_is_type_guard(v, field) for v in test.values)
    if isinstance(test, ast.Call) and isinstance(test.func, ast.Name) and test.func.id == "isinstance" and len(test.args) == 2 and not test.keywords:
        return _field_of(test.args[0]) == field and not any(isinstance(n, ast.Call) for n in ast.walk(test.args[1]))
    # `self.F is None`, `self.F == MISSING`: tests for the two non-values a field can hold
    if isinstance(test, ast.Compare) and len(test.ops) == 1 and _field_of(test.left) == field and isinstance(test.ops[0], (ast.Is, ast.IsNot, ast.Eq, ast.NotEq)):
        c = test.comparators[0]
        return (isinstance(c, ast.Constant) and c.value is None) or (isinstance(c, ast.Name) and c.id == "MISSING")
    return False


def parse_guard(test):
    """-> list of (field, constraint).  Constraints: ('accept', ivset) | ('set', frozenset) |
    ('len', k) | ('len_rel', other, k) | ('each', ivset) | ('cond', field2, value, ivset) | ('type', name)"""
    fs = fields_in(test)
    # problem type guard
    if fs == ["problem"]:
        src = ast.unparse(test)
        if src == "self.problem is not None and (not isinstance(self.problem, ProblemConfig))":
            return [("problem", ("type", "ProblemConfig|None"))]
        raise AnalysisError(f"unrecognised problem guard `{src}`")
    # a pure type guard on one field: a boolean combination of isinstance(self.F, T) tests (rejects values of a kind, e.g. real numbers
    # that are not integers for a size-like field); no numeric constraint
    if len(fs) == 1 and _is_type_guard(test, fs[0]):
        return [(fs[0], ("type", ast.unparse(test)))]
    # membership
    if isinstance(test, ast.Compare) and len(test.ops) == 1 and isinstance(test.ops[0], ast.NotIn) and len(fs) == 1:
        coll = test.comparators[0]
        # list(<dict>) / tuple(<dict>) / <dict>.keys() / a dict itself: membership in its keys
        if isinstance(coll, ast.Call) and isinstance(coll.func, ast.Name) and coll.func.id in ("list", "tuple", "set", "frozenset", "sorted") and len(coll.args) == 1:
            coll = coll.args[0]
        if isinstance(coll, ast.Call) and isinstance(coll.func, ast.Attribute) and coll.func.attr == "keys" and not coll.args:
            coll = coll.func.value
        if isinstance(coll, ast.Dict) and all(k is not None for k in coll.keys):
            coll = ast.Tuple(elts=list(coll.keys), ctx=ast.Load())
        if isinstance(coll, (ast.List, ast.Tuple, ast.Set)) and _field_of(test.left) == fs[0]:
            vals = [ast.literal_eval(x) for x in coll.elts]
            return [(fs[0], ("set", frozenset(vals)))]
    # len(self.F) != K  /  len(self.F) != self.G - K
    if isinstance(test, ast.Compare) and len(test.ops) == 1 and isinstance(test.ops[0], ast.NotEq):
        l, r = test.left, test.comparators[0]
        if isinstance(l, ast.Call) and isinstance(l.func, ast.Name) and l.func.id == "len" and len(l.args) == 1 and _field_of(l.args[0]):
            f = _field_of(l.args[0])
            if _num(r) is not None:
                return [(f, ("len", int(_num(r))))]
            if isinstance(r, ast.BinOp) and isinstance(r.op, (ast.Sub, ast.Add)) and _field_of(r.left) and _num(r.right) is not None:
                k = int(_num(r.right)) * (-1 if isinstance(r.op, ast.Sub) else 1)
                return [(f, ("len_rel", _field_of(r.left), k))]
    # any(x <= K for x in self.F)
    if isinstance(test, ast.Call) and isinstance(test.func, ast.Name) and test.func.id == "any" and len(test.args) == 1 \
            and isinstance(test.args[0], ast.GeneratorExp) and len(test.args[0].generators) == 1:
        g = test.args[0].generators[0]
        f = _field_of(g.iter)
        if f and isinstance(g.target, ast.Name) and not g.ifs:
            elt = test.args[0].elt
            # rewrite the element variable as a pseudo field
            class R(ast.NodeTransformer):
                def visit_Name(self, n):
                    if n.id == g.target.id:
                        return ast.Attribute(value=ast.Name(id="self", ctx=ast.Load()), attr="__elt__", ctx=ast.Load())
                    return n
            import copy
            e2 = R().visit(copy.deepcopy(elt))
            s = pred_set(e2, "__elt__")
            if s is not None:
                return [(f, ("each", tuple(ivset_complement(s))))]
    # single numeric field
    if len(fs) == 1:
        s = pred_set(test, fs[0])
        if s is not None:
            return [(fs[0], ("accept", tuple(ivset_complement(s))))]
    # self.F == K and <pred on G>
    if isinstance(test, ast.BoolOp) and isinstance(test.op, ast.And) and len(test.values) == 2 and len(fs) == 2:
        a, b = test.values
        for x, y in ((a, b), (b, a)):
            if isinstance(x, ast.Compare) and len(x.ops) == 1 and isinstance(x.ops[0], ast.Eq) and _field_of(x.left) and _num(x.comparators[0]) is not None:
                f1 = _field_of(x.left)
                f2 = [f for f in fs if f != f1][0]
                s = pred_set(y, f2)
                if s is not None:
                    return [(f2, ("cond", f1, _num(x.comparators[0]), tuple(ivset_complement(s))))]
    raise AnalysisError(f"unrecognised validator guard shape `{ast.unparse(test)}`")


def _int_norm(ivs):
    out = []
    for iv in ivs:
        lo, hi, lo_open, hi_open = iv.lo, iv.hi, iv.lo_open, iv.hi_open
        if lo != -INF and lo_open and lo == int(lo):
            lo, lo_open = lo + 1, False
        if hi != INF and hi_open and hi == int(hi):
            hi, hi_open = hi - 1, False
        out.append(Iv(lo, hi, lo_open if lo != -INF else True, hi_open if hi != INF else True))
    return tuple(out)


def A(lo, hi, lo_open=False, hi_open=False):
    return (Iv(float(lo), float(hi), lo_open or lo == -INF, hi_open or hi == INF),)


POS = A(0, INF, True)          # (0, inf)
UNIT = A(0, 1)                 # [0, 1]
GE1 = A(1, INF)                # [1, inf)   (integers)
GE0 = A(0, INF)                # [0, inf)
_SOLVER_COMMON = {
    "problem": [("type", "ProblemConfig|None")],
    "epsilon": [("accept", POS)],
    "max_batch_size": [("accept", GE1)],
    "checkpoint_frequency": [("accept", GE0)],
    "max_checkpoints": [("accept", GE0)],
    "verbose": [("accept", A(0, 4))],
}
DOMAINS = {
    "ValueIterationConfig": dict(_SOLVER_COMMON, gamma=[("accept", UNIT)], convergence_test=[("set", frozenset({"span", "max_diff"}))]),
    "PolicyIterationConfig": dict(_SOLVER_COMMON, gamma=[("accept", UNIT)], convergence_test=[("set", frozenset({"span", "max_diff"}))],
                                  max_eval_iter=[("accept", GE1)]),
    "RelativeValueIterationConfig": dict(_SOLVER_COMMON, gamma=[("accept", A(1, 1))]),
    "PeriodicValueIterationConfig": dict(_SOLVER_COMMON, gamma=[("accept", UNIT)],
                                         period=[("accept", GE1), ("cond", "gamma", 1.0, A(2, INF))]),
    "SemiAsyncValueIterationConfig": dict(_SOLVER_COMMON, gamma=[("accept", UNIT)], convergence_test=[("set", frozenset({"span", "max_diff"}))]),
    "ForestConfig": {"S": [("accept", GE1)], "p": [("accept", UNIT)]},
    "DeMoorSingleProductPerishableConfig": {
        "max_demand": [("accept", GE1)], "demand_gamma_mean": [("accept", POS)], "demand_gamma_cov": [("accept", POS)],
        "max_useful_life": [("accept", GE1)], "lead_time": [("accept", GE1)], "max_order_quantity": [("accept", GE1)],
        "issue_policy": [("set", frozenset({"fifo", "lifo"}))],
    },
    "HendrixTwoProductPerishableConfig": {
        "max_useful_life": [("accept", GE1)], "demand_poisson_mean_a": [("accept", POS)], "demand_poisson_mean_b": [("accept", POS)],
        "substitution_probability": [("accept", UNIT)], "max_order_quantity_a": [("accept", GE1)], "max_order_quantity_b": [("accept", GE1)],
    },
    "MirjaliliPlateletPerishableConfig": {
        "max_demand": [("accept", GE1)], "max_useful_life": [("accept", GE1)], "max_order_quantity": [("accept", GE1)],
        "weekday_demand_negbin_n": [("len", 7), ("each", POS)], "weekday_demand_negbin_delta": [("len", 7), ("each", POS)],
        "useful_life_at_arrival_distribution_c_0": [("len_rel", "max_useful_life", -1)],
        "useful_life_at_arrival_distribution_c_1": [("len_rel", "max_useful_life", -1)],
    },
}


def _fmt_c(c):
    k = c[0]
    if k in ("accept", "each"):
        return ("each element in " if k == "each" else "") + " u ".join(str(i) for i in c[1])
    if k == "cond":
        return f"{' u '.join(str(i) for i in c[3])} when {c[1]} == {c[2]}"
    if k == "set":
        return "{" + ", ".join(sorted(map(repr, c[1]))) + "}"
    if k == "len":
        return f"length {c[1]}"
    if k == "len_rel":
        return f"length {c[1]}{c[2]:+d}"
    return str(c)


def validator_constraints(ctx, cfg):
    """field -> list of constraints parsed from __post_init__ of the config class."""
    r = ctx.ct.lookup(cfg, "__post_init__")
    if r is None:
        raise AnalysisError(f"anchor vanished: {cfg.name}.__post_init__")
    owner, fn = r
    fields = ctx.ct.all_fields(cfg)
    got: dict[str, list] = {}
    exc_bad = []
    nguards = 0
    import copy

    alias: dict[str, ast.AST] = {}  # local name -> the `self.<field>` chain it currently stands for

    class _Sub(ast.NodeTransformer):
        def visit_Name(self, n):
            if isinstance(n.ctx, ast.Load) and n.id in alias:
                return copy.deepcopy(alias[n.id])
            return n

    for s in fn.body:
        if isinstance(s, ast.Expr) and isinstance(s.value, ast.Constant):
            continue
        if isinstance(s, ast.Assign) and len(s.targets) == 1 and isinstance(s.targets[0], ast.Name) and isinstance(s.value, ast.Attribute) \
                and isinstance(s.value.value, ast.Name) and s.value.value.id == "self":
            alias[s.targets[0].id] = s.value  # `values = self.field`: later guards on `values` are guards on the field
            continue
        if not (isinstance(s, ast.If) and not s.orelse and len(s.body) == 1 and isinstance(s.body[0], ast.Raise)):
            raise AnalysisError(f"{cfg.name}.__post_init__: statement is not `if <test>: raise`: {norm_text(s)}")
        nguards += 1
        exc = s.body[0].exc
        ename = ast.unparse(exc.func) if isinstance(exc, ast.Call) else ast.unparse(exc) if exc else ""
        test = _Sub().visit(copy.deepcopy(s.test)) if alias else s.test
        for f, c in parse_guard(test):
            if c[0] in ("accept", "each", "cond") and f in fields and ast.unparse(fields[f][1].annotation).startswith("int"):
                c = (c[0],) + tuple(_int_norm(x) if isinstance(x, tuple) and x and isinstance(x[0], Iv) else x for x in c[1:])
            got.setdefault(f, []).append(c)
            want_exc = "TypeError" if c[0] == "type" else "ValueError"
            if ename != want_exc:
                exc_bad.append((f, ename, s.lineno))
    # merge multiple 'accept' constraints on one field by intersection
    for f, cs in got.items():
        acc = [c for c in cs if c[0] == "accept"]
        if len(acc) > 1:
            r_ = list(acc[0][1])
            for c in acc[1:]:
                r_ = ivset_intersect(r_, list(c[1]))
            cs[:] = [c for c in cs if c[0] != "accept"] + [("accept", tuple(r_))]
    return owner, fn, got, exc_bad, nguards


def _norm_c(c):
    if c[0] in ("accept", "each"):
        return (c[0], tuple((i.lo, i.hi, i.lo_open or i.lo == -INF, i.hi_open or i.hi == INF) for i in c[1]))
    if c[0] == "cond":
        return (c[0], c[1], float(c[2]), tuple((i.lo, i.hi, i.lo_open or i.lo == -INF, i.hi_open or i.hi == INF) for i in c[3]))
    return c


# what isinstance(v, T) gives for the kinds of value a VALID parameter of an annotated type can arrive as.  A sequence parameter arrives as a
# tuple / list by the keyword route and as an omegaconf ListConfig (a Sequence that is neither list nor tuple) by the configuration route
# and from a restored config.yaml; a validator must accept all of them.
_KINDS = {
    "int": {"int": {"numbers.Number": True, "numbers.Real": True, "numbers.Rational": True, "numbers.Integral": True, "int": True, "float": False, "str": False,
                    "complex": False, "bytes": False, "list": False, "tuple": False, "dict": False}},
    "sequence": {
        "tuple": {"tuple": True, "list": False, "Sequence": True, "collections.abc.Sequence": True, "abc.Sequence": True, "typing.Sequence": True, "Iterable": True,
                  "collections.abc.Iterable": True, "str": False, "bytes": False, "dict": False, "ListConfig": False, "omegaconf.ListConfig": False, "set": False},
        "list": {"tuple": False, "list": True, "Sequence": True, "collections.abc.Sequence": True, "abc.Sequence": True, "typing.Sequence": True, "Iterable": True,
                 "collections.abc.Iterable": True, "str": False, "bytes": False, "dict": False, "ListConfig": False, "omegaconf.ListConfig": False, "set": False},
        "omegaconf.ListConfig (configuration route)": {"tuple": False, "list": False, "Sequence": True, "collections.abc.Sequence": True, "abc.Sequence": True,
                                                       "typing.Sequence": True, "Iterable": True, "collections.abc.Iterable": True, "str": False, "bytes": False,
                                                       "dict": False, "ListConfig": True, "omegaconf.ListConfig": True, "set": False},
    },
}


def _annotation_family(annotation: str):
    a = annotation.replace("typing.", "")
    if a == "int":
        return "int"
    if a.startswith(("tuple[", "list[", "Tuple[", "List[", "Sequence[")) or a in ("tuple", "list", "Sequence"):
        return "sequence"
    return None


def _guard_on_kind(e, table):
    if isinstance(e, ast.UnaryOp) and isinstance(e.op, ast.Not):
        v = _guard_on_kind(e.operand, table)
        return None if v is None else not v
    if isinstance(e, ast.BoolOp):
        vs = [_guard_on_kind(v, table) for v in e.values]
        if isinstance(e.op, ast.And):
            return False if any(v is False for v in vs) else (None if any(v is None for v in vs) else True)
        return True if any(v is True for v in vs) else (None if any(v is None for v in vs) else False)
    if isinstance(e, ast.Compare) and len(e.ops) == 1 and isinstance(e.ops[0], (ast.Is, ast.Eq)):
        return False  # a value of the annotated type is neither None nor MISSING
    if isinstance(e, ast.Compare) and len(e.ops) == 1 and isinstance(e.ops[0], (ast.IsNot, ast.NotEq)):
        return True
    if isinstance(e, ast.Call) and isinstance(e.func, ast.Name) and e.func.id == "isinstance" and len(e.args) == 2:
        t = e.args[1]
        names = [ast.unparse(x) for x in t.elts] if isinstance(t, ast.Tuple) else [ast.unparse(t)]
        vs = [table.get(n) for n in names]
        return True if any(v is True for v in vs) else (None if any(v is None for v in vs) else False)
    return None


def _type_guard_truth(e, annotation):
    """does the (rejecting) guard fire for some kind of value a valid parameter of the annotated type can arrive as?  True: it rejects valid
    parameters (the second element names the kind); False: for none of them; None: unknown"""
    fam = _annotation_family(annotation)
    if fam is None:
        return None
    res = False
    for kind, table in _KINDS[fam].items():
        v = _guard_on_kind(e, table)
        if v is True:
            return True
        if v is None:
            res = None
    return res


def _rejected_kind(e, annotation):
    fam = _annotation_family(annotation)
    for kind, table in _KINDS.get(fam, {}).items():
        if _guard_on_kind(e, table) is True:
            return kind
    return None


def _validators(ctx, col):
    total = 0
    for cfg in c10.config_classes(ctx):
        if cfg.name not in DOMAINS:
            col.add("R20.3", cfg.name, cfg.module.relpath, cfg.node.lineno, False,
                    "configuration class has no documented-domain table (new class: add it to DOMAINS after reading its docstring)",
                    text="domain table")
            continue
        owner, fn, got, exc_bad, nguards = validator_constraints(ctx, cfg)
        total += nguards
        want = DOMAINS[cfg.name]
        fields_ = ctx.ct.all_fields(cfg)
        for f in sorted(set(want) | set(got)):
            w = sorted(map(_norm_c, want.get(f, [])), key=repr)
            # a pure type guard that is false for every value of the field's annotated type rejects nothing the documented domain contains
            # (it turns a later failure into an earlier one); one that is true for such values rejects valid parameters and stays
            gl = []
            for c_ in got.get(f, []):
                if c_[0] == "type" and f != "problem" and ("type", c_[1]) not in want.get(f, []):
                    ann_ = ast.unparse(fields_[f][1].annotation) if f in fields_ else ""
                    tv_ = _type_guard_truth(ast.parse(c_[1], mode="eval").body, ann_)
                    if tv_ is None:
                        raise AnalysisError(f"{cfg.name}.{f}: type guard `{c_[1]}` on a field annotated `{ann_}`: cannot tell whether it rejects valid values")
                    if tv_ is False:
                        continue
                    kind_ = _rejected_kind(ast.parse(c_[1], mode="eval").body, ann_)
                    col.add("R20.3", f"{cfg.name}.{f}", owner.module.relpath, fn.lineno, False,
                            f"the type guard `{c_[1][:90]}` fires for a valid value of the field (annotated `{ann_}`) that arrives as {kind_}: a documented parameter is "
                            "rejected by that construction route", text=f"type guard of {f}")
                    continue
                gl.append(c_)
            g = sorted(map(_norm_c, gl), key=repr)
            ok = w == g
            col.add("R20.3", f"{cfg.name}.{f}", owner.module.relpath, fn.lineno, ok,
                    f"accepts exactly {'; '.join(_fmt_c(c) for c in want.get(f, []))}" if ok else
                    f"validator accepts {'; '.join(_fmt_c(c) for c in got.get(f, [])) or 'anything'} but the documented domain is "
                    f"{'; '.join(_fmt_c(c) for c in want.get(f, [])) or '<undocumented>'}",
                    text=f"domain of {f}")
        for f, ename, line in exc_bad:
            col.add("R20.3", f"{cfg.name}.{f}", owner.module.relpath, line, False,
                    f"guard raises {ename}, documented is ValueError (TypeError for the problem type)", text=f"exception type {f}")
    col.saw("validator guards", str(total))
    if total < 40:
        raise AnalysisError(f"count floor missed: only {total} validator guards parsed (65 confirmed by hand on the reference tree)")


_ARRAY_CTORS = ("jnp.array", "jnp.asarray", "jnp.float64", "jnp.float32", "np.array", "np.asarray", "np.float64", "np.float32", "jax.numpy.array",
                "jax.numpy.asarray", "numpy.array", "numpy.asarray", "numpy.float64")


def _attr_number_kind(ctx, cls, attr):
    """('array' | 'python' | 'unknown', source text) of the value the constructors assign to self.<attr>"""
    kinds = []
    for k in ctx.ct.mro(cls):
        for mname, fn in k.methods.items():
            for st in ast.walk(fn):
                if isinstance(st, ast.Assign) and len(st.targets) == 1:
                    t = st.targets[0]
                    if isinstance(t, ast.Attribute) and isinstance(t.value, ast.Name) and t.value.id == "self" and t.attr == attr:
                        v = st.value
                        if isinstance(v, ast.Call) and ast.unparse(v.func) in _ARRAY_CTORS:
                            kinds.append(("array", norm_text(st)))
                        elif isinstance(v, (ast.Attribute, ast.Name, ast.Constant)) or (isinstance(v, ast.Call) and ast.unparse(v.func) in ("float", "int")):
                            kinds.append(("python", norm_text(st)))
                        else:
                            kinds.append(("unknown", norm_text(st)))
    if not kinds:
        return "unknown", None
    for want in ("python", "unknown"):
        for kd in kinds:
            if kd[0] == want:
                return kd
    return kinds[0]


# =============================================================================== R20.5
def _format_precision(ctx, col):
    logm, gfn = ctx.repo.public_function("mdpax.utils.logging.get_convergence_format")
    for cls in ctx.solvers():
        ca = ctx.ct.class_attr(cls, "Config")
        cfg = ctx.ct.class_of_dotted(ctx.ct.resolve_name(ca[0].module, ast.unparse(ca[1])))
        _o, _f, got, _e, _n = validator_constraints(ctx, cfg)
        dom = {}
        for f, sym in (("gamma", S("GAMMA")), ("epsilon", S("EPS"))):
            acc = [c for c in got.get(f, []) if c[0] == "accept"]
            if not acc or len(acc[0][1]) != 1:
                dom[sym] = Iv(-INF, INF, True, True)
            else:
                dom[sym] = acc[0][1][0]
        owner, fn = ctx.ct.require(cls, "_setup_convergence_testing")
        # the format is derived from the threshold: get_convergence_format(float(self.conv_threshold))
        calls = [c for c in calls_in(fn) if isinstance(c.func, ast.Name) and c.func.id == "get_convergence_format"]
        construct = f"{cls.name}._setup_convergence_testing"
        if len(calls) != 1:
            col.add("R20.5", construct, owner.module.relpath, fn.lineno, False,
                    f"{len(calls)} calls of get_convergence_format (expected 1)", text="format call")
            continue
        arg = calls[0].args[0] if calls[0].args else None
        # get_convergence_format rejects anything that is not a Python float (TypeError), while a validated epsilon may be an
        # int and the threshold may be a 0-d array: the argument must be converted with float(...)
        src_arg = arg
        if isinstance(arg, ast.Name):  # a temporary bound once
            ds = [s_ for s_ in ast.walk(fn) if isinstance(s_, ast.Assign) and len(s_.targets) == 1 and isinstance(s_.targets[0], ast.Name) and s_.targets[0].id == arg.id]
            if len(ds) == 1:
                src_arg = ds[0].value
        is_float = isinstance(src_arg, ast.Call) and isinstance(src_arg.func, ast.Name) and src_arg.func.id == "float" and len(src_arg.args) == 1
        col.add("R20.5", construct, owner.module.relpath, calls[0].lineno, is_float,
                "the threshold is converted with float(...) before it is formatted" if is_float else
                f"`{norm_text(calls[0])[:80]}` passes the threshold unconverted: get_convergence_format raises TypeError('epsilon must be a float') "
                "for an integer epsilon (accepted by the validator) or an array-valued threshold, so a valid configuration fails in the constructor",
                text="threshold converted to float")
        if isinstance(arg, ast.Call) and is_float:
            pass
        tests = CONV_TESTS if cls.name in HAS_CONV_TEST else ("span",)
        for ct_ in tests:
            I = solver_interp(ctx, cls, ct_)
            from .solverterms import eval_in
            t = eval_in(I, owner, fn, arg)
            try:
                iv = term_interval(t, dom)
            except AnalysisError as e:
                raise AnalysisError(f"{construct}: threshold interval undecided ({e})") from e
            # R20.14: what the threshold divides by
            from ..interval import zero_divisors
            for dv in zero_divisors(t, dom):
                name_ = {"GAMMA": "gamma", "EPS": "epsilon"}.get(dv[1]) if dv[0] == "sym" else None
                kind_, where_ = _attr_number_kind(ctx, cls, name_) if name_ else ("unknown", None)
                if kind_ == "unknown":
                    raise AnalysisError(f"{construct}: the threshold divides by {show_norm(dv)[:40]}, which may be 0, and the kind of value assigned to "
                                        f"self.{name_} is not recognised (`{where_}`): R20.14 undecided")
                okd = kind_ == "array"
                col.add("R20.14", construct, owner.module.relpath, calls[0].lineno, okd,
                        (f"the threshold divides by {name_}, which may be 0; self.{name_} is a JAX / NumPy value (`{where_}`), so the quotient is inf" if okd else
                         f"the threshold divides by {show_norm(dv)[:40]}, which is 0 for an accepted configuration, and self.{name_} is "
                         f"{'a plain Python number' if kind_ == 'python' else 'of unknown kind'} (`{where_}`): `/` on Python numbers raises ZeroDivisionError, so "
                         f"{name_} = 0 cannot even be constructed") + f" [convergence_test={ct_}]", text=f"division by {name_} [{ct_}]")
            run = IntervalFn(gfn).run({gfn.args.args[0].arg: iv})
            problems = [str(h) for h in run.hazards]
            if not run.results:
                raise AnalysisError(f"{construct}: interval run of get_convergence_format produced no result (all paths raise)")
            precs = []
            for kind, val, line in run.results:
                if kind == "fstr":
                    ivs = [p for p in val if isinstance(p, Iv)]
                    if len(ivs) == 1:
                        precs.append(ivs[0])
                        if ivs[0].lo < 0:
                            problems.append(f"format precision in {ivs[0]} can be negative (line {line}): "
                                            "'.-2f' raises ValueError at the first progress message")
                elif kind == "str":
                    import re
                    mm = re.fullmatch(r"\.(\d+)f", val)
                    if not mm:
                        problems.append(f"constant format {val!r} is not a '.<n>f' spec")
            for exc, line in run.raises:
                if not exc.startswith("TypeError"):
                    problems.append(f"`raise {exc}` at line {line} is reachable for a validator-accepted threshold in {iv}")
            ok = not problems
            col.add("R20.5", construct, owner.module.relpath, calls[0].lineno, ok,
                    (f"threshold in {iv} -> precision in {', '.join(map(str, precs)) or 'constant'}: valid for every accepted (gamma, epsilon)"
                     if ok else f"threshold in {iv}: " + "; ".join(problems)) + f" [convergence_test={ct_}]",
                    text=f"format precision [{ct_}]")


# =============================================================================== R20.6
ARRAY_MAKERS = ("jnp.array", "jnp.asarray", "jnp.zeros", "jnp.ones", "jnp.full", "jnp.arange", "jnp.linspace",
                "jax.numpy.array", "random.PRNGKey")


def _x64(ctx, col):
    sol = ctx.ct.get("Solver")
    owner, fn = ctx.ct.require(sol, "_setup_config")
    g = cfg_of(fn)
    switch = None
    for n in g.stmts():
        if n.kind == "stmt" and isinstance(n.ast, ast.Expr) and isinstance(n.ast.value, ast.Call):
            c = n.ast.value
            if ast.unparse(c.func) == "jax.config.update" and c.args and isinstance(c.args[0], ast.Constant) \
                    and c.args[0].value == "jax_enable_x64":
                switch = n
    file = owner.module.relpath
    if switch is None:
        col.add("R20.6", "Solver._setup_config", file, fn.lineno, False, "no jax.config.update('jax_enable_x64', ...) in the constructor",
                text="x64 switch")
        return
    # the process-global flag may only ever be switched ON by the package: switching it off (a literal False, or the solver's own
    # jax_double_precision passed through) silently turns every solver that already exists in the process into a 32-bit one
    for m_ in ctx.repo.modules.values():
        for c_ in ast.walk(m_.tree):
            if isinstance(c_, ast.Call) and ast.unparse(c_.func) in ("jax.config.update", "config.update") and c_.args \
                    and isinstance(c_.args[0], ast.Constant) and c_.args[0].value == "jax_enable_x64":
                v_ = c_.args[1] if len(c_.args) > 1 else next((k.value for k in c_.keywords if k.arg in ("val", "value")), None)
                ok_ = isinstance(v_, ast.Constant) and v_.value is True
                col.add("R20.6", "jax_enable_x64", m_.relpath, c_.lineno, ok_,
                        "the 64-bit flag is only ever switched on" if ok_ else
                        f"`{norm_text(c_)[:80]}` can switch the process-global 64-bit flag OFF: a solver built earlier with double precision (the default) "
                        "then computes and returns float32 values", text="x64 flag value")
    # the guard of the switch
    parents = parents_of(fn)
    p = parents.get(id(switch.ast))
    guard = g.node_of(p) if isinstance(p, ast.If) else switch
    sites = []
    for n in g.stmts():
        if n is switch:
            continue
        region = n.ast.test if n.kind == "test" else n.ast
        if region is None or isinstance(region, (ast.FunctionDef,)):
            continue
        for c in calls_in(region) if not isinstance(region, list) else []:
            src = ast.unparse(c.func)
            if src in ARRAY_MAKERS or src == "instantiate":
                sites.append((n, src, c))
    if len(sites) < 2:
        raise AnalysisError(f"anchor vanished: Solver._setup_config has {len(sites)} array-creation/instantiate sites (expected >= 2)")
    for n, src, c in sites:
        ok = g.dominates(guard, n)
        col.add("R20.6", "Solver._setup_config", file, n.lineno, ok,
                f"`{norm_text(c)[:60]}` runs after the 64-bit switch" if ok else
                f"`{norm_text(c)[:60]}` runs before the 64-bit switch: it is created in 32-bit although jax_double_precision=True",
                text=f"{src} after x64 switch")
    # (b) problem constructors build floating tables with whatever mode is active when the caller
    # constructs the problem - before any solver exists on the README route
    for pcls in ctx.problems():
        for meth in _ctor_reachable(ctx, pcls):
            o2, f2 = meth
            for s in ast.walk(f2):
                if not isinstance(s, ast.Assign):
                    continue
                tg = [t for t in s.targets if is_self_attr(t)]
                if not tg:
                    continue
                makers = [c for c in calls_in(s.value) if _is_float_maker(o2.module, c)]
                # or a table computed by a helper from a probability distribution
                for c in calls_in(s.value):
                    if isinstance(c.func, ast.Attribute) and is_self_attr(c.func):
                        r = ctx.ct.lookup(pcls, c.func.attr)
                        if r and any(isinstance(x, ast.Call) and isinstance(x.func, ast.Attribute)
                                     and x.func.attr in ("pmf", "cdf", "log_prob", "pdf", "logpmf") for x in ast.walk(r[1])):
                            makers.append(c)
                if not makers or _int_marked(s.value):
                    continue
                col.add("R20.6", f"{pcls.name}.{tg[0].attr}", o2.module.relpath, s.lineno, False,
                        f"floating table `self.{tg[0].attr}` is created in the problem constructor with the precision active at that moment; "
                        "a problem built before the solver (README order) keeps float32 tables and solve() returns float32 although "
                        "jax_double_precision=True", text=f"float table {tg[0].attr}")


def _ctor_reachable(ctx, pcls):
    eff = ctx.effects(pcls)
    seen = {}
    r = ctx.ct.lookup(pcls, "__init__")
    stack = [r] if r else []
    while stack:
        o, f = stack.pop()
        k = (o.qualname, f.name)
        if k in seen:
            continue
        seen[k] = (o, f)
        for o2, f2 in eff.callees(f, o):
            if f2.name in ("transition", "random_event_probability", "state_to_index", "initial_value", "initial_policy",
                           "build_transition_and_reward_matrices"):
                continue
            stack.append((o2, f2))
    return list(seen.values())


def _is_float_maker(module, c: ast.Call) -> bool:
    src = ast.unparse(c.func)
    head = src.split(".")[0]
    target = module.imports.get(head, "")
    if not (target.startswith("jax") or target.startswith("numpyro")):
        return False
    if src in ("jnp.arange",):
        return False
    return True


def _int_marked(e) -> bool:
    s = ast.unparse(e)
    return "int32" in s or "dtype=int" in s


# =============================================================================== R20.9
LEVELS = {0: "ERROR", 1: "WARNING", 2: "INFO", 3: "DEBUG", 4: "TRACE"}


def _verbosity(ctx, col):
    m, fn = ctx.repo.public_function("mdpax.utils.logging.verbosity_to_loguru_level")
    # the table: a dict literal keyed by level, or a tuple / list literal whose position is the level
    def as_table(n):
        try:
            v = ast.literal_eval(n)
        except Exception:
            return None
        if isinstance(v, dict):
            return v
        if isinstance(v, (tuple, list)) and v and all(isinstance(x, str) for x in v):
            return dict(enumerate(v))
        return None

    from .common import returned_expr
    rv = returned_expr(fn)
    tab_node = rv.value if isinstance(rv, ast.Subscript) else None
    tab = as_table(tab_node) if tab_node is not None else None
    if tab is None:
        cands = [as_table(n) for n in ast.walk(fn) if isinstance(n, (ast.Dict, ast.Tuple, ast.List))]
        cands = [c for c in cands if c and all(isinstance(k, int) for k in c)]
        tab = cands[0] if len(cands) == 1 else None
    undecided = []
    if tab is None:
        undecided.append("verbosity_to_loguru_level: no literal level table (dict / tuple) is looked up - the mapping is computed in a way "
                         "this rule cannot read (e.g. an Enum); R20.9 cannot be decided")
    ok = tab == LEVELS or tab is None
    why = "level table == {0:ERROR, 1:WARNING, 2:INFO, 3:DEBUG, 4:TRACE}" if tab == LEVELS else "level table not readable (undecided)" if tab is None else \
        (f"level table is {tab}" if tab is not None else "no level table (dict / tuple literal) in verbosity_to_loguru_level")
    col.add("R20.9", "verbosity_to_loguru_level", m.relpath, fn.lineno, ok, why, text="level table")
    # the table is indexed by the argument itself
    idx_ok = tab is None or (isinstance(rv, ast.Subscript) and as_table(rv.value) is not None
                             and isinstance(rv.slice, ast.Name) and rv.slice.id == fn.args.args[0].arg)
    col.add("R20.9", "verbosity_to_loguru_level", m.relpath, fn.lineno, idx_ok,
            "returns table[verbose]" if idx_ok else "the level is not looked up by the verbosity argument itself", text="table lookup")
    # guards: out-of-range raises ValueError, non-int TypeError; accepted set must be within the table's keys
    guards = [s_ for s_ in fn.body if isinstance(s_, ast.If) and s_.body and isinstance(s_.body[0], ast.Raise)]
    rej = None
    unread_guards = []
    for g in guards:
        class R(ast.NodeTransformer):
            def visit_Name(self, n):
                if n.id == fn.args.args[0].arg:
                    return ast.Attribute(value=ast.Name(id="self", ctx=ast.Load()), attr="__v__", ctx=ast.Load())
                return n
        import copy
        t2 = R().visit(copy.deepcopy(g.test))
        sset = pred_set(t2, "__v__")
        if sset is not None:
            rej = sset if rej is None else ivset_union(rej, sset)
        elif any(isinstance(n_, ast.Name) and n_.id == fn.args.args[0].arg for n_ in ast.walk(g.test)) and not any(
                isinstance(n_, ast.Call) and ast.unparse(n_.func) == "isinstance" for n_ in ast.walk(g.test)):
            unread_guards.append(ast.unparse(g.test))
    acc = _int_norm(ivset_complement(rej)) if rej is not None else None
    okr = acc is not None and len(acc) == 1 and acc[0].lo == 0 and acc[0].hi == 4
    if not okr and unread_guards:
        # a range guard exists but compares with something this rule cannot evaluate (members of an Enum, a computed bound): no verdict
        undecided.append(f"verbosity_to_loguru_level: the range guard `{unread_guards[0][:80]}` is not a comparison with literal bounds; R20.9 cannot be decided")
        okr = True
    col.add("R20.9", "verbosity_to_loguru_level", m.relpath, fn.lineno, okr,
            "levels outside 0..4 raise before the table lookup" if okr else
            f"accepted integer levels are {[str(a) for a in acc] if acc else 'unbounded'}; the table only has 0..4 (KeyError otherwise)", text="range guard")
    # validator-accepted verbose values are all table keys
    for cls in ctx.solvers():
        ca = ctx.ct.class_attr(cls, "Config")
        cfg = ctx.ct.class_of_dotted(ctx.ct.resolve_name(ca[0].module, ast.unparse(ca[1])))
        _o, vf, got, _e, _n = validator_constraints(ctx, cfg)
        a = [c for c in got.get("verbose", []) if c[0] == "accept"]
        okv = len(a) == 1 and len(a[0][1]) == 1 and a[0][1][0].lo >= 0 and a[0][1][0].hi <= 4
        col.add("R20.9", f"{cfg.name}.verbose", cfg.module.relpath, vf.lineno, okv,
                "every accepted verbose level is a key of the level table" if okv else
                "the validator accepts a verbose level that has no entry in the level table (KeyError / ValueError in the constructor)",
                text="accepted levels within table")
    sol = ctx.ct.get("Solver")
    owner, sfn = ctx.ct.require(sol, "set_verbosity")
    # what integer does a level NAME become?  The string branch is executed abstractly for each documented name (and one
    # unknown name): comparisons / membership tests of the upper-cased name against literals are decided, everything else
    # must be an assignment of the level, a table lookup, or the ValueError.
    param = [a.arg for a in sfn.args.args if a.arg != "self"][0]

    def run_name(name):
        subj = set()          # locals holding the upper-cased name
        raw = {param}         # locals holding the name as given
        level = {"v": None}

        def is_subj(e):
            if isinstance(e, ast.Name) and e.id in subj:
                return True
            return isinstance(e, ast.Call) and isinstance(e.func, ast.Attribute) and e.func.attr == "upper" and isinstance(e.func.value, ast.Name) \
                and (e.func.value.id in raw or e.func.value.id in subj)

        tables = {}

        def table_of(e):
            if isinstance(e, ast.Name) and e.id in tables:
                return tables[e.id]
            try:
                v = ast.literal_eval(e)
            except Exception:
                return None
            return v if isinstance(v, (dict, tuple, list, set)) else None

        def keys_of(e):
            v = table_of(e)
            return list(v) if v is not None else None

        def test(t):
            if isinstance(t, ast.Call) and isinstance(t.func, ast.Name) and t.func.id == "isinstance" and len(t.args) == 2 \
                    and isinstance(t.args[0], ast.Name) and t.args[0].id == param:
                return "str" in ast.unparse(t.args[1])
            if isinstance(t, ast.UnaryOp) and isinstance(t.op, ast.Not):
                r = test(t.operand)
                return None if r is None else not r
            if isinstance(t, ast.Compare) and len(t.ops) == 1 and is_subj(t.left):
                op, rhs = t.ops[0], t.comparators[0]
                if isinstance(op, (ast.Eq, ast.NotEq)) and isinstance(rhs, ast.Constant):
                    return (name == rhs.value) == isinstance(op, ast.Eq)
                if isinstance(op, (ast.In, ast.NotIn)) and keys_of(rhs) is not None:
                    return (name in keys_of(rhs)) == isinstance(op, ast.In)
            return None

        def block(stmts):
            for st_ in stmts:
                if isinstance(st_, ast.Expr):
                    continue
                if isinstance(st_, ast.Assign) and len(st_.targets) == 1 and isinstance(st_.targets[0], ast.Name):
                    tgt, v = st_.targets[0].id, st_.value
                    if is_subj(v):
                        subj.add(tgt)
                        raw.discard(tgt)
                        continue
                    if isinstance(v, ast.Name) and v.id in raw:
                        raw.add(tgt)
                        continue
                    if isinstance(v, ast.Constant) and isinstance(v.value, int) and tgt == param:
                        level["v"] = v.value
                        subj.discard(tgt)
                        continue
                    if isinstance(v, ast.Subscript) and is_subj(v.slice) and keys_of(v.value) is not None and tgt == param:
                        tab = table_of(v.value)
                        level["v"] = tab.get(name, "KeyError") if isinstance(tab, dict) else "KeyError"
                        subj.discard(tgt)
                        continue
                    if isinstance(v, (ast.Dict, ast.Tuple, ast.List, ast.Set)) and table_of(v) is not None:
                        tables[tgt] = table_of(v)  # a local table
                        continue
                    if isinstance(v, ast.Constant):
                        continue
                    return "stop"
                if isinstance(st_, ast.If):
                    r = test(st_.test)
                    if r is None:
                        return "stop"  # leaves the part of the function that deals with names
                    out = block(st_.body if r else st_.orelse)
                    if out is not None:
                        return out
                    continue
                if isinstance(st_, ast.Raise):
                    return "raise:" + (ast.unparse(st_.exc.func) if isinstance(st_.exc, ast.Call) else "")
                return "stop"
            return None

        out = block(sfn.body)
        return out if isinstance(out, str) and out.startswith("raise") else level["v"]

    got_map = {nm: run_name(nm) for nm in LEVELS.values()}
    unknown = run_name("NO_SUCH_LEVEL")
    oks = got_map == {v: k for k, v in LEVELS.items()} and unknown == "raise:ValueError"
    if not oks and all(v is None for v in got_map.values()) and unknown is None:
        undecided.append("Solver.set_verbosity: the translation of level names is not done by comparisons / a literal table inside the "
                         "method (or an inlinable helper); R20.9 cannot be decided")
        oks = True
    col.add("R20.9", "Solver.set_verbosity", owner.module.relpath, sfn.lineno, oks,
            "string levels map to the inverse of the level table; an unknown name raises ValueError" if oks else
            f"level names are translated as {got_map} (unknown name: {unknown}); documented: {dict((v, k) for k, v in LEVELS.items())}, ValueError otherwise",
            text="string level table")
    calls = [c for c in calls_in(sfn) if isinstance(c.func, ast.Name) and c.func.id == "verbosity_to_loguru_level"]
    adds = [c for c in calls_in(sfn) if ast.unparse(c.func) == "logger.add"]
    okw = len(calls) == 1 and len(adds) == 1 and any(k.arg == "level" for k in adds[0].keywords)
    if not okw and not adds and not calls:
        undecided.append("Solver.set_verbosity: neither the level conversion nor logger.add is visible in the method (moved behind helpers "
                         "that could not be inlined); R20.9 cannot be decided")
        okw = True
    col.add("R20.9", "Solver.set_verbosity", owner.module.relpath, sfn.lineno, okw,
            "the converted level is installed on the logger sink" if okw else "the converted level does not reach logger.add(level=...)", text="level installed")
    if undecided:
        raise AnalysisError("; ".join(undecided))


# =============================================================================== R20.10
def _defaults(ctx, col):
    shared: dict[str, dict[str, object]] = {}
    for cfg in c10.config_classes(ctx):
        fields = ctx.ct.all_fields(cfg)
        _o, vf, got, _e, _n = validator_constraints(ctx, cfg)
        is_solver = any(k.name == "SolverConfig" for k in ctx.ct.mro(cfg))
        for f, (k, node) in fields.items():
            if node.value is None or f == "_target_":
                continue
            try:
                dv = ast.literal_eval(node.value)
            except Exception:
                continue  # MISSING etc.
            if is_solver:
                shared.setdefault(f, {})[cfg.name] = dv
            cons = got.get(f, [])
            bad = None
            for c in cons:
                if c[0] == "accept" and isinstance(dv, (int, float)) and not isinstance(dv, bool):
                    if not any(iv.contains(float(dv)) for iv in c[1]):
                        bad = f"default {dv!r} is outside the accepted {_fmt_c(c)}"
                elif c[0] == "set" and dv not in c[1]:
                    bad = f"default {dv!r} is not one of {_fmt_c(c)}"
                elif c[0] == "len" and hasattr(dv, "__len__") and len(dv) != c[1]:
                    bad = f"default has length {len(dv)}, accepted {_fmt_c(c)}"
                elif c[0] == "each" and hasattr(dv, "__iter__") and not all(any(iv.contains(float(x)) for iv in c[1]) for x in dv):
                    bad = f"default {dv!r} has an element outside {_fmt_c(c)}"
                elif c[0] == "len_rel" and hasattr(dv, "__len__"):
                    other = fields.get(c[1])
                    try:
                        ov = ast.literal_eval(other[1].value) if other and other[1].value is not None else None
                    except Exception:
                        ov = None
                    if isinstance(ov, int) and len(dv) != ov + c[2]:
                        bad = f"default has length {len(dv)} but default {c[1]}{c[2]:+d} = {ov + c[2]}"
            if cons:
                col.add("R20.10", f"{cfg.name}.{f}", cfg.module.relpath, node.lineno, bad is None,
                        f"default {dv!r} is accepted by the validator" if bad is None else bad + ": the default configuration is rejected by its own validator",
                        text=f"default of {f}")
    for f, per in sorted(shared.items()):
        if len(per) < 2:
            continue
        vals = {k: v for k, v in per.items() if not (f == "gamma" and k == "RelativeValueIterationConfig")}
        distinct = {repr(v) for v in vals.values()}
        ok = len(distinct) == 1
        if f == "jax_double_precision":
            ok = ok and all(v is True for v in vals.values())
        anyc = c10.config_classes(ctx)[0]
        col.add("R20.10", f"SolverConfigs.{f}", "src/mdpax/solvers", 0, ok,
                f"all {len(vals)} solver configurations default `{f}` to {next(iter(vals.values()))!r}" if ok else
                f"solver configurations disagree on the default of `{f}`: {vals}" + (" (double precision is documented as the default)" if f == "jax_double_precision" else ""),
                text=f"sibling default {f}")


# =============================================================================== R20.11
NARROW = ("float32", "float16", "bfloat16", "int32", "int16", "int8", "int64")


def _runtime_dtypes(ctx, col):
    mods = [m for m in ctx.repo.modules.values() if m.name.startswith("mdpax.solvers.") or m.name in ("mdpax.core.solver", "mdpax.core.problem")]
    for m in sorted(mods, key=lambda x: x.name):
        bad = []
        for n in ast.walk(m.tree):
            if not isinstance(n, ast.Call):
                continue
            exprs = []
            if isinstance(n.func, ast.Attribute) and n.func.attr == "astype" and n.args:
                exprs.append(n.args[0])
            exprs += [k.value for k in n.keywords if k.arg == "dtype"]
            for e in exprs:
                src = ast.unparse(e)
                # np.zeros(x.shape, dtype=x.dtype) is np.zeros_like(x): the buffer has the kind of the very value it stands in for
                if isinstance(e, ast.Attribute) and e.attr == "dtype" and isinstance(n.func, ast.Attribute) and n.func.attr in ("zeros", "ones", "empty", "full") \
                        and n.args and isinstance(n.args[0], ast.Attribute) and n.args[0].attr == "shape" and ast.dump(n.args[0].value) == ast.dump(e.value):
                    continue
                if (isinstance(e, ast.Attribute) and e.attr == "dtype") or any(src.endswith("." + w) or src == w for w in NARROW):
                    bad.append((n, src))
        for n, src in bad:
            col.add("R20.11", m.name, m.relpath, n.lineno, False,
                    f"`{norm_text(n)[:90]}`: the dtype `{src}` is taken from a runtime value or is narrower than float64, so values computed with "
                    "jax_double_precision=True are silently cast (integer or float32 estimates / tables truncate the results)", text=f"dtype {src}")
        col.add("R20.11", m.name, m.relpath, 1, True, "module scanned: no runtime-derived or narrow dtype", text="module scanned")


# =============================================================================== R20.12
TRUTHINESS_EXEMPT = {"verbose": "0 means no progress output: `if self.verbose:` is the documented meaning"}


def _truthiness(ctx, col):
    fields = {"random_seed"}
    for _cfgname, dom in DOMAINS.items():
        for f, cs in dom.items():
            for c in cs:
                if c[0] == "accept" and any(iv.contains(0.0) for iv in c[1]):
                    fields.add(f)
    fields -= set(TRUTHINESS_EXEMPT)

    def field_of(e):
        if isinstance(e, ast.Attribute) and e.attr in fields:
            return e.attr
        if isinstance(e, ast.Name) and e.id in fields:
            return e.id
        if isinstance(e, ast.Call) and isinstance(e.func, ast.Name) and e.func.id == "getattr" and len(e.args) >= 2 \
                and isinstance(e.args[1], ast.Constant) and e.args[1].value in fields:
            return e.args[1].value
        return None

    nmods = 0
    for m in sorted(ctx.repo.modules.values(), key=lambda x: x.name):
        nmods += 1
        for n in ast.walk(m.tree):
            hits = []
            if isinstance(n, ast.BoolOp):
                for v in (n.values[:-1] if isinstance(n.op, ast.Or) else n.values):
                    if field_of(v):
                        hits.append(v)
            if isinstance(n, (ast.If, ast.IfExp, ast.While)):
                t = n.test
                if isinstance(t, ast.UnaryOp) and isinstance(t.op, ast.Not):
                    t = t.operand
                if field_of(t):
                    hits.append(t)
            for h in hits:
                f = field_of(h)
                col.add("R20.12", m.name, m.relpath, n.lineno, False,
                        f"`{norm_text(n)[:90]}` tests the truth value of `{ast.unparse(h)}`: {f} = 0 is a valid setting, but it is falsy, so it "
                        "silently takes the fallback / the other branch", text=f"truthiness of {f}")
    col.add("R20.12", "package", "src/mdpax", 0, True, f"{nmods} modules scanned: no truthiness test of a falsy-valid configuration value "
            f"({', '.join(sorted(fields))})", text="truthiness scanned")


# =============================================================================== R20.13
def _mutable_defaults(ctx, col):
    nfn = 0
    for m in sorted(ctx.repo.modules.values(), key=lambda x: x.name):
        for fn in ast.walk(m.tree):
            if not isinstance(fn, (ast.FunctionDef, ast.Lambda)):
                continue
            nfn += 1
            for d in list(fn.args.defaults) + [d for d in fn.args.kw_defaults if d is not None]:
                if isinstance(d, (ast.List, ast.Dict, ast.Set, ast.ListComp, ast.DictComp, ast.SetComp, ast.Call)):
                    col.add("R20.13", f"{m.name}.{getattr(fn, 'name', '<lambda>')}", m.relpath, d.lineno, False,
                            f"default argument `{ast.unparse(d)[:60]}` is created once when the function is defined and shared by all calls: state "
                            "leaks from one call / solver instance into the next", text=f"mutable default {ast.unparse(d)[:40]}")
    col.add("R20.13", "package", "src/mdpax", 0, True, f"{nfn} functions scanned: all defaults are immutable literals / names", text="defaults scanned")


# =============================================================================== R20.7 / R20.8
def _config_fields(ctx, col):
    n = 0
    for cls in ctx.solvers() + ctx.problems():
        ca = ctx.ct.class_attr(cls, "Config")
        cfg = ctx.ct.class_of_dotted(ctx.ct.resolve_name(ca[0].module, ast.unparse(ca[1]))) if ca else None
        if cfg is None:
            raise AnalysisError(f"anchor vanished: {cls.name}.Config")
        fields = set(ctx.ct.all_fields(cfg))
        bad = []
        used = set()
        for mname, (owner, fn) in ctx.ct.methods_of(cls).items():
            for a in ast.walk(fn):
                if isinstance(a, ast.Attribute) and isinstance(a.value, ast.Attribute) and is_self_attr(a.value, "config"):
                    used.add(a.attr)
                    if a.attr not in fields:
                        bad.append((owner, fn, a))
        n += 1
        if bad:
            for owner, fn, a in bad:
                col.add("R20.7", f"{cls.name}:{owner.name}.{fn.name}", owner.module.relpath, a.lineno, False,
                        f"`self.config.{a.attr}` is read by {owner.name}.{fn.name}, which {cls.name} resolves to, but {cfg.name} has no field `{a.attr}` "
                        "(AttributeError / omegaconf error when this path runs)", text=f"config.{a.attr}")
        else:
            col.add("R20.7", cls.name, cls.module.relpath, cls.node.lineno, True,
                    f"all {len(used)} config fields read through the MRO exist in {cfg.name}", text="config fields exist")
    # R20.8 constructor protocol
    for cls in ctx.problems():
        r = ctx.ct.lookup(cls, "__init__")
        owner, fn = r
        ok = _config_or_kwargs(fn.body) or _config_or_kwargs_semantic(ctx, cls)
        col.add("R20.8", f"{cls.name}.__init__", owner.module.relpath, fn.lineno, ok,
                "self.config = config if config is not None else self.Config(**kwargs)" if ok else
                "constructor does not follow the config-or-kwargs protocol of its siblings", text="config or kwargs")
    sol = ctx.ct.get("Solver")
    owner, fn = ctx.ct.require(sol, "_setup_config")
    ok = _config_or_kwargs(fn.body)
    col.add("R20.8", "Solver._setup_config", owner.module.relpath, fn.lineno, ok,
            "self.config = config if config is not None else self.Config(**kwargs)" if ok else
            "solver does not follow the config-or-kwargs protocol", text="config or kwargs")


def _config_or_kwargs_semantic(ctx, cls) -> bool:
    """The same protocol decided by interpreting the constructor twice: with a configuration object `self.config` is that
    object; with None and a keyword argument it is `Config(**kwargs)` of the class's own Config."""
    from ..interp import Interp, Unsupported
    from ..terms import NONE, S

    ca = ctx.ct.class_attr(cls, "Config")
    cfg = ctx.ct.class_of_dotted(ctx.ct.resolve_name(ca[0].module, ast.unparse(ca[1]))) if ca else None
    if cfg is None:
        return False
    out = []
    for given, kw in ((("obj", "config"), {}), (NONE, {"some_field": S("KWARG")})):
        I = Interp(ctx.ct, cls, {})
        try:
            I.call_method("__init__", [given], dict(kw))
        except (Unsupported, AnalysisError):
            pass  # what follows the preamble may need concrete fields; the preamble has run by then
        out.append(I.attrs.get("config"))
    return out[0] == ("obj", "config") and out[1] == ("app", "new:" + cfg.name, (S("KWARG"),))


def _config_or_kwargs(body) -> bool:
    for s in body:
        if isinstance(s, ast.If) and ast.unparse(s.test) in ("config is not None", "config is None") and len(s.body) == 1 and len(s.orelse) == 1:
            a, b = (s.body[0], s.orelse[0]) if ast.unparse(s.test) == "config is not None" else (s.orelse[0], s.body[0])
            return (isinstance(a, ast.Assign) and ast.unparse(a) == "self.config = config"
                    and isinstance(b, ast.Assign) and ast.unparse(b) == "self.config = self.Config(**kwargs)")
    return False


# ===================================================================================
class _Rename:
    def __init__(self, col, rule):
        self.col, self.rule = col, rule

    def add(self, rule, *a, **k):
        return self.col.add(self.rule, *a, **k)

    def __getattr__(self, n):
        return getattr(self.col, n)


def run(ctx: Context, col) -> None:
    from .common import Parts

    part = Parts()
    part(_scopes, ctx, col)
    part(_none_belief, ctx, col)
    part(_validators, ctx, col)
    part(c10._targets, ctx, _Rename(col, "R20.4"))
    part(_config_fields, ctx, col)
    part(_verbosity, ctx, col)
    part(_defaults, ctx, col)
    part(_runtime_dtypes, ctx, col)
    part(_truthiness, ctx, col)
    part(_mutable_defaults, ctx, col)
    part(_x64, ctx, col)
    part(_nan_gamma, ctx, col)
    try:
        _format_precision(ctx, col)
    except AnalysisError as e:
        # an undecidable threshold is an analysis error - unless a structural rule above already
        # explains it (e.g. a config field that does not exist), in which case report that
        if not [f for f in col.failures() if f.rule in ("R20.1", "R20.7")]:
            part.errors.append(str(e))
        col.notes.append(f"R20.5 not evaluated: {e}")
        col.floors.pop("R20.5", None)
    part.finish()
    col.floor("R20.9", 9)
    col.floor("R20.10", 40)
    col.floor("R20.11", 7)
    col.floor("R20.12", 1)
    col.floor("R20.13", 1)
    col.floor("R20.7", 9)
    col.floor("R20.8", 5)
    col.floor("R20.1", 15)
    col.floor("R20.2", 5)
    col.floor("R20.3", 60)
    col.floor("R20.4", 9)
    if not any("R20.5 not evaluated" in n for n in col.notes):
        col.floor("R20.5", 12)
    col.floor("R20.6", 2)
    col.floor("R20.15", 5)


# =============================================================================== R20.15
def _truth_under_nan(e, field):
    """truth value of a guard when `self.<field>` is NaN: every ordering / equality comparison that involves it is False (`!=` is True);
    None when it cannot be told"""
    def mentions(x):
        return any(is_self_attr(n, field) for n in ast.walk(x))
    if isinstance(e, ast.UnaryOp) and isinstance(e.op, ast.Not):
        v = _truth_under_nan(e.operand, field)
        return None if v is None else not v
    if isinstance(e, ast.BoolOp):
        vs = [_truth_under_nan(v, field) for v in e.values]
        if isinstance(e.op, ast.And):
            return False if any(v is False for v in vs) else (None if any(v is None for v in vs) else True)
        return True if any(v is True for v in vs) else (None if any(v is None for v in vs) else False)
    if isinstance(e, ast.Compare):
        if not mentions(e):
            return None
        operands = [e.left] + list(e.comparators)
        # a chain is a conjunction of its links; a link that involves the NaN operand is False (True for !=)
        res = True
        for op, a, b in zip(e.ops, operands, operands[1:]):
            if mentions(a) or mentions(b):
                if isinstance(op, (ast.In, ast.NotIn, ast.Is, ast.IsNot)):
                    return None
                link = isinstance(op, ast.NotEq)
            else:
                link = None
            if link is False:
                return False
            if link is None:
                res = None
        return res
    if isinstance(e, ast.Call) and ast.unparse(e.func) in ("math.isnan", "np.isnan", "jnp.isnan", "isnan") and e.args and mentions(e.args[0]):
        return True
    if isinstance(e, ast.Call) and ast.unparse(e.func) in ("math.isfinite", "np.isfinite", "jnp.isfinite", "isfinite") and e.args and mentions(e.args[0]):
        return False
    return None


def _nan_gamma(ctx, col):
    for cfg in c10.config_classes(ctx):
        fields_ = ctx.ct.all_fields(cfg)
        if "gamma" not in fields_ or cfg.name not in DOMAINS:
            continue
        owner, fn, got, _exc, _n = validator_constraints(ctx, cfg)
        guards = [st for st in ast.walk(fn) if isinstance(st, ast.If) and st.body and isinstance(st.body[-1], ast.Raise)
                  and any(is_self_attr(n, "gamma") for n in ast.walk(st.test))]
        vals = [_truth_under_nan(g_.test, "gamma") for g_ in guards]
        if any(v is True for v in vals):
            col.add("R20.15", f"{cfg.name}.gamma", owner.module.relpath, fn.lineno, True, "a NaN gamma is rejected (a guard fires when every comparison with gamma is false)",
                    text="gamma NaN")
        elif any(v is None for v in vals) or not guards:
            raise AnalysisError(f"{cfg.name}: cannot tell whether a NaN gamma is rejected (guards on gamma: {[ast.unparse(g_.test) for g_ in guards]})")
        else:
            col.add("R20.15", f"{cfg.name}.gamma", owner.module.relpath, guards[0].lineno, False,
                    f"no guard on gamma fires for NaN ({'; '.join(ast.unparse(g_.test) for g_ in guards)}): gamma = float('nan') is outside [0, 1] but is "
                    "accepted by every route; the solver is built with a NaN threshold and solve() returns NaN values", text="gamma NaN")
