"""Term-level views of the shipped problems: constructor attributes, transition, probability."""

from __future__ import annotations

from ..interp import Interp, Unsupported
from ..loader import AnalysisError
from ..terms import S

STATE, ACTION, EVENT = S("STATE"), S("ACTION"), S("EVENT")


def cfgsym(name: str):
    return S("config." + name)


def problem_interp(ctx, cls, inst=None) -> Interp:
    """Interpreter whose attributes are those set by the problem's constructor, all symbolic in
    the configuration (config.<field>); `inst` = {field: int} fixes some fields to numbers."""
    from ..terms import K

    I = Interp(ctx.ct, cls, {}, obj_attrs={("config", f): K(v) for f, v in (inst or {}).items()})
    try:
        I.call_method("__init__", [("obj", "config")])
    except Unsupported as e:
        raise AnalysisError(f"{cls.name}.__init__: {e}") from e
    I.axes.update({"STATE": ("sdim",), "ACTION": ("adim",), "EVENT": ("edim",)})
    _vector_lengths(ctx, cls, I)
    I.ctor_scans = list(I.scans)
    I.scans.clear()
    I.leaf_calls.clear()
    return I


def _vector_lengths(ctx, cls, I) -> None:
    """STATE / ACTION / EVENT have as many components as their spaces have columns, when the column analysis of the spaces applies
    (used to read `x[:-1]` as `x[0 : len(x) - 1]`); silently absent otherwise"""
    from ..loader import AnalysisError as _AE
    from ..segments import Domain, SegEval, Vec
    from ..terms import T_add, ZERO
    from .common import backing_attr

    try:
        se = SegEval(I, Domain({}), {})
    except Exception:  # noqa: BLE001
        return
    for sym, attr in (("STATE", "state_space"), ("ACTION", "action_space"), ("EVENT", "random_event_space")):
        try:
            cols = se.columns(I.attrs[backing_attr(ctx, cls, attr)])
        except (_AE, KeyError, Unsupported, IndexError, TypeError, AttributeError):
            continue
        if isinstance(cols, Vec) and cols.segs:
            n = ZERO
            for cnt, _iv in cols.segs:
                n = T_add(n, cnt)
            I.sym_shapes[sym] = (n,)


def transition_terms(ctx, cls, inst=None):
    I = problem_interp(ctx, cls, inst)
    try:
        t = I.call_method("transition", [STATE, ACTION, EVENT])
    except Unsupported as e:
        raise AnalysisError(f"{cls.name}.transition: {e}") from e
    if t[0] != "tuple" or len(t[1]) != 2:
        raise AnalysisError(f"{cls.name}.transition does not return (next_state, reward)")
    return I, t[1][0], t[1][1]


def probability_term(ctx, cls):
    I = problem_interp(ctx, cls)
    try:
        t = I.call_method("random_event_probability", [STATE, ACTION, EVENT])
    except Unsupported as e:
        raise AnalysisError(f"{cls.name}.random_event_probability: {e}") from e
    return I, t
