#!/usr/bin/env python3
"""Store a confirmed seeded change under /verif/seeded/<id>/ (patch.diff, demonstration, README of its
author, meta.json).  usage: tools_seed_store.py <id> <property> <source seed dir> <needs text> [<note>]
Requires /tmp/seedverify_<verify id>.json (from tools_seed_verify.py) with confirmed == true, and runs
tools_seed_eval.py to record which checks report the change."""
import json
import shutil
import subprocess
import sys
from pathlib import Path

here = Path(__file__).resolve().parent


def main():
    sid, prop, src, needs = sys.argv[1], sys.argv[2], Path(sys.argv[3]), sys.argv[4]
    note = sys.argv[5] if len(sys.argv) > 5 else ""
    vid = sys.argv[6] if len(sys.argv) > 6 else prop
    ver = json.loads(Path(f"/tmp/seedverify_{vid}.json").read_text())
    if not ver.get("confirmed"):
        print("not confirmed:", {k: ver.get(k) for k in ("applies", "imports", "stable_failed")})
        return 1
    dst = here / "seeded" / sid
    dst.mkdir(parents=True, exist_ok=True)
    shutil.copy(src / "patch.diff", dst / "patch.diff")
    demo = None
    for n in ("demo.py", "test_demo.py"):
        if (src / n).exists():
            shutil.copy(src / n, dst / n)
            demo = n
    if (src / "README.md").exists():
        shutil.copy(src / "README.md", dst / "AUTHOR_README.md")
    ev = subprocess.run([sys.executable, str(here / "tools_seed_eval.py"), str(dst / "patch.diff"), "--json"],
                        capture_output=True, text=True)
    try:
        evj = json.loads(ev.stdout)
    except Exception:
        print("eval failed:", ev.stdout[-500:], ev.stderr[-500:])
        return 1
    meta = {
        "id": sid,
        "breaks_property": prop,
        "origin": "independent sub-agent given only the property text and a scratch worktree (nothing from /verif)",
        "needs_to_manifest": needs,
        "note": note,
        "confirmed_in_scratch_worktree": {
            "patch_applies_and_package_imports": True,
            "demo": demo,
            "demo_exit_without_change": ver["demo_without"]["exit"],
            "demo_exit_with_change": ver["demo_with"]["exit"],
            "baseline_suite_with_change": f"{ver['stable_checked']} stable tests of BASELINE.json checked, {len(ver['stable_failed'])} failed "
                                          f"(full pytest run, {ver.get('suite_s')} s)",
            "commands": [
                "git -C /repo worktree add /tmp/seedverify_<id> HEAD",
                "JAX_PLATFORMS=cpu PYTHONPATH=<wt>/src /venv/bin/python <demo>   # exit 0",
                "git -C <wt> apply patch.diff; same demo   # non-zero exit",
                "JAX_PLATFORMS=cpu PYTHONPATH=<wt>/src /venv/bin/python -m pytest -q -p no:cacheprovider --no-cov --timeout=900 --junitxml=...   # all stable_pass ids pass",
                "git -C /repo worktree remove --force <wt>",
            ],
        },
        "checks_run_against_it": "git -C /repo apply patch.diff; every MANIFEST quick_cmd; git -C /repo checkout -- .  (tools_seed_eval.py)",
        "reported_by": {p: v["reports"][:3] for p, v in evj["fired"].items()},
        "analysis_errors": {p: v["reports"][:2] for p, v in evj["errors"].items()},
        "detected": bool(evj["fired"]),
    }
    (dst / "meta.json").write_text(json.dumps(meta, indent=1))
    print(sid, "stored; reported by", sorted(evj["fired"]), "errors", sorted(evj["errors"]))
    return 0


if __name__ == "__main__":
    sys.exit(main())
