"""C03 - results are independent of batch size, device count and padding."""

from __future__ import annotations

import ast

from ..effects import is_self_attr
from ..loader import AnalysisError, norm_text
from ..terms import NONE, S, ZERO, show_norm
from .common import Context, calls_in, parents_of, self_call_name
from .kernels import SS, run_method
from .savi import SaviSweep, analyse_recurrence
from .solverterms import solver_interp

PROP = "C03"
EXPLANATION = (
    "Decides slot-wise non-interference of every synchronous kernel: in the kernel's term the batched "
    "state array occurs only as Batched(X)[d,b,k] with the result's own indices, every scan carry is "
    "the identity and every other pmap operand is broadcast (in_axes None), so a slot's output cannot "
    "depend on any other slot - hence not on how states are partitioned into devices and batches nor on "
    "padding rows.  Every value produced by a pmapped callable reaches solver state only through "
    "_unbatch_results (AST dataflow over the 5 pmap call sites), so padding never appears in a returned "
    "array.  For the semi-asynchronous solver the scatter into the carried values is masked by exactly "
    "(flat slot index >= n_states), built over the same device x batch x slot shape as the states and "
    "travelling through the same pmap / scan positions, in both shuffle branches.  Does not decide "
    "equality up to rounding or identical iteration counts, nor runtime sharding behaviour of JAX."
    ' Also decides (R3.5) that no function of the package writes a module-level or class-level container and that no solver writes into the problem object it was given - a cache of batched states, masks or compiled kernels kept there would be shared with solvers of another batch size or device count.'
)
RULES = {
    "R3.1": "synchronous kernels: identity scan carry, broadcast operands, and no batch index surviving un-batching (slot outputs depend on their own slot only)",
    "R3.2": "every result of a pmapped callable is consumed only by _unbatch_results",
    "R3.3": "pad/strip pairing and slot accounting of BatchProcessor (the instances of C18 R18.1 / R18.2): padding only after the states, exactly n_pad rows stripped from the end, slots == states + padding",
    "R3.5": "what a solver computes depends on its own batch layout only: no function of the package writes a module-level or class-level container, and no solver writes into the problem object it was given (a cache of batched states, masks or compiled kernels kept there is shared with every other solver of the process / of that problem, whatever ITS batch size and device count) - instances of C19 R19.5, expected count zero",
    "R3.4": "semi-async: carried values are scattered under where(mask, old, new) with mask = (arange(dev*batch*slot) >= n_states) reshaped like the states, mask paired with its own rows",
}
ASSUMPTIONS = [
    "pad/strip pairing and slot accounting of BatchProcessor are decided under C18 (R18.1, R18.2)",
    "policy lookup for padded rows in policy evaluation reads a valid row (state_to_index clips), decided structurally under C05 R5.1",
]

SYNC_KERNELS = [
    ("ValueIteration", "_iteration_step", ()),
    ("RelativeValueIteration", "_iteration_step", ()),
    ("PeriodicValueIteration", "_iteration_step", ()),
    ("ValueIteration", "_extract_policy", ()),
    ("PolicyIteration", "_extract_policy", ()),
    ("SemiAsyncValueIteration", "_extract_policy", ()),
    ("PolicyIteration", "_calculate_policy_values", (S("POLICY"), S("VALUES"))),
    ("ValueIteration", "_initialize_values", (("batched", SS),)),
]


def run(ctx: Context, col) -> None:
    from .common import Parts

    part = Parts()
    from .c12 import _shared_state
    _shared_state(ctx, col, "R3.5")
    col.floor("R3.5", 2)
    for cname, meth, args in SYNC_KERNELS:
        cls = ctx.ct.get(cname)
        extra = {}
        if cname == "PeriodicValueIteration":
            extra = {"history_index": S("HIDX"), "value_history": S("HIST"), "period": S("self.period")}
        I, t = run_method(ctx, cls, meth, list(args), extra=extra)
        owner, fn = ctx.ct.require(cls, meth)
        evolving = [s for s in I.scans if s["kind"] != "map"]
        interfering = [u for u in I.unbatch_log if u["interference"]]
        pm = [(k, v) for k, v in I.attrs.items() if isinstance(v, tuple) and v and v[0] == "pmapped"]
        bad_spec = []
        for k, v in pm:
            spec = v[2]
            if spec[0] == "tuple":
                first = spec[1][0]
                flat = first[1] if first[0] == "tuple" else (first,)
                if any(x != NONE for x in flat) or spec[1][-1] != ZERO:
                    bad_spec.append(k)
        ok = not evolving and not interfering and not bad_spec and bool(I.scans) and bool(I.unbatch_log)
        why = (f"{len(I.scans)} scan(s) with identity carry, {len(I.unbatch_log)} un-batching(s) with no surviving batch index, "
               f"broadcast carry operands") if ok else (
            f"scan at line {evolving[0]['line']} threads an evolving carry through the batches (slot results depend on earlier batches)" if evolving else
            f"a device/batch/slot index survives un-batching at line {interfering[0]['line']}" if interfering else
            f"pmapped attribute(s) {bad_spec} do not broadcast their carry operands" if bad_spec else "kernel has no scan / un-batching")
        col.add("R3.1", f"{cname}.{meth}", owner.module.relpath, fn.lineno, ok, why, text="slot-wise non-interference")
    part(_taint, ctx, col)
    part(_mask, ctx, col)
    part(_pad_strip, ctx, col)
    part.finish()
    col.floor("R3.3", 5)
    col.floor("R3.1", 8)
    col.floor("R3.2", 5)
    col.floor("R3.4", 2)


class _Relabel:
    """Collector view that files C18's batching instances under R3.3."""

    def __init__(self, col):
        self.col = col

    def add(self, rule, *a, **k):
        if rule in ("R18.1", "R18.2"):
            return self.col.add("R3.3", *a, **k)
        return True

    def floor(self, *a):
        pass

    def saw(self, *a):
        pass

    def __getattr__(self, n):
        return getattr(self.col, n)


def _pad_strip(ctx, col):
    from . import c18

    c18.run(ctx, _Relabel(col))


def _pmapped_attrs(ctx):
    """attribute names bound to jax.pmap(...) anywhere in the solver classes."""
    names = set()
    for ci in ctx.ct.by_qual.values():
        for fn in ci.methods.values():
            for s in ast.walk(fn):
                if isinstance(s, ast.Assign) and isinstance(s.value, ast.Call) and ast.unparse(s.value.func) in ("jax.pmap", "pmap"):
                    for t in s.targets:
                        if is_self_attr(t):
                            names.add(t.attr)
    return names


def _pmapped_locals(fn):
    """local names bound to jax.pmap(...) inside one function (a pmapped callable built where it is used)"""
    out = set()
    for s in ast.walk(fn):
        if isinstance(s, ast.Assign) and isinstance(s.value, ast.Call) and ast.unparse(s.value.func) in ("jax.pmap", "pmap"):
            for t in s.targets:
                if isinstance(t, ast.Name):
                    out.add(t.id)
    return out


def _handed_to_unbatching_method(ctx, ci, call, arg, depth=0) -> bool:
    """`arg` is passed positionally to a method of the solver (directly, or through an attribute bound to jit(self.m)) whose corresponding
    parameter is used only as the argument of _unbatch_results (or handed on in the same way): the un-batching happens one call further down"""
    if depth > 3 or not isinstance(call, ast.Call) or not isinstance(call.func, ast.Attribute) or not is_self_attr(call.func):
        return False
    if arg not in call.args or call.keywords and any(k.value is arg for k in call.keywords):
        return False
    pos = call.args.index(arg)
    from ..effects import Effects
    names = {call.func.attr} | Effects(ctx.ct, ci).bound_methods().get(call.func.attr, set())
    targets = [r for r in (ctx.ct.lookup(ci, n) for n in sorted(names)) if r is not None]
    if not targets:
        return False
    for owner, fn in targets:
        params = [a.arg for a in fn.args.args][1:]
        if pos >= len(params):
            return False
        p = params[pos]
        par = parents_of(fn)
        uses = [n for n in ast.walk(fn) if isinstance(n, ast.Name) and n.id == p and isinstance(n.ctx, ast.Load)]
        if not uses or any(isinstance(n, ast.Name) and n.id == p and isinstance(n.ctx, ast.Store) for n in ast.walk(fn)):
            return False
        for u in uses:
            pu = par.get(id(u))
            if isinstance(pu, ast.Call) and self_call_name(pu) == "_unbatch_results" and len(pu.args) == 1 and pu.args[0] is u:
                continue
            if _handed_to_unbatching_method(ctx, ci, pu, u, depth + 1):
                continue
            return False
    return True


def _taint(ctx, col):
    names = _pmapped_attrs(ctx)
    n_local = sum(len(_pmapped_locals(fn)) for ci in ctx.ct.by_qual.values() for fn in ci.methods.values())
    if len(names) + n_local < 4:
        raise AnalysisError(f"anchor vanished: only {len(names) + n_local} pmapped callables found")
    sites = 0
    for ci in sorted(ctx.ct.by_qual.values(), key=lambda c: c.qualname):
        for fn in ci.methods.values():
            parents = None
            local_pmaps = _pmapped_locals(fn)
            for c in calls_in(fn):
                if (isinstance(c.func, ast.Attribute) and is_self_attr(c.func) and c.func.attr in names) \
                        or (isinstance(c.func, ast.Name) and c.func.id in local_pmaps):
                    sites += 1
                    parents = parents or parents_of(fn)
                    p = parents.get(id(c))
                    construct = f"{ci.name}.{fn.name}"
                    ok, why = False, ""
                    if isinstance(p, ast.Call) and self_call_name(p) == "_unbatch_results" and p.args and p.args[0] is c:
                        ok, why = True, "pmap result passed straight to _unbatch_results"
                    elif isinstance(p, ast.Assign) and len(p.targets) == 1 and isinstance(p.targets[0], ast.Name):
                        v = p.targets[0].id
                        uses = [n for n in ast.walk(fn) if isinstance(n, ast.Name) and n.id == v and isinstance(n.ctx, ast.Load)]
                        bad = []
                        for u in uses:
                            pu = parents.get(id(u))
                            if not (isinstance(pu, ast.Call) and self_call_name(pu) == "_unbatch_results" and len(pu.args) == 1 and pu.args[0] is u) \
                                    and not _handed_to_unbatching_method(ctx, ci, pu, u):
                                bad.append(u)
                        rebinds = [n for n in ast.walk(fn) if isinstance(n, ast.Name) and n.id == v and isinstance(n.ctx, ast.Store)]
                        ok = bool(uses) and not bad and len(rebinds) == 1
                        why = (f"`{v}` (padded, per-device) is used only as the argument of _unbatch_results" if ok else
                               f"`{v}` holds a padded per-device pmap result and is used at line {(bad[0].lineno if bad else p.lineno)} without un-batching")
                    else:
                        why = f"pmap result flows into `{norm_text(p)[:80]}` without un-batching"
                    col.add("R3.2", construct, ci.module.relpath, c.lineno, ok, why, text=f"pmap result of self.{c.func.attr if isinstance(c.func, ast.Attribute) else c.func.id.lstrip('_')}")
    if sites < 5:
        raise AnalysisError(f"count floor missed: {sites} pmap call sites (5 confirmed by hand)")


def _mask(ctx, col):
    cls = ctx.ct.get("SemiAsyncValueIteration")
    ko, kfn = ctx.ct.require(cls, "_calculate_updated_value_scan_state_batches")
    for shuffle in (False, True):
        tag = "shuffle" if shuffle else "fixed order"
        sw = SaviSweep(ctx, shuffle)
        f = analyse_recurrence(sw)
        ok = bool(f.get("mask_ok") and f.get("keep_ok") and f.get("scatter_shape") and f.get("index_ok"))
        why = "scatter value = where(flat slot index >= n_states, carried value, new value), mask shaped like and paired with the batch rows"
        if not ok:
            if f.get("mask_ok") is False:
                why = ("padding mask is not (arange(dev*batch*slot) >= n_states) over the states' own batch shape: "
                       + f["details"].get("mask", f["details"].get("why", "")))
            else:
                why = f["details"].get("why", "masked scatter not recognised")
        col.add("R3.4", f"SemiAsyncValueIteration.scan_fn[{tag}]", ko.module.relpath, kfn.lineno, ok, why, text=f"padding mask [{tag}]")
