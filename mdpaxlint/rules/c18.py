"""C18 - batching places every state exactly once and round-trips losslessly."""

from __future__ import annotations

from ..interp import Interp, Unsupported
from ..loader import AnalysisError
from ..terms import FALSE, K, NONE, S, T_add, T_mul, T_sub, show_norm, subterms
from .common import Context

PROP = "C18"
EXPLANATION = (
    "BatchProcessor is abstractly interpreted with symbolic n_states N, state_dim SD, max_batch_size M "
    "and device count D.  Decided as term identities / symbolic-bound facts that therefore hold for "
    "every N, M, D: slots = D*n_batches*batch_size equals states + reported padding; the reshape "
    "target of prepare_batches is exactly (D, n_batches, batch_size, SD); padding rows are appended "
    "after the states and stripped from the end of the row-major flattening, both under the same "
    "`n_pad > 0` condition; batch_size is a min() that contains max_batch_size and whose every "
    "operand has lower bound 1; coverage slots >= states follows from the two ceiling-division idioms; "
    "the device count is the argument or len(jax.devices()).  Does not decide jnp.reshape/vstack's own "
    "row-major semantics."
)
RULES = {
    "R18.1": "n_pad + n_states == n_devices*n_batches*batch_size (polynomial identity) and prepare_batches reshapes to exactly (n_devices, n_batches, batch_size, state_dim)",
    "R18.2": "padding rows (n_pad x state_dim zeros) are stacked after the states; unbatch flattens the three batch axes and strips n_pad rows from the end; both under n_pad > 0",
    "R18.3": "1 <= batch_size <= max_batch_size in both device branches (symbolic bounds through min/max)",
    "R18.4": "coverage: states_per_device and n_batches are ceiling divisions, so slots >= n_states",
    "R18.5": "n_devices is the requested count, or len(jax.devices()) when none is requested",
    "R18.6": "batch_shape reports (n_devices, n_batches, batch_size)",
}
ASSUMPTIONS = [
    "n_states >= 1, max_batch_size >= 1 (validators, C20 R20.3), device count >= 1",
    "jnp.vstack / reshape / slicing are row-major",
]

N, SD, M, D = S("N"), S("SD"), S("M"), S("D")


def _interp(ctx, dev):
    cls = ctx.ct.get("BatchProcessor")
    I = Interp(ctx.ct, cls, {}, axes={"STATES": ("state", "sdim")})
    try:
        I.call_method("__init__", [N, SD, M, dev])
    except Unsupported as e:
        raise AnalysisError(f"BatchProcessor.__init__: {e}") from e
    return cls, I


def lower_bound(t, lb):
    """A numeric lower bound of term t given lower bounds of symbols (None = unknown)."""
    k = t[0]
    if k == "const":
        try:
            return float(t[1])
        except Exception:
            return None
    if t in lb:
        return lb[t]
    if k == "app" and t[1] in ("pymin", "minimum"):
        vals = [lower_bound(a, lb) for a in t[2]]
        return None if any(v is None for v in vals) else min(vals)
    if k == "app" and t[1] in ("pymax", "maximum"):
        vals = [v for v in (lower_bound(a, lb) for a in t[2]) if v is not None]
        return max(vals) if vals else None
    if k == "ite":
        a, b = lower_bound(t[2], lb), lower_bound(t[3], lb)
        return None if a is None or b is None else min(a, b)
    if k == "app" and t[1] == "floordiv":
        return None
    return None


def bounded_above_by(t, target) -> bool:
    """t <= target structurally: t is target, a min() with an operand bounded by target, or an
    ite / max whose every branch is bounded."""
    if t == target:
        return True
    k = t[0]
    if k == "app" and t[1] in ("pymin", "minimum"):
        return any(bounded_above_by(a, target) for a in t[2])
    if k == "app" and t[1] in ("pymax", "maximum"):
        return all(bounded_above_by(a, target) for a in t[2])
    if k == "ite":
        return bounded_above_by(t[2], target) and bounded_above_by(t[3], target)
    return False


def is_ceil_div(t, a, b) -> bool:
    """t == ceil(a / b) by one of the accepted idioms."""
    forms = [
        ("app", "floordiv", (T_sub(T_add(a, b), K(1)), b)),
        T_mul(K(-1), ("app", "floordiv", (T_mul(K(-1), a), b))),
    ]
    return t in forms


def run(ctx: Context, col) -> None:
    cls, I = _interp(ctx, D)
    file = cls.module.relpath
    line = cls.methods["__init__"].lineno
    A = I.attrs
    for need in ("n_devices", "n_batches", "batch_size", "n_pad", "n_states", "state_dim"):
        if need not in A:
            raise AnalysisError(f"anchor vanished: BatchProcessor.{need} is not set by __init__")
    nd, nb, bs, npad = A["n_devices"], A["n_batches"], A["batch_size"], A["n_pad"]
    col.saw("terms", f"n_devices={show_norm(nd)}; batch_size={show_norm(bs)}; n_batches={show_norm(nb)}; n_pad={show_norm(npad)}")
    # R18.1
    slots = T_mul(T_mul(nd, nb), bs)
    ok = T_add(npad, A["n_states"]) == slots and A["n_states"] == N
    col.add("R18.1", "BatchProcessor.__init__", file, line, ok,
            "n_pad + n_states == n_devices * n_batches * batch_size as a polynomial identity" if ok else
            f"n_pad + n_states = {show_norm(T_add(npad, A['n_states']))} but slots = {show_norm(slots)}", text="slots = states + padding")
    # prepare_batches
    I2 = Interp(ctx.ct, cls, dict(A), axes={"STATES": ("state", "sdim")})
    I2.sym_shapes["STATES"] = (A["n_states"], A["state_dim"])
    STATES = S("STATES")
    try:
        pb = I2.call_method("prepare_batches", [STATES])
    except Unsupported as e:
        raise AnalysisError(f"BatchProcessor.prepare_batches: {e}") from e
    pline = cls.methods["prepare_batches"].lineno
    from ..terms import lift_ite
    dims = (nd, nb, bs, A["state_dim"])
    resh = [t for t in subterms(pb) if t[0] == "app" and t[1] == "reshape"]

    def _target(t):
        tgt = tuple(t[2][1:])
        return tuple(tgt[0][1]) if len(tgt) == 1 and tgt[0][0] == "tuple" else tgt

    okr = bool(resh) and all(_target(t) == dims for t in resh)
    col.add("R18.1", "BatchProcessor.prepare_batches", file, pline, okr,
            "reshape target == (n_devices, n_batches, batch_size, state_dim)" if okr else
            f"reshape target is {[show_norm(x) for x in (_target(resh[0]) if resh else [])]}", text="reshape target")
    # R18.2 pad placement (conditionals lifted to the top: early returns and a padded local are the same term)
    cond_pad = ("app", "cmpLt", (K(0), npad))
    zeros = ("app", "zeros", (("tuple", (npad, A["state_dim"])),))
    want_padded = ("app", "vstack", (STATES, zeros))

    def _unreshape(t):
        return t[2][0] if t[0] == "app" and t[1] == "reshape" and _target(t) == dims else None

    got = lift_ite(pb, cond_pad)
    okp = got[0] == "ite" and got[1] == cond_pad and _unreshape(got[2]) == want_padded and _unreshape(got[3]) == STATES
    body = got
    col.add("R18.2", "BatchProcessor.prepare_batches", file, pline, okp,
            "n_pad > 0: states followed by n_pad x state_dim zero rows; otherwise unchanged" if okp else
            f"padded array is {show_norm(body)[:200]}", text="pad after the states")
    # unbatch
    I3 = Interp(ctx.ct, cls, dict(A), axes={})
    RES = S("RESULTS")
    try:
        ub = I3.call_method("unbatch_results", [RES])
    except Unsupported as e:
        raise AnalysisError(f"BatchProcessor.unbatch_results: {e}") from e
    uline = cls.methods["unbatch_results"].lineno
    flat = ("app", "reshape", (RES, K(-1), ("star", ("app", "shape_slice", (RES, K(3), NONE, NONE)))))
    strip_end = ("app", "slice", (flat, NONE, T_mul(K(-1), npad), NONE))
    keep_first = ("app", "slice", (flat, NONE, A["n_states"], NONE))
    # rows - n_pad of the flattened rows, written with the row count (the same slice as [:-n_pad], and the whole array when n_pad == 0)
    keep_count = ("app", "slice", (flat, NONE, T_sub(("app", "shape", (flat, K(0))), npad), NONE))
    oku = ub in (("ite", cond_pad, strip_end, flat), ("ite", cond_pad, keep_first, flat), keep_first, keep_count, ("ite", cond_pad, keep_count, flat))
    col.add("R18.2", "BatchProcessor.unbatch_results", file, uline, oku,
            "flatten (dev, batch, slot) and strip the last n_pad rows when n_pad > 0" if oku else
            f"unbatch returns {show_norm(ub)[:220]}", text="strip from the end")
    # R18.3
    lb = {N: 1.0, M: 1.0, D: 1.0}
    lo = lower_bound(bs, lb)
    ok3 = lo is not None and lo >= 1 and bounded_above_by(bs, M)
    col.add("R18.3", "BatchProcessor.__init__", file, line, ok3,
            f"batch_size = {show_norm(bs)}: lower bound {lo}, bounded above by max_batch_size in every branch" if ok3 else
            f"batch_size = {show_norm(bs)}: lower bound {lo}, bounded by max_batch_size: {bounded_above_by(bs, M)}", text="1 <= batch_size <= max_batch_size")
    # R18.4
    spd_terms = [t for t in subterms(nb) if t[0] == "app" and t[1] == "floordiv"]
    spd = ("app", "floordiv", (T_sub(T_add(N, nd), K(1)), nd))
    ok4a = any(is_ceil_div(t, N, nd) for t in subterms(nb)) or any(is_ceil_div(t, N, nd) for t in subterms(bs))
    # n_batches = ite(spd <= bs, 1, ceil(spd / bs))
    ok4b = False
    if nb[0] == "ite":
        c, one, other = nb[1], nb[2], nb[3]
        # canonical polarity (terms.T_ite): ite(bs < spd, ceil(spd / bs), 1)
        if c[0] == "app" and c[1] == "cmpLt" and c[2][0] == bs and is_ceil_div(c[2][1], N, nd) and other == K(1):
            ok4b = is_ceil_div(one, c[2][1], bs)
    elif nb[0] == "app":
        ok4b = any(is_ceil_div(nb, s_, bs) for s_ in [spd])
    col.add("R18.4", "BatchProcessor.__init__", file, line, ok4a and ok4b,
            "states_per_device = ceil(N / D) and n_batches = 1 if it fits else ceil(states_per_device / batch_size): slots >= N" if ok4a and ok4b else
            f"coverage idioms not recognised: states_per_device ceil={ok4a}, n_batches ceil={ok4b}; n_batches = {show_norm(nb)}", text="ceiling divisions")
    # R18.5
    _, In = _interp(ctx, NONE)
    ndn = In.attrs.get("n_devices")
    ok5 = nd == D and ndn == ("app", "len", (("app", "jax.devices", ()),))
    col.add("R18.5", "BatchProcessor.__init__", file, line, ok5,
            "n_devices == requested count, or len(jax.devices()) when None" if ok5 else
            f"n_devices = {show_norm(nd)} (requested) / {show_norm(ndn) if ndn else None} (None)", text="device count")
    # R18.6
    try:
        shp = I2.self_attr("batch_shape", None)
    except Unsupported as e:
        raise AnalysisError(f"BatchProcessor.batch_shape: {e}") from e
    ok6 = shp == ("tuple", (nd, nb, bs))
    col.add("R18.6", "BatchProcessor.batch_shape", file, cls.methods["batch_shape"].lineno if "batch_shape" in cls.methods else line, ok6,
            "batch_shape == (n_devices, n_batches, batch_size)" if ok6 else f"batch_shape = {show_norm(shp)}", text="batch_shape")
    # Solver wiring: the processor is built from the problem's own sizes and states
    sol = ctx.ct.get("Solver")
    owner, fn = ctx.ct.require(sol, "_setup_batch_processing")
    from .solverterms import solver_interp
    Is = solver_interp(ctx, ctx.ct.get("ValueIteration"), setup=False)
    Is.attrs.pop("batch_processor", None)
    Is.attrs.pop("batched_states", None)
    Is.attrs["max_batch_size"] = S("self.max_batch_size")
    Is.call_method("_setup_batch_processing")
    bp = Is.attrs.get("batch_processor")
    want_bp = ("app", "new:BatchProcessor", (S("self.max_batch_size"), S("problem.n_states"), ("app", "shape", (S("problem.state_space"), K(1)))))
    okw = bp is not None and bp[0] == "app" and bp[1] == "new:BatchProcessor" and set(bp[2]) == set(want_bp[2])
    col.add("R18.1", "Solver._setup_batch_processing", owner.module.relpath, fn.lineno, okw,
            "BatchProcessor(n_states=problem.n_states, state_dim=state_space.shape[1], max_batch_size=self.max_batch_size)" if okw else
            f"processor built as {show_norm(bp) if bp else None}", text="processor from problem sizes")
    for r_, n_ in (("R18.1", 3), ("R18.2", 2), ("R18.3", 1), ("R18.4", 1), ("R18.5", 1), ("R18.6", 1)):
        col.floor(r_, n_)
