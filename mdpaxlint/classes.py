"""Class table: bases across modules, C3 MRO, method lookup, super() resolution,
properties, dataclass fields, class attributes."""

from __future__ import annotations

import ast
from dataclasses import dataclass, field

from .loader import AnalysisError, Module, Repo


@dataclass
class ClassInfo:
    name: str
    module: Module
    node: ast.ClassDef
    base_exprs: list[str] = field(default_factory=list)  # dotted, as resolved
    bases: list["ClassInfo"] = field(default_factory=list)  # in-repo bases only
    methods: dict[str, ast.FunctionDef] = field(default_factory=dict)
    attrs: dict[str, ast.AST] = field(default_factory=dict)  # class-level `X = expr`
    fields: dict[str, ast.AnnAssign] = field(default_factory=dict)  # annotated

    @property
    def qualname(self) -> str:
        return f"{self.module.name}.{self.name}"

    def __hash__(self) -> int:
        return hash(self.qualname)

    def __eq__(self, other) -> bool:
        return isinstance(other, ClassInfo) and other.qualname == self.qualname

    def __repr__(self) -> str:
        return f"<class {self.name}>"

    def decorators(self, meth: str) -> list[str]:
        fn = self.methods.get(meth)
        return [ast.unparse(d) for d in fn.decorator_list] if fn else []

    def is_dataclass(self) -> bool:
        return any("dataclass" in ast.unparse(d) for d in self.node.decorator_list)


class ClassTable:
    def __init__(self, repo: Repo):
        self.repo = repo
        self.by_qual: dict[str, ClassInfo] = {}
        self.by_name: dict[str, list[ClassInfo]] = {}
        for m in repo.modules.values():
            for cname, cnode in m.classes.items():
                ci = ClassInfo(cname, m, cnode)
                for item in cnode.body:
                    if isinstance(item, ast.FunctionDef):
                        decos_ = [ast.unparse(d) for d in item.decorator_list]
                        if any(d.endswith((".setter", ".deleter")) for d in decos_) and item.name in ci.methods:
                            continue  # the property's getter stays the definition looked up by name
                        ci.methods[item.name] = item  # last definition wins, as in Python
                    elif isinstance(item, ast.Assign) and len(item.targets) == 1:
                        t = item.targets[0]
                        if isinstance(t, ast.Name):
                            ci.attrs[t.id] = item.value
                    elif isinstance(item, ast.AnnAssign) and isinstance(
                        item.target, ast.Name
                    ):
                        ci.fields[item.target.id] = item
                        if item.value is not None:
                            ci.attrs[item.target.id] = item.value
                self.by_qual[ci.qualname] = ci
                self.by_name.setdefault(cname, []).append(ci)
        for ci in self.by_qual.values():
            for b in ci.node.bases:
                dotted = self.resolve_name(ci.module, ast.unparse(b))
                ci.base_exprs.append(dotted)
                target = self.by_qual.get(dotted)
                if target is None:
                    r = repo.resolve_dotted(dotted)
                    if r and isinstance(r[1], ast.ClassDef):
                        target = self.by_qual.get(f"{r[0].name}.{r[1].name}")
                if target is not None:
                    ci.bases.append(target)
        self._mro: dict[str, list[ClassInfo]] = {}
        # helpers no rule refers to by name are inlined into their callers (see canon.py); afterwards guard
        # clauses exposed by inlining are brought to the same conditional normal form as everything else
        from .canon import inline_helpers, positional_calls
        from .loader import canonical_tree

        from .flatten import flatten_objects

        from .specialise import specialise_class_constants

        from .memo import fold_memo

        self.flattened = flatten_objects(self) + specialise_class_constants(self) + fold_memo(self)
        positional_calls(self)
        self.inlined = inline_helpers(self)
        from .canon import recanonicalise_function
        from .discriminant import fold_discriminants

        def again(stmt_level: bool):
            for ci in self.by_qual.values():
                for fn in ci.methods.values():
                    if stmt_level:
                        recanonicalise_function(fn)
                    canonical_tree(fn)

        if self.inlined or self.flattened:
            again(True)
        folded = fold_discriminants(self)
        if folded:
            self.flattened += folded
            again(False)

    # ------------------------------------------------------------------ names
    def resolve_name(self, module: Module, expr: str) -> str:
        """Dotted path an expression like `checkpoint.args.StandardSave` or `Solver` names."""
        head, _, rest = expr.partition(".")
        if head in module.classes or head in module.functions:
            base = f"{module.name}.{head}"
        elif head in module.imports:
            base = module.imports[head]
        else:
            base = head
        return f"{base}.{rest}" if rest else base

    def get(self, name: str) -> ClassInfo:
        """Class by short or qualified name; an absent class is a vanished anchor."""
        if name in self.by_qual:
            return self.by_qual[name]
        cands = self.by_name.get(name, [])
        if len(cands) == 1:
            return cands[0]
        if not cands:
            raise AnalysisError(f"anchor vanished: class {name}")
        raise AnalysisError(f"ambiguous class name {name}: {[c.qualname for c in cands]}")

    def find(self, name: str) -> ClassInfo | None:
        try:
            return self.get(name)
        except AnalysisError:
            return None

    def class_of_dotted(self, dotted: str) -> ClassInfo | None:
        if dotted in self.by_qual:
            return self.by_qual[dotted]
        r = self.repo.resolve_dotted(dotted)
        if r and isinstance(r[1], ast.ClassDef):
            return self.by_qual.get(f"{r[0].name}.{r[1].name}")
        return None

    # -------------------------------------------------------------------- MRO
    def mro(self, ci: ClassInfo) -> list[ClassInfo]:
        if ci.qualname in self._mro:
            return self._mro[ci.qualname]
        seqs = [list(self.mro(b)) for b in ci.bases] + [list(ci.bases)]
        res = [ci]
        while any(seqs):
            for s in seqs:
                if not s:
                    continue
                h = s[0]
                if not any(h in t[1:] for t in seqs):
                    break
            else:
                raise AnalysisError(f"inconsistent MRO for {ci.name}")
            res.append(h)
            seqs = [[x for x in s if x != h] for s in seqs]
        self._mro[ci.qualname] = res
        return res

    def lookup(self, ci: ClassInfo, name: str, after: ClassInfo | None = None):
        """(owner, FunctionDef) of method `name` for instances of `ci`; `after` = super()."""
        chain = self.mro(ci)
        if after is not None:
            if after not in chain:
                return None
            chain = chain[chain.index(after) + 1 :]
        for k in chain:
            if name in k.methods:
                return k, k.methods[name]
        return None

    def require(self, ci: ClassInfo, name: str, after: ClassInfo | None = None):
        r = self.lookup(ci, name, after)
        if r is None:
            raise AnalysisError(f"anchor vanished: method {ci.name}.{name}")
        return r

    def class_attr(self, ci: ClassInfo, name: str):
        for k in self.mro(ci):
            if name in k.attrs:
                return k, k.attrs[name]
        return None

    def is_property(self, ci: ClassInfo, name: str) -> bool:
        r = self.lookup(ci, name)
        if not r:
            return False
        return any(
            ast.unparse(d) in ("property", "functools.cached_property", "cached_property")
            for d in r[1].decorator_list
        )

    def all_fields(self, ci: ClassInfo) -> dict[str, tuple[ClassInfo, ast.AnnAssign]]:
        """Dataclass fields including inherited ones, base-first order, overrides kept in place."""
        out: dict[str, tuple[ClassInfo, ast.AnnAssign]] = {}
        for k in reversed(self.mro(ci)):
            for fname, fnode in k.fields.items():
                out[fname] = (k, fnode)
        return out

    def subclasses(self, ci: ClassInfo) -> list[ClassInfo]:
        return [c for c in self.by_qual.values() if c != ci and ci in self.mro(c)]

    def methods_of(self, ci: ClassInfo) -> dict[str, tuple[ClassInfo, ast.FunctionDef]]:
        out: dict[str, tuple[ClassInfo, ast.FunctionDef]] = {}
        for k in reversed(self.mro(ci)):
            for n, fn in k.methods.items():
                out[n] = (k, fn)
        return out


SOLVER_CLASSES = [
    "ValueIteration",
    "PolicyIteration",
    "RelativeValueIteration",
    "PeriodicValueIteration",
    "SemiAsyncValueIteration",
]
PROBLEM_CLASSES = [
    "Forest",
    "DeMoorSingleProductPerishable",
    "HendrixTwoProductPerishable",
    "MirjaliliPlateletPerishable",
]


def shipped_solvers(ct: ClassTable) -> list[ClassInfo]:
    """Concrete solver classes: read from mdpax.solvers.__all__, checked against the frozen list."""
    m = ct.repo.module("mdpax.solvers")
    names = None
    if "__all__" in m.globals and isinstance(m.globals["__all__"], (ast.List, ast.Tuple)):
        names = [e.value for e in m.globals["__all__"].elts if isinstance(e, ast.Constant)]
    if names is None:
        raise AnalysisError("anchor vanished: mdpax.solvers.__all__")
    missing = [n for n in SOLVER_CLASSES if n not in names]
    if missing:
        raise AnalysisError(f"anchor vanished: solvers {missing} not exported")
    out = []
    for n in names:
        dotted = m.imports.get(n)
        ci = ct.class_of_dotted(dotted) if dotted else None
        if ci is None:
            raise AnalysisError(f"anchor vanished: solver class {n}")
        out.append(ci)
    order = {n: i for i, n in enumerate(SOLVER_CLASSES)}
    out.sort(key=lambda c: order.get(c.name, 99))
    return out


def shipped_problems(ct: ClassTable) -> list[ClassInfo]:
    m = ct.repo.module("mdpax.problems")
    names = None
    if "__all__" in m.globals and isinstance(m.globals["__all__"], (ast.List, ast.Tuple)):
        names = [e.value for e in m.globals["__all__"].elts if isinstance(e, ast.Constant)]
    if names is None:
        raise AnalysisError("anchor vanished: mdpax.problems.__all__")
    missing = [n for n in PROBLEM_CLASSES if n not in names]
    if missing:
        raise AnalysisError(f"anchor vanished: problems {missing} not exported")
    out = []
    for n in names:
        dotted = m.imports.get(n)
        ci = ct.class_of_dotted(dotted) if dotted else None
        if ci is None:
            raise AnalysisError(f"anchor vanished: problem class {n}")
        out.append(ci)
    order = {n: i for i, n in enumerate(PROBLEM_CLASSES)}
    out.sort(key=lambda c: order.get(c.name, 99))
    return out
