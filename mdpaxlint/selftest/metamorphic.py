"""Behaviour-preserving whole-tree transformations (metamorphic robustness of the checks).

  T1 rename   every local variable of every function gets a suffix (parameters, attributes, globals,
              names captured by nested functions are kept)
  T2 commute  operands of every arithmetic `+` / `*` are swapped (strings / sequences excluded)
  T3 flipcmp  every `a < b` becomes `b > a` (and <=, >, >= likewise)
  T4 reformat ast.unparse of every module (drops comments, normalises layout)
  T5 loglines a logger.debug line after every simple statement of non-kernel functions
  T6 return   `return <expr>` becomes `result_ = <expr>; return result_`
  T7 alias    `x_a = self.x` at the top of simple methods for attributes they only read; reads use the alias"""
import ast
from pathlib import Path


class Rename(ast.NodeTransformer):
    def visit_FunctionDef(self, fn):
        params = {a.arg for a in fn.args.args + fn.args.kwonlyargs + fn.args.posonlyargs}
        if fn.args.vararg:
            params.add(fn.args.vararg.arg)
        if fn.args.kwarg:
            params.add(fn.args.kwarg.arg)
        stored, declared = set(), set()
        nested_names = set()
        for n in ast.walk(fn):
            if isinstance(n, (ast.Global, ast.Nonlocal)):
                declared.update(n.names)
            if isinstance(n, ast.Name) and isinstance(n.ctx, ast.Store):
                stored.add(n.id)
            if isinstance(n, (ast.FunctionDef, ast.Lambda, ast.ClassDef)) and n is not fn:
                if not isinstance(n, ast.Lambda):
                    nested_names.add(n.name)
                for m in ast.walk(n):
                    if isinstance(m, ast.Name):
                        nested_names.add(m.id)  # anything a nested scope touches is left alone
                    if isinstance(m, ast.arg):
                        nested_names.add(m.arg)
        for n in ast.walk(fn):  # comprehension variables live in their own scope: leave them
            if isinstance(n, ast.comprehension):
                for m in ast.walk(n.target):
                    if isinstance(m, ast.Name):
                        nested_names.add(m.id)
        targets = {x for x in stored if x not in params and x not in declared and x not in nested_names and x != "_"}
        if targets:
            for n in ast.walk(fn):
                if isinstance(n, ast.Name) and n.id in targets:
                    n.id = n.id + "_r"
        return fn  # do not recurse: nested functions share names we left alone


class Commute(ast.NodeTransformer):
    def visit_BinOp(self, n):
        self.generic_visit(n)
        if isinstance(n.op, (ast.Add, ast.Mult)):
            bad = (ast.Constant, ast.JoinedStr, ast.List, ast.Tuple, ast.Dict, ast.ListComp)
            l_str = isinstance(n.left, ast.Constant) and isinstance(n.left.value, str)
            r_str = isinstance(n.right, ast.Constant) and isinstance(n.right.value, str)
            if l_str or r_str or isinstance(n.left, bad[1:]) or isinstance(n.right, bad[1:]):
                return n
            n.left, n.right = n.right, n.left
        return n


class FlipCmp(ast.NodeTransformer):
    def visit_Compare(self, n):
        self.generic_visit(n)
        if len(n.ops) == 1 and isinstance(n.ops[0], (ast.Lt, ast.LtE, ast.Gt, ast.GtE)):
            flip = {ast.Lt: ast.Gt, ast.LtE: ast.GtE, ast.Gt: ast.Lt, ast.GtE: ast.LtE}[type(n.ops[0])]
            n.left, n.comparators = n.comparators[0], [n.left]
            n.ops = [flip()]
        return n


class Ident(ast.NodeTransformer):
    pass


class LogLines(ast.NodeTransformer):
    """a `logger.debug(...)` line after every simple statement of every function that lives in a module importing logger"""

    def __init__(self):
        self.has_logger = False

    def visit_Module(self, m):
        self.has_logger = any(isinstance(n, ast.ImportFrom) and any(a.name == "logger" for a in n.names) for n in m.body)
        self.generic_visit(m)
        return m

    def _pad(self, body):
        out = []
        for st in body:
            out.append(st)
            if isinstance(st, (ast.Assign, ast.AugAssign, ast.AnnAssign)) or (isinstance(st, ast.Expr) and isinstance(st.value, ast.Call)):
                out.append(ast.parse('logger.debug("trace")').body[0])
        return out

    def visit_FunctionDef(self, fn):
        self.generic_visit(fn)
        if self.has_logger and not any(isinstance(d, ast.Name) and d.id == "property" for d in fn.decorator_list):
            traced = any(isinstance(n, ast.Attribute) and isinstance(n.value, ast.Name) and n.value.id == "jax" for n in ast.walk(fn))
            if not traced:  # keep jit-traced kernels free of side effects
                fn.body = self._pad(fn.body)
                for n in ast.walk(fn):
                    if isinstance(n, (ast.For, ast.If, ast.With)) and n is not fn:
                        n.body = self._pad(n.body)
        return fn


class ReturnViaLocal(ast.NodeTransformer):
    """`return <expr>` becomes `result_ = <expr>; return result_` (non-trivial expressions only)"""

    def _rewrite(self, body):
        out = []
        for st in body:
            if isinstance(st, ast.Return) and st.value is not None and not isinstance(st.value, (ast.Name, ast.Constant)):
                out.append(ast.Assign(targets=[ast.Name(id="result_", ctx=ast.Store())], value=st.value))
                out.append(ast.Return(value=ast.Name(id="result_", ctx=ast.Load())))
            else:
                out.append(st)
        return out

    def visit_FunctionDef(self, fn):
        self.generic_visit(fn)
        for n in ast.walk(fn):
            if isinstance(n, ast.Lambda):
                continue
            for fld in ("body", "orelse", "finalbody"):
                b = getattr(n, fld, None)
                if isinstance(b, list) and b and isinstance(b[0], ast.stmt):
                    setattr(n, fld, self._rewrite(b))
        return fn


class AliasSelf(ast.NodeTransformer):
    """`x_ = self.x` at the top of every non-kernel method for attributes that the method only reads; reads use the alias"""
    def visit_FunctionDef(self, fn):
        if not fn.args.args or fn.args.args[0].arg != "self" or fn.name.startswith("__"): return fn
        if any(isinstance(d, ast.Name) and d.id in ("property","classmethod","abstractmethod") for d in fn.decorator_list): return fn
        if any(isinstance(n,(ast.FunctionDef,ast.Lambda)) and n is not fn for n in ast.walk(fn)): return fn
        if any(isinstance(n, ast.Attribute) and isinstance(n.value, ast.Name) and n.value.id=="jax" for n in ast.walk(fn)): return fn
        written=set(); read={}
        for n in ast.walk(fn):
            if isinstance(n, ast.Attribute) and isinstance(n.value, ast.Name) and n.value.id=="self":
                if isinstance(n.ctx,(ast.Store,ast.Del)): written.add(n.attr)
                else: read.setdefault(n.attr,[]).append(n)
        # calls on self may write anything: only alias in functions without self-calls
        for n in ast.walk(fn):
            if isinstance(n, ast.Call) and isinstance(n.func, ast.Attribute) and isinstance(n.func.value, ast.Name) and n.func.value.id=="self": return fn
            if isinstance(n, ast.Call) and isinstance(n.func, ast.Attribute) and isinstance(n.func.value, ast.Call): return fn
        names=[a for a in read if a not in written]
        if not names: return fn
        class R(ast.NodeTransformer):
            def visit_Attribute(s, n):
                s.generic_visit(n)
                if isinstance(n.value, ast.Name) and n.value.id=="self" and n.attr in names and isinstance(n.ctx, ast.Load):
                    return ast.Name(id=n.attr+"_a", ctx=ast.Load())
                return n
        doc = fn.body[:1] if (fn.body and isinstance(fn.body[0], ast.Expr) and isinstance(fn.body[0].value, ast.Constant)) else []
        rest = fn.body[len(doc):]
        rest=[R().visit(s) for s in rest]
        pre=[ast.parse(f"{a}_a = self.{a}").body[0] for a in names]
        fn.body=doc+pre+rest
        return fn


class FlipIf(ast.NodeTransformer):
    """`if c: A else: B` becomes `if not c: B else: A`; an `if` without else gets a `pass` branch first"""

    def visit_If(self, n):
        self.generic_visit(n)
        test = n.test.operand if isinstance(n.test, ast.UnaryOp) and isinstance(n.test.op, ast.Not) else ast.UnaryOp(op=ast.Not(), operand=n.test)
        return ast.If(test=test, body=n.orelse or [ast.Pass()], orelse=n.body)


class HoistArg(ast.NodeTransformer):
    """`x = f(g(a), b)` becomes `tmp_ = g(a); x = f(tmp_, b)`: the first call-valued positional argument of a call that
    is the whole right-hand side / return value is evaluated into a temporary first (evaluation order is unchanged:
    it is hoisted only when everything evaluated before it is a plain name, attribute or constant)."""

    def __init__(self):
        self.k = 0

    def _simple(self, e):
        return isinstance(e, (ast.Name, ast.Constant)) or (isinstance(e, ast.Attribute) and self._simple(e.value))

    def _rewrite(self, body):
        out = []
        for st in body:
            self.generic_visit_stmt(st)
            if isinstance(st, (ast.Assign, ast.Return)) and isinstance(st.value, ast.Call) and self._simple(st.value.func) \
                    and not (isinstance(st.value.func, ast.Attribute) and isinstance(st.value.func.value, ast.Call)):
                call = st.value
                for i, a in enumerate(call.args):
                    if isinstance(a, ast.Starred):
                        break
                    if self._simple(a):
                        continue
                    if isinstance(a, ast.Call) and not any(isinstance(n, (ast.Lambda, ast.Yield, ast.Await)) for n in ast.walk(a)):
                        self.k += 1
                        name = f"tmp{self.k}_"
                        out.append(ast.copy_location(ast.Assign(targets=[ast.Name(id=name, ctx=ast.Store())], value=a), st))
                        call.args[i] = ast.Name(id=name, ctx=ast.Load())
                    break
            out.append(st)
        return out

    def generic_visit_stmt(self, st):
        for field in ("body", "orelse", "finalbody"):
            v = getattr(st, field, None)
            if isinstance(v, list) and v and isinstance(v[0], ast.stmt) and not isinstance(st, ast.ClassDef):
                setattr(st, field, self._rewrite(v))
        if isinstance(st, ast.Try):
            for h in st.handlers:
                h.body = self._rewrite(h.body)
        if isinstance(st, ast.ClassDef):
            for b in st.body:
                self.generic_visit_stmt(b)

    def visit_Module(self, m):
        for b in m.body:
            self.generic_visit_stmt(b)
        return m


class InlineTemp(ast.NodeTransformer):
    """`t = <expr>; x = f(t)` (adjacent statements, t a local used nowhere else in the function) becomes `x = f(<expr>)`
    when t is the first thing the second statement evaluates apart from names / constants."""

    def visit_FunctionDef(self, fn):
        self.generic_visit(fn)
        uses = {}
        for n in ast.walk(fn):
            if isinstance(n, ast.Name):
                uses[n.id] = uses.get(n.id, 0) + 1

        def first_eval_name(e):
            # the value position evaluated first: leftmost positional argument chain
            if isinstance(e, ast.Call) and isinstance(e.func, (ast.Name, ast.Attribute)) and not (isinstance(e.func, ast.Attribute) and not HoistArg()._simple(e.func.value)):
                for a in e.args:
                    if isinstance(a, ast.Name):
                        return a
                    if isinstance(a, ast.Constant):
                        continue
                    return None
            return None

        def rewrite(body):
            out = []
            i = 0
            while i < len(body):
                st = body[i]
                for field in ("body", "orelse", "finalbody"):
                    v = getattr(st, field, None)
                    if isinstance(v, list) and v and isinstance(v[0], ast.stmt) and not isinstance(st, (ast.FunctionDef, ast.ClassDef)):
                        setattr(st, field, rewrite(v))
                nxt = body[i + 1] if i + 1 < len(body) else None
                if (isinstance(st, ast.Assign) and len(st.targets) == 1 and isinstance(st.targets[0], ast.Name)
                        and uses.get(st.targets[0].id) == 2 and isinstance(nxt, (ast.Assign, ast.Return)) and nxt.value is not None
                        and not any(isinstance(n, (ast.Lambda, ast.Yield, ast.Await, ast.NamedExpr)) for n in ast.walk(st.value))):
                    nm = first_eval_name(nxt.value)
                    if nm is not None and nm.id == st.targets[0].id and nm is nxt.value.args[0]:
                        nxt.value.args[0] = st.value
                        i += 1
                        continue
                out.append(st)
                i += 1
            return out

        fn.body = rewrite(fn.body)
        return fn


class ExtractMethod(ast.NodeTransformer):
    """extract-method refactoring, mechanically: in every method with enough statements, a contiguous run of simple
    top-level statements moves into a new private method `_extracted<k>_(self, <locals it reads>)` that returns the
    locals it (re)binds and that are used afterwards; the original site becomes a call."""

    def __init__(self):
        self.k = 0

    @staticmethod
    def _names(nodes, ctx):
        return {n.id for r in nodes for n in ast.walk(r) if isinstance(n, ast.Name) and isinstance(n.ctx, ctx)}

    def visit_ClassDef(self, c):
        new_methods = []
        for fn in [b for b in c.body if isinstance(b, ast.FunctionDef)]:
            if not fn.args.args or fn.args.args[0].arg != "self" or fn.decorator_list or fn.name.startswith("__"):
                continue
            body = fn.body
            start = 1 if body and isinstance(body[0], ast.Expr) and isinstance(body[0].value, ast.Constant) else 0
            simple = lambda st: isinstance(st, (ast.Assign, ast.AugAssign, ast.Expr)) and not any(
                isinstance(n, (ast.Yield, ast.YieldFrom, ast.Await, ast.Lambda, ast.NamedExpr, ast.Starred)) or
                (isinstance(n, ast.Call) and isinstance(n.func, ast.Name) and n.func.id in ("super", "locals"))
                for n in ast.walk(st))
            # the longest run (max 3) of simple statements that is not the whole body
            best = None
            i = start
            while i < len(body):
                j = i
                while j < len(body) and j - i < 3 and simple(body[j]):
                    j += 1
                if j - i >= 2 and (best is None or j - i > best[1] - best[0]) and not (i == start and j == len(body)):
                    best = (i, j)
                i = max(j, i + 1)
            if best is None:
                continue
            i, j = best
            block, before, after = body[i:j], body[start:i], body[j:]
            params = {a.arg for a in fn.args.args + fn.args.kwonlyargs}
            bound_before = params | self._names(before, ast.Store)
            for st in before:
                for n in ast.walk(st):
                    if isinstance(n, (ast.For, ast.comprehension)):
                        bound_before |= self._names([n.target], ast.Store)
            reads = self._names(block, ast.Load)
            writes = self._names(block, ast.Store)
            if any(isinstance(n, ast.AugAssign) and isinstance(n.target, ast.Name) for st in block for n in ast.walk(st)):
                continue
            # a local read before it is written inside the block must come in as a parameter
            ins = sorted((reads & bound_before) - {"self"})
            first_write_before_read = True
            seen_w = set()
            for st in block:
                r_ = self._names([st.value] if hasattr(st, "value") else [st], ast.Load)
                if (r_ & writes) - seen_w - set(ins):
                    first_write_before_read = False
                seen_w |= self._names([st], ast.Store)
            if not first_write_before_read:
                continue
            outs = sorted(writes & (self._names(after, ast.Load) | set()))
            if any(isinstance(n, (ast.Return,)) for st in after for n in ast.walk(st) if isinstance(n, ast.Return) and n.value is not None and False):
                continue
            self.k += 1
            name = f"_extracted_{c.name}_{self.k}_"
            ret = ast.Return(value=ast.Tuple(elts=[ast.Name(id=o, ctx=ast.Load()) for o in outs], ctx=ast.Load())) if len(outs) > 1 else \
                (ast.Return(value=ast.Name(id=outs[0], ctx=ast.Load())) if outs else None)
            helper = ast.FunctionDef(name=name, args=ast.arguments(posonlyargs=[], args=[ast.arg(arg="self")] + [ast.arg(arg=a) for a in ins],
                                                                 kwonlyargs=[], kw_defaults=[], defaults=[]),
                                     body=list(block) + ([ret] if ret else []), decorator_list=[], lineno=block[0].lineno, col_offset=fn.col_offset)
            call = ast.Call(func=ast.Attribute(value=ast.Name(id="self", ctx=ast.Load()), attr=name, ctx=ast.Load()),
                            args=[ast.Name(id=a, ctx=ast.Load()) for a in ins], keywords=[])
            if len(outs) > 1:
                site = ast.Assign(targets=[ast.Tuple(elts=[ast.Name(id=o, ctx=ast.Store()) for o in outs], ctx=ast.Store())], value=call)
            elif outs:
                site = ast.Assign(targets=[ast.Name(id=outs[0], ctx=ast.Store())], value=call)
            else:
                site = ast.Expr(value=call)
            site = ast.copy_location(site, block[0])
            fn.body = body[:i] + [site] + after
            new_methods.append(helper)
        c.body.extend(new_methods)
        return c


PRIVATE_ATTRS: set[str] = set()


def _collect_private_attrs(root):
    """names of private DATA attributes: assigned through `self._x = ...` somewhere and never defined as a method / property"""
    PRIVATE_ATTRS.clear()
    methods = set()
    assigned = set()
    for f in sorted((root / "src" / "mdpax").rglob("*.py")):
        tree = ast.parse(f.read_text())
        for n in ast.walk(tree):
            if isinstance(n, ast.FunctionDef):
                methods.add(n.name)
            elif isinstance(n, ast.Attribute) and isinstance(n.ctx, ast.Store) and isinstance(n.value, ast.Name) and n.value.id == "self" \
                    and n.attr.startswith("_") and not n.attr.startswith("__"):
                assigned.add(n.attr)
            elif isinstance(n, ast.Constant) and isinstance(n.value, str) and n.value.startswith("_"):
                methods.add(n.value)  # names used through getattr / hasattr strings stay
    PRIVATE_ATTRS.update(assigned - methods)
    # a recorded known finding is identified by the attribute it sits on: renaming that attribute makes it a differently
    # identified (unlisted) finding by the rules of the interface, so those names are left alone
    from ..report import load_known_findings
    for k in load_known_findings().get("known", []):
        PRIVATE_ATTRS.discard(str(k.get("construct", "")).split(".")[-1])


class RenamePrivateAttrs(ast.NodeTransformer):
    """every private data attribute `self._x` (never a method, never named in a string) becomes `self._x_r` everywhere"""

    def visit_Attribute(self, n):
        self.generic_visit(n)
        if n.attr in PRIVATE_ATTRS:
            n.attr = n.attr + "_r"
        return n


SIGS: dict[str, list[str] | None] = {}


def _collect_sigs(root):
    SIGS.clear()
    for f in sorted((root / "src" / "mdpax").rglob("*.py")):
        for c in ast.walk(ast.parse(f.read_text())):
            if isinstance(c, ast.ClassDef):
                for fn in c.body:
                    if isinstance(fn, ast.FunctionDef) and fn.args.args and fn.args.args[0].arg == "self":
                        if fn.args.vararg or fn.args.kwarg or fn.args.posonlyargs or fn.decorator_list:
                            SIGS[fn.name] = None
                            continue
                        names = [a.arg for a in fn.args.args[1:]]
                        if fn.name in SIGS and SIGS[fn.name] != names:
                            SIGS[fn.name] = None
                        else:
                            SIGS.setdefault(fn.name, names)


class KeywordArgs(ast.NodeTransformer):
    """`self.m(a, b)` becomes `self.m(x=a, y=b)` with the parameter names of m (all definitions of m agree)"""

    def visit_Call(self, n):
        self.generic_visit(n)
        f = n.func
        if isinstance(f, ast.Attribute) and isinstance(f.value, ast.Name) and f.value.id == "self" and n.args \
                and not any(isinstance(a, ast.Starred) for a in n.args):
            names = SIGS.get(f.attr)
            if names and len(n.args) <= len(names) and not ({k.arg for k in n.keywords} & set(names[:len(n.args)])):
                n.keywords = [ast.keyword(arg=names[i], value=a) for i, a in enumerate(n.args)] + n.keywords
                n.args = []
        return n


TRANSFORMS = {"T13": RenamePrivateAttrs, "T12": ExtractMethod, "T10": HoistArg, "T11": InlineTemp, "T8": FlipIf, "T9": KeywordArgs, "T7": AliasSelf, "T1": Rename, "T2": Commute, "T3": FlipCmp, "T4": Ident, "T5": LogLines, "T6": ReturnViaLocal}


def overlay_for(tname, root):
    ov = {}
    if tname == "T9":
        _collect_sigs(root)
    if tname == "T13":
        _collect_private_attrs(root)
    for f in sorted((root / "src" / "mdpax").rglob("*.py")):
        tree = ast.parse(f.read_text())
        tree = TRANSFORMS[tname]().visit(tree)
        ast.fix_missing_locations(tree)
        src = ast.unparse(tree) + "\n"
        compile(src, str(f), "exec")
        ov[str(f.relative_to(root))] = src
    return ov




def run_transform(args):
    from ..cli import analyse
    from ..loader import AnalysisError, Repo
    from ..report import load_known_findings, match_known

    tname, prop, root = args
    root = Path(root)
    known = load_known_findings().get("known", [])
    try:
        col = analyse(prop, Repo(root, overlay_for(tname, root)))
    except AnalysisError as e:
        return tname, prop, "analysis-error", str(e)[:200]
    fails = [f for f in col.failures() if match_known(f, prop, known) is None]
    if fails:
        return tname, prop, "FALSE-ALARM", "; ".join(f"{f.rule} {f.construct}: {f.detail[:120]}" for f in fails[:3])
    return tname, prop, "silent", ""
