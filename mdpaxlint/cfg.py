"""Statement-level control-flow graph for one function, with dominators, post-dominators,
avoid-reachability and bounded path enumeration.

Nodes are simple statements plus one node per branch condition (`test`), loop header
(`iter`), `with` entry and `except` clause.  Edge labels: T / F for tests, body / exit for
loop headers, exc for edges into exception handlers, '' otherwise."""

from __future__ import annotations

import ast

from .loader import AnalysisError


class Node:
    __slots__ = ("id", "kind", "ast", "succ", "pred", "loop", "depth")

    def __init__(self, nid: int, kind: str, node: ast.AST | None):
        self.id = nid
        self.kind = kind  # entry exit raise stmt test iter with except
        self.ast = node
        self.succ: list[tuple["Node", str]] = []
        self.pred: list[tuple["Node", str]] = []
        self.loop: "Node | None" = None  # innermost enclosing loop header
        self.depth = 0

    @property
    def lineno(self) -> int:
        return getattr(self.ast, "lineno", 0)

    def __repr__(self) -> str:
        return f"<{self.kind}#{self.id} L{self.lineno}>"


class CFG:
    def __init__(self, fn: ast.FunctionDef):
        self.fn = fn
        self.nodes: list[Node] = []
        self.entry = self._new("entry", None)
        self.exit = self._new("exit", None)  # normal return / fall off the end
        self.raise_exit = self._new("raise", None)  # uncaught raise
        self._loops: list[tuple[Node, list]] = []  # (header, break frontier)
        self._handlers: list[list[Node]] = []
        frontier = self._block(fn.body, [(self.entry, "")])
        for n, lab in frontier:
            self._edge(n, self.exit, lab)
        self._dom = None
        self._pdom = None

    # ------------------------------------------------------------ construction
    def _new(self, kind: str, node) -> Node:
        n = Node(len(self.nodes), kind, node)
        if getattr(self, "_loops", None):
            n.loop = self._loops[-1][0]
            n.depth = len(self._loops)
        self.nodes.append(n)
        if getattr(self, "_handlers", None) and kind in ("stmt", "test", "iter", "with"):
            for h in self._handlers[-1]:
                self._edge(n, h, "exc")
        return n

    def _edge(self, a: Node, b: Node, label: str) -> None:
        if (b, label) not in a.succ:
            a.succ.append((b, label))
            b.pred.append((a, label))

    def _connect(self, frontier, node: Node) -> None:
        for n, lab in frontier:
            self._edge(n, node, lab)

    def _block(self, stmts, frontier):
        for s in stmts:
            if not frontier:
                break  # unreachable code after return/raise/break
            frontier = self._stmt(s, frontier)
        return frontier

    def _stmt(self, s, frontier):
        if isinstance(s, ast.If):
            t = self._new("test", s)
            self._connect(frontier, t)
            f1 = self._block(s.body, [(t, "T")])
            f2 = self._block(s.orelse, [(t, "F")]) if s.orelse else [(t, "F")]
            return f1 + f2
        if isinstance(s, (ast.For, ast.While)):
            h = self._new("iter", s)
            self._connect(frontier, h)
            self._loops.append((h, []))
            body_end = self._block(s.body, [(h, "body")])
            self._connect(body_end, h)
            _, breaks = self._loops.pop()
            out = [(h, "exit")]
            if s.orelse:
                out = self._block(s.orelse, out)
            return out + breaks
        if isinstance(s, ast.Break):
            n = self._new("stmt", s)
            self._connect(frontier, n)
            if not self._loops:
                raise AnalysisError("break outside loop")
            self._loops[-1][1].append((n, ""))
            return []
        if isinstance(s, ast.Continue):
            n = self._new("stmt", s)
            self._connect(frontier, n)
            self._edge(n, self._loops[-1][0], "")
            return []
        if isinstance(s, ast.Return):
            n = self._new("stmt", s)
            self._connect(frontier, n)
            self._edge(n, self.exit, "")
            return []
        if isinstance(s, ast.Raise):
            n = self._new("stmt", s)
            self._connect(frontier, n)
            if self._handlers:
                pass  # exc edges already added by _new
            else:
                self._edge(n, self.raise_exit, "")
            return []
        if isinstance(s, ast.With):
            n = self._new("with", s)
            self._connect(frontier, n)
            return self._block(s.body, [(n, "")])
        if isinstance(s, ast.Try):
            handlers = [self._new("except", h) for h in s.handlers]
            self._handlers.append(handlers)
            f = self._block(s.body, frontier)
            self._handlers.pop()
            if s.orelse:
                f = self._block(s.orelse, f)
            out = list(f)
            for hn, h in zip(handlers, s.handlers):
                out += self._block(h.body, [(hn, "")])
            if s.finalbody:
                out = self._block(s.finalbody, out)
            return out
        if isinstance(s, (ast.FunctionDef, ast.ClassDef, ast.AsyncFunctionDef)):
            n = self._new("stmt", s)  # a definition is a simple statement here
            self._connect(frontier, n)
            return [(n, "")]
        n = self._new("stmt", s)
        self._connect(frontier, n)
        return [(n, "")]

    # ----------------------------------------------------------------- queries
    def stmts(self, pred=None) -> list[Node]:
        return [
            n
            for n in self.nodes
            if n.kind in ("stmt", "test", "iter", "with", "except")
            and (pred is None or pred(n))
        ]

    def _dominators(self, root: Node, succ=True) -> dict[int, set[int]]:
        ids = [n.id for n in self.nodes]
        reach = self._reach_from(root, succ)
        dom = {i: set(reach) for i in reach}
        dom[root.id] = {root.id}
        changed = True
        order = [n for n in self.nodes if n.id in reach]
        while changed:
            changed = False
            for n in order:
                if n is root:
                    continue
                preds = [p.id for p, _ in (n.pred if succ else n.succ) if p.id in reach]
                new = set.intersection(*(dom[p] for p in preds)) if preds else set()
                new = new | {n.id}
                if new != dom[n.id]:
                    dom[n.id] = new
                    changed = True
        for i in ids:
            dom.setdefault(i, set())
        return dom

    def _reach_from(self, root: Node, succ=True) -> set[int]:
        seen = {root.id}
        stack = [root]
        while stack:
            n = stack.pop()
            for m, _ in n.succ if succ else n.pred:
                if m.id not in seen:
                    seen.add(m.id)
                    stack.append(m)
        return seen

    def dominates(self, a: Node, b: Node) -> bool:
        """Every path from entry to b passes a."""
        if self._dom is None:
            self._dom = self._dominators(self.entry, True)
        return a.id in self._dom[b.id]

    def postdominates(self, a: Node, b: Node) -> bool:
        """Every path from b to the *normal* exit passes a (paths that raise are ignored).
        False when b cannot reach the normal exit at all."""
        if self._pdom is None:
            self._pdom = self._dominators(self.exit, False)
        return a.id in self._pdom[b.id]

    def reachable_avoiding(self, start: Node, goal: Node, avoid) -> bool:
        """Is there a path start -> goal (length >= 1) none of whose *interior* nodes
        satisfies `avoid`?"""
        seen = set()
        stack = [m for m, _ in start.succ]
        while stack:
            n = stack.pop()
            if n.id in seen:
                continue
            seen.add(n.id)
            if n is goal:
                return True
            if avoid(n):
                continue
            stack.extend(m for m, _ in n.succ)
        return False

    def paths(self, start: Node, stop, limit: int = 4000, through_exc=False):
        """All simple paths from `start` to the first node satisfying `stop` (exclusive of
        nothing: the stop node is the last element).  Each path is a list of (node, label of
        the edge taken *out of* that node, '' for the last).  A node is visited at most once
        per path, so loops are traversed zero or one time."""
        out = []
        path: list[tuple[Node, str]] = []
        onpath: set[int] = set()

        def rec(n: Node):
            if len(out) > limit:
                raise AnalysisError(f"path explosion in {self.fn.name}")
            if stop(n) and path:
                out.append(path + [(n, "")])
                return
            if n.id in onpath:
                return
            onpath.add(n.id)
            for m, lab in n.succ:
                if lab == "exc" and not through_exc:
                    continue
                path.append((n, lab))
                rec(m)
                path.pop()
            onpath.discard(n.id)

        rec(start)
        return out

    def loop_body_paths(self, header: Node, limit: int = 4000):
        """Paths through one iteration of the loop `header`: from the header (label body) to
        (a) the header again ('continue'), (b) a node outside the loop ('break' when reached
        from a Break statement, 'exit' via return/raise).  Returns [(kind, [(node,label)...])].
        Inner loops are traversed zero or one time."""
        inside = self.loop_members(header)
        results = []
        path: list[tuple[Node, str]] = []
        onpath: set[int] = set()

        def rec(n: Node):
            if len(results) > limit:
                raise AnalysisError(f"path explosion in loop of {self.fn.name}")
            if n is header and path:
                results.append(("continue", list(path)))
                return
            if n.id not in inside and n is not header:
                last = path[-1][0]
                kind = "break" if isinstance(last.ast, ast.Break) else (
                    "return" if n is self.exit else ("raise" if n is self.raise_exit else "leave")
                )
                results.append((kind, list(path)))
                return
            if n.id in onpath:
                return
            onpath.add(n.id)
            for m, lab in n.succ:
                if n is header and lab != "body":
                    continue
                if lab == "exc":
                    continue
                path.append((n, lab))
                rec(m)
                path.pop()
            onpath.discard(n.id)

        rec(header)
        return results

    def loop_members(self, header: Node) -> set[int]:
        ids = set()
        for n in self.nodes:
            k = n.loop
            while k is not None:
                if k is header:
                    ids.add(n.id)
                    break
                k = k.loop
        return ids

    def after_loop(self, header: Node) -> list[Node]:
        """Nodes that control reaches when the loop is left (exhaustion or break)."""
        inside = self.loop_members(header)
        out = []
        for n in [header] + [self.nodes[i] for i in inside]:
            for m, lab in n.succ:
                if m is header or m.id in inside:
                    continue
                if n is header and lab != "exit":
                    continue
                if m not in out:
                    out.append(m)
        return out

    def node_of(self, stmt: ast.AST) -> Node | None:
        for n in self.nodes:
            if n.ast is stmt:
                return n
        return None


_cache: dict[int, CFG] = {}


def cfg_of(fn: ast.FunctionDef) -> CFG:
    c = _cache.get(id(fn))
    if c is None or c.fn is not fn:
        c = CFG(fn)
        _cache[id(fn)] = c
    return c
