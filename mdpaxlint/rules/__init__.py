"""Property-specific rule sets.  Each module cNN exposes PROP, EXPLANATION, RULES,
ASSUMPTIONS and run(ctx, col)."""
