"""C07 - periodic value iteration: plain VI iterates with the documented period-span stop."""

from __future__ import annotations

import ast

from ..interp import Unsupported, fresh
from ..loader import AnalysisError
from ..terms import (
    INF,
    K,
    S,
    T_add,
    T_cmp,
    T_mod,
    T_mul,
    T_neg,
    T_sub,
    ZERO,
    alpha_norm,
    mod_equiv,
    show_norm,
    subterms,
)
from .common import Context
from .solverterms import GAMMA, VALUES, brief, same, solver_interp, span_of

PROP = "C07"
EXPLANATION = (
    "PeriodicValueIteration has no runnable test (its only test needs 117 GB), so every line specific "
    "to it is otherwise unchecked.  Its measure functions are abstractly interpreted into one term "
    "ite(n < P, inf, ite(g == 1, span(NEW - H[slot]), span(sum_{p<P} (H[h-p] - H[h-p-1]) * g^-(n-p-1)))) "
    "and compared with the documented measure: every circular-buffer modulus is the term period+1 (the "
    "buffer's own first dimension), the undiscounted comparison slot is congruent to h - period, the "
    "discount exponent is n-p-1, the warm-up guard is the strict n < period with n counting the current "
    "sweep, the history store precedes the test and the seven actual arguments bind to the seven formals "
    "by role, and the sweep is term-identical to ValueIteration's.  Does not decide the average-reward "
    "conclusion for periodic chains."
)
RULES = {
    "R7.1": "the history buffer has period+1 rows and every index modulus in the step and the measure is that same period+1",
    "R7.2": "undiscounted: the compared slot is congruent to history_index - period modulo period+1 (values from exactly one period ago)",
    "R7.3": "discounted: measure == span( sum_{p<period} (H[h-p] - H[h-p-1]) / gamma^(n-p-1) )",
    "R7.4": "warm-up: measure is +inf iff n < period (strict), with n counting the current sweep (increment precedes the step)",
    "R7.5": "the undiscounted formula is used iff gamma == 1",
    "R7.6": "index advance and history store precede the convergence call, whose 7 arguments bind to the formals by role",
    "R7.7": "PVI overrides no kernel method and its sweep term equals ValueIteration's",
    "R7.8": "the buffer starts as zeros with row 0 = initial values and history_index = 0",
}
ASSUMPTIONS = [
    "NumPy/JAX array constructors (np.array, jnp.array, np.zeros_like) are value-transparent",
    "the solve loop of PVI follows the shared shape decided under C08 (threshold epsilon, strict <)",
]

KERNEL_METHODS = [
    "_get_value_next_state", "_calculate_updated_state_action_value", "_calculate_updated_value",
    "_calculate_updated_value_state_batch", "_calculate_updated_value_scan_state_batches", "_update_values",
    "_extract_policy", "_extract_policy_idx_one_state", "_extract_policy_idx_state_batch",
    "_extract_policy_idx_scan_state_batches", "_setup_jax_functions", "_get_span", "_unbatch_results",
]


def run(ctx: Context, col) -> None:
    """The rule groups are independent: one that cannot be decided (ANALYSIS-ERROR) does not keep the others from being
    decided and reported."""
    cls = ctx.ct.get("PeriodicValueIteration")
    file = cls.module.relpath
    errors = []
    for part in (_measure, _step, _order_and_sweep, _initial_history):
        try:
            part(ctx, col, cls, file)
        except AnalysisError as e:
            errors.append(str(e))
    if errors:
        raise AnalysisError("; ".join(errors))
    for r_, k in (("R7.1", 2), ("R7.2", 1), ("R7.3", 1), ("R7.4", 2), ("R7.5", 1), ("R7.6", 1), ("R7.7", 1), ("R7.8", 1)):
        col.floor(r_, k)


def _measure(ctx, col, cls, file):
    I = solver_interp(ctx, cls, "span")
    I.axes.update({"NEW": ("state",), "OLD": ("state",), "HIST": ("hist", "state")})
    NEW, OLD, h, P, H, n, g = S("NEW"), S("OLD"), S("h"), S("P"), S("HIST"), S("n"), S("g")
    owner, fn = ctx.ct.require(cls, "_get_periodic_span")
    try:
        t = I.call_method("_get_periodic_span", [NEW, OLD, h, P, H, n, g])
    except Unsupported as e:
        raise AnalysisError(f"PeriodicValueIteration._get_periodic_span: {e}") from e
    col.saw("terms", "measure = " + show_norm(t)[:400])
    Pp1 = T_add(P, K(1))

    # --- structure: ite(n < P, inf, ite(g == 1, UNDISC, DISC))
    ok4 = t[0] == "ite" and t[1] == T_cmp("Lt", n, P) and t[2] == INF
    col.add("R7.4", "PeriodicValueIteration._get_periodic_span", file, fn.lineno, ok4,
            "measure is +inf exactly while n < period" if ok4 else
            f"warm-up guard is `{show_norm(t[1]) if t[0] == 'ite' else show_norm(t)[:80]}` returning {show_norm(t[2]) if t[0] == 'ite' else '?'} "
            "(documented: never before a full period has elapsed, i.e. inf iff n < period)", text="warm-up guard")
    inner = t[3] if t[0] == "ite" else t
    ok5 = inner[0] == "ite" and inner[1] == T_cmp("Eq", g, K(1))
    col.add("R7.5", "PeriodicValueIteration._get_periodic_span", file, fn.lineno, ok5,
            "undiscounted formula iff gamma == 1" if ok5 else f"branch condition is {show_norm(inner[1]) if inner[0] == 'ite' else None}",
            text="gamma == 1 branch")
    undisc = inner[2] if ok5 else None
    disc = inner[3] if ok5 else None
    if not ok5:
        for r_, what in (("R7.2", "undiscounted"), ("R7.3", "discounted")):
            col.add(r_, "PeriodicValueIteration._get_periodic_span", file, fn.lineno, False,
                    f"the {what} formula is not selected by `gamma == 1` / its complement, so it is not the documented measure for its case",
                    text=f"{what} measure selected by branch")

    # --- R7.1 moduli
    mods = [x for x in subterms(t) if x[0] == "app" and x[1] == "mod"]
    bad = [m for m in mods if m[2][1] != Pp1]
    col.add("R7.1", "PeriodicValueIteration._get_periodic_span", file, fn.lineno, not bad and len(mods) >= 3,
            f"all {len(mods)} distinct index moduli in the measure are period+1" if not bad and len(mods) >= 3 else
            (f"modulus {show_norm(bad[0][2][1])} in index {show_norm(bad[0])} is not period+1" if bad else f"only {len(mods)} moduli found"),
            text="measure moduli")

    # --- R7.2 undiscounted slot
    if undisc is not None:
        um = [x for x in subterms(undisc) if x[0] == "app" and x[1] == "mod"]
        ok2 = len({x for x in um}) == 1 and mod_equiv(um[0][2][0], T_sub(h, P), Pp1) and um[0][2][1] == Pp1
        want = span_of(I, NEW, I.elem(H, um[0])) if um else None
        ok2 = ok2 and want is not None and same(undisc, want)
        col.add("R7.2", "PeriodicValueIteration._calculate_period_span_without_discount", file,
                ctx.ct.require(cls, "_calculate_period_span_without_discount")[1].lineno, ok2,
                "span(NEW - H[slot]) with slot == history_index - period (mod period+1)" if ok2 else
                f"undiscounted measure is {brief(undisc, 220)}", text="undiscounted slot")
    # --- R7.3 discounted
    if disc is not None:
        v = fresh("sum")
        v = ("ix", "sum", v[2])
        cur = I.elem(H, T_mod(T_sub(h, v), Pp1))
        prev = I.elem(H, T_mod(T_sub(T_sub(h, v), K(1)), Pp1))
        scale = ("app", "pow", (g, T_neg(T_sub(T_sub(n, v), K(1)))))
        body = T_mul(T_sub(cur, prev), scale)
        total = ("sumover", v, P, body)
        want = I.arith("Sub", I.reduce("max", total), I.reduce("min", total))
        ok3 = same(disc, want)
        col.add("R7.3", "PeriodicValueIteration._calculate_period_span_with_discount", file,
                ctx.ct.require(cls, "_calculate_period_span_with_discount")[1].lineno, ok3,
                "span( sum_{p<period} (H[h-p] - H[h-p-1]) * gamma^-(n-p-1) )" if ok3 else
                f"discounted measure is {brief(disc, 300)}; documented: {brief(want, 200)}", text="discounted measure")



def _history_is_plain(ctx, cls):
    """R7.1 / R7.6 / R7.8 read `self.value_history` / `self.history_index` as plain attributes of the solver; when they are
    properties (e.g. delegating to a collaborator object) the buffer lives elsewhere and these rules cannot follow it."""
    for a in ("value_history", "history_index"):
        if ctx.ct.is_property(cls, a):
            raise AnalysisError(f"PeriodicValueIteration.{a} is a property, not a plain attribute: the history buffer is kept behind it "
                                "(collaborator object?); R7.1 / R7.6 / R7.8 cannot be decided")


def _step(ctx, col, cls, file):
    _history_is_plain(ctx, cls)
    NEW, OLD, h, P, H, n, g = S("NEW"), S("OLD"), S("h"), S("P"), S("HIST"), S("n"), S("g")
    # --- R7.6 the step
    I2 = solver_interp(ctx, cls, "span", extra_facts={
        "history_index": S("HIDX"), "value_history": S("HIST"), "period": S("self.period")})
    I2.axes.update({"HIST": ("hist", "state")})
    so, sfn = ctx.ct.require(cls, "_iteration_step")
    try:
        r = I2.call_method("_iteration_step")
    except Unsupported as e:
        raise AnalysisError(f"PeriodicValueIteration._iteration_step: {e}") from e
    new, conv = r[1]
    Pself = S("self.period")
    h2 = T_mod(T_add(S("HIDX"), K(1)), T_add(Pself, K(1)))
    H2 = ("scatter", S("HIST"), h2, new)
    ok_h = I2.attrs.get("history_index") == h2
    ok_H = I2.attrs.get("value_history") == H2
    col.add("R7.1", "PeriodicValueIteration._iteration_step", file, sfn.lineno, ok_h,
            "history_index advances modulo period+1" if ok_h else f"history_index becomes {show_norm(I2.attrs.get('history_index'))}",
            text="index advance modulus")
    I3 = solver_interp(ctx, cls, "span")
    I3.axes.update({"HIST": ("hist", "state")})
    want_conv = I3.call_method("_get_periodic_span", [new, VALUES, h2, Pself, H2, S("ITER"), GAMMA])
    ok6 = ok_h and ok_H and same(conv, want_conv)
    col.add("R7.6", "PeriodicValueIteration._iteration_step", file, sfn.lineno, ok6,
            "measure(new, self.values, advanced index, period, history incl. the new row, self.iteration, self.gamma)" if ok6 else
            ("history row is not stored at the advanced index before the test" if not ok_H else
             "the seven convergence arguments do not bind to the formals by role: " + brief(conv, 200)), text="convergence call binding")


def _order_and_sweep(ctx, col, cls, file):
    # n counts the current sweep: INC precedes STEP in solve on every path
    loop = ctx.solve_loop(cls)
    ok_n = True
    for kind, p in loop.body_paths():
        evs = loop.events(p)
        kinds = [e.kind for e in evs if e.kind in ("INC", "STEP")]
        if kinds[:2] != ["INC", "STEP"]:
            ok_n = False
    col.add("R7.4", "PeriodicValueIteration.solve", loop.file, loop.header.lineno, ok_n,
            "self.iteration is incremented before the step, so n counts the current sweep" if ok_n else
            "the step reads self.iteration before it is incremented: the warm-up ends one sweep late and the discount exponent is off by one",
            text="increment before step")
    # R7.7
    vi = ctx.ct.get("ValueIteration")
    overridden = [m for m in KERNEL_METHODS if m in cls.methods]
    Iv_ = solver_interp(ctx, vi, "span")
    rv = Iv_.call_method("_iteration_step")
    I2 = solver_interp(ctx, cls, "span", extra_facts={
        "history_index": S("HIDX"), "value_history": S("HIST"), "period": S("self.period")})
    I2.axes.update({"HIST": ("hist", "state")})
    try:
        new = I2.call_method("_iteration_step")[1][0]
    except Unsupported as e:
        raise AnalysisError(f"PeriodicValueIteration._iteration_step: {e}") from e
    ok7 = not overridden and same(new, rv[1][0])
    col.add("R7.7", "PeriodicValueIteration", file, cls.node.lineno, ok7,
            "no kernel method overridden; sweep term == ValueIteration's" if ok7 else
            (f"overrides kernel methods {overridden}" if overridden else "sweep term differs from ValueIteration's"), text="sweep identical to VI")


def _initial_history(ctx, col, cls, file):
    _history_is_plain(ctx, cls)
    # R7.8
    I4 = solver_interp(ctx, cls, "span", extra_facts={"period": S("self.period")})
    I4.call_method("_initialize_solver_state_elements")
    vh = I4.attrs.get("value_history")
    init_vals = I4.attrs.get("values")
    zeros = ("app", "zeros", (("tuple", (T_add(S("self.period"), K(1)), S("problem.n_states"))),))
    ok8 = vh == ("scatter", zeros, ZERO, init_vals) and I4.attrs.get("history_index") == ZERO
    o8, f8 = ctx.ct.require(cls, "_initialize_solver_state_elements")
    col.add("R7.8", "PeriodicValueIteration._initialize_solver_state_elements", file, f8.lineno, ok8,
            "buffer = zeros((period+1, n_states)) with row 0 = initial values; history_index = 0" if ok8 else
            f"buffer starts as {brief(vh, 160) if vh else None}, index {show_norm(I4.attrs.get('history_index')) if I4.attrs.get('history_index') else None}",
            text="initial history")
