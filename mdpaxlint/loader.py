"""Parse every module of mdpax; import-alias tables; in-memory overlays for self-tests."""

from __future__ import annotations

import ast
import copy
import hashlib
import os
from pathlib import Path


class AnalysisError(Exception):
    """The analysis itself cannot be carried out (anchor vanished, unsupported construct,
    count floor missed).  Reported as ANALYSIS-ERROR / exit 2, never as a violation."""


def repo_root() -> Path:
    root = os.environ.get("MDPAX_REPO") or "/repo"
    p = Path(root)
    if not (p / "src" / "mdpax").is_dir():
        raise AnalysisError(f"no src/mdpax under repository root {root!r}")
    return p


_TERMINATORS = (ast.Raise, ast.Return, ast.Continue, ast.Break)


# exact complements (no NaN subtlety, unlike < / >=)
_COMPLEMENT = {ast.Is: ast.IsNot, ast.IsNot: ast.Is, ast.Eq: ast.NotEq, ast.NotEq: ast.Eq, ast.In: ast.NotIn, ast.NotIn: ast.In}


def _effect_free(e) -> bool:
    if isinstance(e, (ast.Name, ast.Constant)):
        return True
    if isinstance(e, ast.Attribute):
        return _effect_free(e.value)
    if isinstance(e, ast.UnaryOp):
        return _effect_free(e.operand)
    if isinstance(e, ast.BoolOp):
        return all(_effect_free(v) for v in e.values)
    if isinstance(e, ast.Compare):
        return _effect_free(e.left) and all(_effect_free(c) for c in e.comparators)
    if isinstance(e, ast.BinOp):
        return _effect_free(e.left) and _effect_free(e.right)
    return False


def _terminates(body) -> bool:
    return bool(body) and isinstance(body[-1], _TERMINATORS)


def _neg(test: ast.AST) -> ast.AST:
    if isinstance(test, ast.UnaryOp) and isinstance(test.op, ast.Not):
        return test.operand
    if isinstance(test, ast.Compare) and len(test.ops) == 1 and type(test.ops[0]) in _COMPLEMENT:
        return ast.copy_location(ast.Compare(left=test.left, ops=[_COMPLEMENT[type(test.ops[0])]()], comparators=test.comparators), test)
    return ast.copy_location(ast.UnaryOp(op=ast.Not(), operand=test), test)


class _Canon(ast.NodeTransformer):
    """Behaviour-preserving normal form of conditionals, applied to every module before analysis so that
    rules see one shape for equivalent spellings (line numbers are kept):
      not not X -> X;  `if not X: A else: B` -> `if X: B else: A`;  `if X: pass else: B` -> `if not X: B`;
      `if X: A else: <ends in raise/return/break/continue>` -> `if not X: <...>` followed by A (guard-clause form),
      and symmetrically when only the body terminates."""

    def visit_BoolOp(self, n):
        # constants fold: `False or X` -> X, `True or X` -> True, `True and X` -> X, `False and X` -> False
        self.generic_visit(n)
        is_or = isinstance(n.op, ast.Or)
        vals = []
        for v in n.values:
            if isinstance(v, ast.Constant) and isinstance(v.value, bool):
                if v.value == is_or:          # absorbing element: everything after it is never evaluated
                    vals.append(v)
                    break
                continue                      # neutral element
            vals.append(v)
        if not vals:
            return ast.copy_location(ast.Constant(value=not is_or), n)
        if isinstance(vals[-1], ast.Constant) and isinstance(vals[-1].value, bool) and vals[-1].value == is_or and len(vals) > 1:
            # `X and False` / `X or True`: X is evaluated first, but when it cannot have an effect (names, attributes,
            # comparisons and boolean combinations of those) the value is the constant
            if all(_effect_free(v) for v in vals[:-1]):
                return ast.copy_location(ast.Constant(value=is_or), n)
            n.values = vals
            return n
        if len(vals) == 1:
            return vals[0]
        n.values = vals
        return n

    def visit_UnaryOp(self, n):
        self.generic_visit(n)
        if isinstance(n.op, ast.Not) and isinstance(n.operand, ast.Constant) and isinstance(n.operand.value, bool):
            return ast.copy_location(ast.Constant(value=not n.operand.value), n)
        if isinstance(n.op, ast.Not) and isinstance(n.operand, ast.UnaryOp) and isinstance(n.operand.op, ast.Not):
            return n.operand.operand
        if isinstance(n.op, ast.Not) and isinstance(n.operand, ast.Compare) and len(n.operand.ops) == 1 and type(n.operand.ops[0]) in _COMPLEMENT:
            return _neg(n.operand)
        return n

    def _stmts(self, body):
        out = []
        for st in body:
            st = self.visit(st)
            if isinstance(st, ast.If):
                out.extend(self._canon_if(st))
            else:
                out.append(st)
        # `for ..: ... return E` followed directly by `return E` is `for ..: ... break` followed by `return E`
        for k in range(len(out) - 1):
            lp, nxt = out[k], out[k + 1]
            if isinstance(lp, (ast.For, ast.While)) and not lp.orelse and isinstance(nxt, ast.Return) and nxt.value is not None:
                want = ast.dump(nxt.value)
                lp.body = self._returns_to_breaks(lp.body, want)
        return out

    def _returns_to_breaks(self, body, want):
        new = []
        for st in body:
            if isinstance(st, ast.Return) and st.value is not None and ast.dump(st.value) == want:
                new.append(ast.copy_location(ast.Break(), st))
                continue
            if isinstance(st, ast.If):
                st.body = self._returns_to_breaks(st.body, want)
                st.orelse = self._returns_to_breaks(st.orelse, want)
            elif isinstance(st, (ast.With, ast.Try)):
                st.body = self._returns_to_breaks(st.body, want)
            new.append(st)
        return new

    def _canon_if(self, n: ast.If):
        if isinstance(n.test, ast.Constant) and isinstance(n.test.value, bool):
            return list(n.body) if n.test.value else list(n.orelse)  # a decided conditional is its live branch
        # `if c: A elif not c: B` (no final else): the second test is reached only when c is false, where - c being effect-free - it holds
        if len(n.orelse) == 1 and isinstance(n.orelse[0], ast.If) and not n.orelse[0].orelse and _effect_free(n.test) \
                and ast.dump(_neg(copy.deepcopy(n.test))) == ast.dump(n.orelse[0].test):
            n.orelse = list(n.orelse[0].body)
        if n.orelse and isinstance(n.test, ast.UnaryOp) and isinstance(n.test.op, ast.Not):
            n.test, n.body, n.orelse = n.test.operand, n.orelse, n.body
        if n.orelse and all(isinstance(x, ast.Pass) for x in n.body):
            n.test, n.body, n.orelse = _neg(n.test), n.orelse, []
        if n.orelse and all(isinstance(x, ast.Pass) for x in n.orelse):
            n.orelse = []
        if not n.orelse and all(isinstance(x, ast.Pass) for x in n.body) and _effect_free(n.test):
            return []  # nothing is done either way
        if n.orelse and _terminates(n.orelse) and not _terminates(n.body):
            rest = n.body
            n.test, n.body, n.orelse = _neg(n.test), n.orelse, []
            return [n] + rest
        if n.orelse and _terminates(n.body) and not _terminates(n.orelse):
            rest = n.orelse
            n.orelse = []
            return [n] + rest
        return [n]

    def generic_visit(self, node):
        for field in ("body", "orelse", "finalbody"):
            v = getattr(node, field, None)
            if isinstance(v, list) and v and isinstance(v[0], ast.stmt):
                setattr(node, field, self._stmts(v))
        for field, v in ast.iter_fields(node):
            if field in ("body", "orelse", "finalbody") and isinstance(v, list) and v and isinstance(v[0], ast.stmt):
                continue
            if isinstance(v, list):
                new = []
                for x in v:
                    if isinstance(x, ast.AST):
                        x = self.visit(x)
                        if x is None:
                            continue
                    new.append(x)
                v[:] = new
            elif isinstance(v, ast.AST):
                setattr(node, field, self.visit(v))
        return node


def canonical_tree(tree: ast.AST) -> ast.AST:
    from .canon import canonical_stmts

    return ast.fix_missing_locations(_Canon().visit(canonical_stmts(tree)))


class Module:
    def __init__(self, name: str, relpath: str, source: str):
        self.name = name  # dotted, e.g. mdpax.core.solver
        self.relpath = relpath  # relative to repo root
        self.source = source
        try:
            self.tree = canonical_tree(ast.parse(source))
        except SyntaxError as e:  # a variant that does not compile is not a valid program
            raise AnalysisError(f"{relpath}: does not parse: {e}") from e
        self.lines = source.splitlines()
        self.imports: dict[str, str] = {}  # local alias -> dotted target
        self.functions: dict[str, ast.FunctionDef] = {}
        self.classes: dict[str, ast.ClassDef] = {}
        self.globals: dict[str, ast.AST] = {}  # simple module-level assignments
        self._index()

    def _index(self) -> None:
        pkg = self.name.rsplit(".", 1)[0] if "." in self.name else self.name
        is_pkg = self.relpath.endswith("__init__.py")
        for node in self.tree.body:
            if isinstance(node, ast.Import):
                for a in node.names:
                    self.imports[a.asname or a.name.split(".")[0]] = (
                        a.name if a.asname else a.name.split(".")[0]
                    )
            elif isinstance(node, ast.ImportFrom):
                base = node.module or ""
                if node.level:
                    parts = (self.name if is_pkg else pkg).split(".")
                    up = node.level - 1
                    parts = parts[: len(parts) - up] if up else parts
                    base = ".".join(parts + ([node.module] if node.module else []))
                for a in node.names:
                    self.imports[a.asname or a.name] = f"{base}.{a.name}"
            elif isinstance(node, ast.FunctionDef):
                self.functions[node.name] = node
            elif isinstance(node, ast.ClassDef):
                self.classes[node.name] = node
            elif isinstance(node, ast.Assign) and len(node.targets) == 1:
                t = node.targets[0]
                if isinstance(t, ast.Name):
                    self.globals[t.id] = node.value
            elif isinstance(node, ast.AnnAssign) and isinstance(node.target, ast.Name):
                if node.value is not None:
                    self.globals[node.target.id] = node.value

    def line(self, lineno: int) -> str:
        if 1 <= lineno <= len(self.lines):
            return self.lines[lineno - 1].strip()
        return ""


class Repo:
    """All modules under <root>/src/mdpax, optionally with an overlay {relpath: source}."""

    def __init__(self, root: Path | None = None, overlay: dict[str, str] | None = None):
        self.root = Path(root) if root is not None else repo_root()
        self.overlay = dict(overlay or {})
        self.modules: dict[str, Module] = {}
        self.by_relpath: dict[str, Module] = {}
        src = self.root / "src"
        files = sorted((src / "mdpax").rglob("*.py"))
        if not files:
            raise AnalysisError(f"no python files under {src / 'mdpax'}")
        seen = set()
        for f in files:
            rel = str(f.relative_to(self.root))
            seen.add(rel)
            text = self.overlay.get(rel)
            if text is None:
                text = f.read_text()
            self._add(rel, text)
        for rel, text in self.overlay.items():
            if rel not in seen and rel.startswith("src/mdpax/") and rel.endswith(".py"):
                self._add(rel, text)
        from .canon import cross_module_constants

        cross_module_constants(self)

    def _add(self, rel: str, text: str) -> None:
        parts = Path(rel).with_suffix("").parts[1:]  # drop 'src'
        if parts[-1] == "__init__":
            parts = parts[:-1]
        name = ".".join(parts)
        m = Module(name, rel, text)
        self.modules[name] = m
        self.by_relpath[rel] = m

    def module(self, name: str) -> Module:
        try:
            return self.modules[name]
        except KeyError:
            raise AnalysisError(f"anchor vanished: module {name}") from None

    def digest(self) -> str:
        h = hashlib.sha256()
        for rel in sorted(self.by_relpath):
            h.update(rel.encode())
            h.update(self.by_relpath[rel].source.encode())
        return h.hexdigest()[:16]

    def public_function(self, dotted: str):
        """(Module, FunctionDef) of a function known by its public dotted name, wherever the package now defines it (a function
        moved to another module and re-exported from the old place is still that function); an absent one is a vanished anchor."""
        r = self.resolve_dotted(dotted)
        if r is None or not isinstance(r[1], ast.FunctionDef):
            raise AnalysisError(f"anchor vanished: {dotted}")
        return r

    def resolve_dotted(self, dotted: str):
        """Resolve 'mdpax.x.y.Name' to (Module, top-level node) if it lives in the repo.

        Follows re-exports through package __init__ modules (one alias hop per step)."""
        for _ in range(6):
            modname, _, attr = dotted.rpartition(".")
            m = self.modules.get(modname)
            if m is None:
                return None
            if attr in m.classes:
                return m, m.classes[attr]
            if attr in m.functions:
                return m, m.functions[attr]
            if attr in m.imports:
                dotted = m.imports[attr]
                continue
            if attr in m.globals:
                return m, m.globals[attr]
            return None
        return None


def unparse(node: ast.AST) -> str:
    return ast.unparse(node)


def norm_text(node: ast.AST | str) -> str:
    """Statement text normalised for finding keys: ast.unparse, single spaces, first line.

    Compound statements are keyed by their header only so that edits to the body of an
    `if` do not change the key of a finding about its test."""
    if isinstance(node, str):
        s = node
    elif isinstance(node, (ast.If, ast.While)):
        s = ("if " if isinstance(node, ast.If) else "while ") + ast.unparse(node.test)
    elif isinstance(node, ast.For):
        s = f"for {ast.unparse(node.target)} in {ast.unparse(node.iter)}"
    elif isinstance(node, (ast.FunctionDef, ast.ClassDef)):
        s = f"def {node.name}" if isinstance(node, ast.FunctionDef) else f"class {node.name}"
    elif isinstance(node, ast.Try):
        s = "try"
    elif isinstance(node, ast.With):
        s = "with " + ", ".join(ast.unparse(i) for i in node.items)
    else:
        s = ast.unparse(node)
    s = " ".join(s.split())
    return s[:160]
