import subprocess, re
p='/verif/DESIGN.md'
s=open(p).read()
table=subprocess.run(['python3','/verif/tools_seed_table.py'],capture_output=True,text=True).stdout
sec=f'''### 10.6 Independently seeded changes (`/verif/seeded/`) and which checks catch them

Fresh sub-agents were given only the text of one property and a scratch worktree of `/repo`
(nothing from `/verif`) and asked for a change that breaks the property, still passes the test
suite and needs something specific to manifest, with a demonstration.  Second-round agents were
additionally told which mechanism was already taken.  Every change kept here was confirmed by me
in a scratch worktree (`tools_seed_verify.py`: demo exit 0 without / non-zero with the patch,
package imports, all 102 stable tests of BASELINE.json pass with the patch, full pytest run),
then evaluated with `tools_seed_eval.py` (`git -C /repo apply`, every MANIFEST quick command,
`git -C /repo checkout -- .`).  `meta.json` of each seed records what it needs, what was run and
which checks report it.

{table}
**Misses and what was done about them** (the history column has the detail):

* S01 (result cast to the dtype of the incoming estimates) was *missed*: `.astype` was
  value-transparent in the kernel IR.  Now only a cast to a statically named integer dtype inside a
  `Problem` is transparent; any other cast stays in the term, so the sweep no longer equals the
  oracle.  The same refinement caught S-C02b (successor cast to int32 before the index lookup) at once.
* S22 (`restore()` reading through the solver's own manager, i.e. the directory recorded in
  config.yaml) was *missed*: no rule tied the restoring manager to the directory argument.  R10.3
  gained that clause.
* S02, S04, S12 first ended in ANALYSIS-ERROR (exit 2: neither a verdict nor a false alarm): the
  solve-loop anchor was keyed on the literal `range(max_iterations)`, the builtin `bool` was unknown
  to the interpreter, and `np.tile` is outside the symbolic space vocabulary.  The sweep loop is now
  located by the step it runs and its trip count is rule R8.1; the interpreter knows the common
  builtins; C14 falls back to deciding the instances with the vector-length fields fixed to 1..3
  exactly when the symbolic analysis does not apply, and a failing instance is reported with its
  parameters.  In addition a violation decided *before* an analysis error is now still reported.
* Two partial false alarms surfaced on the *benign parts* of seeded patches (S05: a local bound to
  `latest_step()`; S24: restore delegating to `super()`); both rules were made tolerant and the
  benign variants b39 / b40 keep them so.
* S09, S10 are reported by the checks of neighbouring properties (C18 / C09 / C10) because the broken
  mechanism lives there; C03 now also files the pad/strip instances itself (R3.3).

Every seed of the table is also in the regression catalogue (`selftest/mutants.py`, variants
m104-m113 and the earlier ones they coincide with).

### 10.7 Metamorphic robustness (no alarm on code where the property holds)

`mdpaxlint/selftest/metamorphic.py` applies six behaviour-preserving **whole-tree** transformations
to today's source in memory - T1 rename every local variable, T2 swap the operands of every
arithmetic `+` / `*`, T3 flip every `<` / `<=` / `>` / `>=`, T4 `ast.unparse` every module, T5 a log
line after every simple statement of non-kernel functions, T6 `return <expr>` through a local - and
every check must stay silent (114 transformation x property pairs; part of every thorough run;
`tools_metamorphic.py` runs them all).  The first run produced ten alarms (rules keyed on local
names such as `solver` / `config` / `state`, on operand order in text matches, on the orientation of
a comparison, on `return <call>` shapes); all were rewritten to be name-, order- and shape-independent
(`returned_expr`, `_var_assigned_from`, term-based instead of text-based matches, mirrored
comparisons in the interval interpreter).  `ruff format --line-length 140` over the whole tree is
silent as well.

'''
if '### 10.6 Independently seeded changes' in s:
    i=s.index('### 10.6 Independently seeded changes'); j=s.index('## Appendix A')
    s=s[:i]+sec+s[j:]
else:
    s=s.replace('## Appendix A — feasibility probes run while designing', sec+'## Appendix A — feasibility probes run while designing')
open(p,'w').write(s)
