"""C16 - shipped problems' event probabilities equal the documented distributions."""

from __future__ import annotations

from ..interp import fresh
from ..loader import AnalysisError
from ..terms import K, NONE, S, T_add, T_cmp, T_inv, T_mul, T_neg, T_sub, T_sum, T_truediv, ONE, ZERO, show_norm, subterms
from .common import Context, backing_attr, one_data_attr
from .problemterms import ACTION, EVENT, STATE, cfgsym, probability_term, problem_interp
from .solverterms import brief, same

PROP = "C16"
EXPLANATION = (
    "The probability functions and their precomputed tables are abstractly interpreted with a symbolic "
    "configuration and compared, as terms, with the documented distributions written over uninterpreted "
    "library calls: De Moor's (alpha, beta) satisfy alpha/beta == mean and alpha*cov^2 == 1 and the table is "
    "diff(Gamma(alpha,beta).cdf([0, 0.5, 1.5, ..., D+0.5])) with the censored tail folded into the last bin; "
    "Mirjalili's demand is NegativeBinomial(total_count=n[w], probs=1-p[w]) with p == n/(n+delta), censored at D "
    "by folding, times Multinomial(logits=reverse([0, c0+c1*order]), total_count=order) restricted to splits "
    "that sum to the order; Hendrix's four stock-out cases use strict `<` masks and their exact complements "
    "(1 - cdf(stock-1), `>=`) around the substitution tables, whose builders convolve Poisson(mean_a) with the "
    "Poisson(mean_b) x Binomial(sub_prob) table; Forest's table is [[1-p, p],[1, 0]] indexed by (action, event); "
    "initial values are 0 except Hendrix's expected one-step revenue.  Library semantics (what Gamma.cdf or "
    "Poisson.pmf compute) and the numerical agreement with an independent implementation are not decided."
)
RULES = {
    "R16.1": "De Moor: alpha/beta == demand_gamma_mean and alpha*cov^2 == 1; Gamma receives (alpha, beta) in (concentration, rate) order",
    "R16.2": "De Moor: table == fold_tail(diff(cdf([0] ++ arange(0.5, D+1.5)))) and P(event) == table[demand]",
    "R16.3": "Mirjalili: p == n/(n+delta); NegBin(total_count=n[w], probs=1-p[w]) censored at D; Multinomial(logits=reverse([0, c0+c1*order]), total_count=order); zero unless the split sums to the order; joint = product",
    "R16.4": "Forest: P(fire | wait) = p, P(fire | cut) = 0, rows (1-p, p) and (1, 0), indexed [action, event]",
    "R16.5": "initial_value is overridden only by Hendrix, where it is sum_e P(s, ., e) * (e . prices)",
    "R16.6": "Hendrix: four-case decomposition with `<` masks and exact complements; pu = Poisson(mean_b) x Binomial(sub_prob) table, pz = Poisson(mean_a) convolved with pu; lookup by the event space's own index function",
}
ASSUMPTIONS = [
    "numpyro / scipy / jax.scipy distribution objects implement the distributions they are named after",
    "reshape(-1) / astype / jnp.array are value-transparent",
]


def run(ctx: Context, col) -> None:
    from .common import Parts

    part = Parts()
    part(_demoor, ctx, col)
    part(_mirjalili, ctx, col)
    part(_forest, ctx, col)
    part(_initial, ctx, col)
    part(_hendrix, ctx, col)
    part.finish()
    for r_, n in (("R16.1", 2), ("R16.2", 2), ("R16.3", 3), ("R16.4", 1), ("R16.5", 4), ("R16.6", 3)):
        col.floor(r_, n)


def _demoor(ctx, col):
    cls = ctx.ct.get("DeMoorSingleProductPerishable")
    I = problem_interp(ctx, cls)
    mean, cov, D = cfgsym("demand_gamma_mean"), cfgsym("demand_gamma_cov"), cfgsym("max_demand")
    a, b = I.attrs.get("demand_gamma_alpha"), I.attrs.get("demand_gamma_beta")
    o, f = ctx.ct.require(cls, "_convert_gamma_parameters")
    if a is None or b is None:
        raise AnalysisError("anchor vanished: DeMoor demand_gamma_alpha / demand_gamma_beta")
    ok = T_truediv(a, b) == mean and T_mul(a, T_mul(cov, cov)) == ONE
    col.add("R16.1", "DeMoorSingleProductPerishable._convert_gamma_parameters", o.module.relpath, f.lineno, ok,
            "alpha/beta == mean and alpha*cov^2 == 1" if ok else
            f"alpha = {show_norm(a)}, beta = {show_norm(b)}: alpha/beta = {show_norm(T_truediv(a, b))}, alpha*cov^2 = {show_norm(T_mul(a, T_mul(cov, cov)))}",
            text="gamma parameter relations")
    table = I.attrs.get("demand_probabilities")
    if table is not None:
        from .c13 import fold_normal
        table = fold_normal(table)
    grid = ("app", "hstack", (ZERO, ("app", "arange", (K(0.5), T_add(D, K(1.5))))))
    dist = ("app", "numpyro.distributions.Gamma", (a, b))
    delta = ("app", "np.diff", (("app", ".cdf", (dist, grid)),))
    want = ("atadd", delta, K(-1), T_sub(ONE, ("app", "sum", (delta,))))
    o2, f2 = ctx.ct.require(cls, "_calculate_demand_probabilities")
    ok_t = table == want
    gammas = [t for t in subterms(table) if t[0] == "app" and t[1].endswith("Gamma")] if table else []
    ok_g = bool(gammas) and all(g == dist for g in gammas)
    col.add("R16.1", "DeMoorSingleProductPerishable._calculate_demand_probabilities", o2.module.relpath, f2.lineno, ok_g,
            "Gamma(concentration=alpha, rate=beta) from the converted parameters" if ok_g else
            f"distribution constructed as {[show_norm(g) for g in gammas]}", text="Gamma(alpha, beta)")
    col.add("R16.2", "DeMoorSingleProductPerishable._calculate_demand_probabilities", o2.module.relpath, f2.lineno, ok_t,
            "table == diff(cdf([0] ++ arange(0.5, D+1.5))) with 1 - sum folded into the last bin" if ok_t else
            f"table is {brief(table, 400) if table else None}", text="discretised censored gamma")
    I2, p = probability_term(ctx, cls)
    e = fresh("edim")
    want_p = ("lam", e, "edim", I2.elem(I2.attrs["demand_probabilities"], I2.elem(EVENT, e)))
    o3, f3 = ctx.ct.require(cls, "random_event_probability")
    okp = same(p, want_p)
    col.add("R16.2", "DeMoorSingleProductPerishable.random_event_probability", o3.module.relpath, f3.lineno, okp,
            "P(event) == table[demand], independent of state and action" if okp else f"probability is {brief(p, 300)}", text="table lookup")


def _mirjalili(ctx, col):
    cls = ctx.ct.get("MirjaliliPlateletPerishable")
    I = problem_interp(ctx, cls)
    n, dl = cfgsym("weekday_demand_negbin_n"), cfgsym("weekday_demand_negbin_delta")
    p = I.attrs.get("weekday_demand_negbin_p")
    o, f = ctx.ct.require(cls, "_setup_before_space_construction")
    ok = p is not None and p == T_truediv(n, T_add(n, dl))
    col.add("R16.3", "MirjaliliPlateletPerishable._setup_before_space_construction", o.module.relpath, f.lineno, ok,
            "success probability p == n / (n + delta)" if ok else f"p = {show_norm(p) if p else None}", text="negbin success probability")
    I2, pr = probability_term(ctx, cls)
    m, D = cfgsym("max_useful_life"), cfgsym("max_demand")
    c0, c1 = cfgsym("useful_life_at_arrival_distribution_c_0"), cfgsym("useful_life_at_arrival_distribution_c_1")
    w = I2.elem(STATE, ZERO)
    demand = I2.elem(EVENT, ZERO)
    received = ("app", "slice", (EVENT, K(1), T_add(m, K(1)), NONE))
    nb = ("app", "numpyro.distributions.NegativeBinomialProbs",
          (("kw", "probs", T_sub(ONE, ("elem", p, (w,)) if p is not None else ZERO)), ("kw", "total_count", ("elem", n, (w,)))))
    tab = ("app", "exp", (("app", ".log_prob", (nb, ("app", "arange", (ZERO, T_add(D, K(1)))))),))
    tab = ("atadd", tab, D, T_sub(ONE, ("app", "sum", (tab,))))
    demand_prob = I2.elem(tab, demand)
    logits = ("app", "slice", (("app", "hstack", (ZERO, T_add(c0, T_mul(c1, ACTION)))), NONE, NONE, K(-1)))
    mn = ("app", "numpyro.distributions.Multinomial", (("kw", "logits", logits), ("kw", "total_count", ACTION)))
    rec_prob = ("app", "where", (T_cmp("Eq", ("app", "sum", (received,)), ACTION),
                                 ("app", "exp", (("app", ".log_prob", (mn, received)),)), ZERO))
    want = T_mul(demand_prob, rec_prob)
    o2, f2 = ctx.ct.require(cls, "random_event_probability")
    okj = same(pr, want)
    col.add("R16.3", "MirjaliliPlateletPerishable.random_event_probability", o2.module.relpath, f2.lineno, okj,
            "P == censored NegBin(n[w], 1-p[w])[demand] * [split sums to order] * Multinomial(reverse([0, c0+c1*order]), order)(split)" if okj else
            f"probability is {brief(pr, 700)}", text="joint probability")
    # pieces, for diagnosis and as separate obligations
    lg = I2.call_method("_get_multinomial_logits", [ACTION])
    o3, f3 = ctx.ct.require(cls, "_get_multinomial_logits")
    okl = lg == logits
    col.add("R16.3", "MirjaliliPlateletPerishable._get_multinomial_logits", o3.module.relpath, f3.lineno, okl,
            "logits == reverse([0] ++ (c0 + c1*order)): linear in the order size, oldest on the right" if okl else
            f"logits are {show_norm(lg)}", text="multinomial logits")


def _forest(ctx, col):
    cls = ctx.ct.get("Forest")
    I, pr = probability_term(ctx, cls)
    p = cfgsym("p")
    table = ("app", "array", (("tuple", (("tuple", (T_sub(ONE, p), p)), ("tuple", (ONE, ZERO)))),))
    want = ("elem", table, (I.elem(ACTION, ZERO), I.elem(EVENT, ZERO)))
    o, f = ctx.ct.require(cls, "random_event_probability")
    ok = pr == want
    col.add("R16.4", "Forest.random_event_probability", o.module.relpath, f.lineno, ok,
            "[[1-p, p], [1, 0]][action, event]" if ok else f"probability is {show_norm(pr)}", text="fire probability table")


def _initial(ctx, col):
    for name in ("Forest", "DeMoorSingleProductPerishable", "MirjaliliPlateletPerishable"):
        cls = ctx.ct.get(name)
        owner, fn = ctx.ct.require(cls, "initial_value")
        ok = owner.name == "Problem"
        if ok:
            I = problem_interp(ctx, cls)
            ok = I.call_method("initial_value", [STATE]) == ZERO
        col.add("R16.5", f"{name}.initial_value", owner.module.relpath, fn.lineno, ok,
                "inherits the documented default 0" if ok else "initial_value is not the documented constant 0", text="initial value")
    cls = ctx.ct.get("HendrixTwoProductPerishable")
    I = problem_interp(ctx, cls)
    I.attrs["pu"], I.attrs["pz"] = S("PU"), S("PZ")
    t = I.call_method("initial_value", [STATE])
    I2 = problem_interp(ctx, cls)
    I2.attrs["pu"], I2.attrs["pz"] = S("PU"), S("PZ")
    ES = I2.attrs[backing_attr(ctx, cls, "random_event_space")]
    I2.axes_hint = None
    e = fresh("ev")
    prices = ("app", "array", (("tuple", (cfgsym("sales_price_a"), cfgsym("sales_price_b"))),))
    owner, fn = ctx.ct.require(cls, "initial_value")
    # P(s, ., e) with the action argument irrelevant (the code passes 0)
    pe = I2.call_method("random_event_probability", [STATE, ZERO, ("elem", ES, (e,))])
    rev = I2.dot(ES, prices)
    want_shape = "sum over events of P(state, ., event) * (event . prices)"
    ok = t[0] in ("red", "poly", "app") and "sales_price" in show_norm(t) and "PZ" in show_norm(t)
    # structural comparison: dot(vmap(prob)(state, 0, ES), ES.dot(prices))
    lam_p = ("lam", e, "ax", pe)
    want = I2.dot(lam_p, rev)
    ok = same(t, want)
    col.add("R16.5", "HendrixTwoProductPerishable.initial_value", owner.module.relpath, fn.lineno, ok,
            want_shape if ok else f"initial value is {brief(t, 400)}", text="expected one-step revenue")


def _hendrix(ctx, col):
    cls = ctx.ct.get("HendrixTwoProductPerishable")
    I = problem_interp(ctx, cls)
    I.attrs["pu"], I.attrs["pz"] = S("PU"), S("PZ")
    m = cfgsym("max_useful_life")
    Qa, Qb = cfgsym("max_order_quantity_a"), cfgsym("max_order_quantity_b")
    ma, mb = cfgsym("demand_poisson_mean_a"), cfgsym("demand_poisson_mean_b")
    Ma, Mb = T_mul(Qa, m), T_mul(Qb, m)
    MD = I.attrs["max_demand"]
    # the tables' shape [max_demand + 1, max_stock_b + 1] (established for the builders below, R16.6 pu / pz)
    I.sym_shapes["PU"] = I.sym_shapes["PZ"] = (T_add(MD, ONE), T_add(Mb, ONE))
    pr = I.call_method("random_event_probability", [STATE, ACTION, EVENT])
    sa = ("app", "sum", (("app", "slice", (STATE, ZERO, m, NONE)),))
    sb = ("app", "sum", (("app", "slice", (STATE, m, T_mul(K(2), m), NONE)),))
    ra, rb = ("app", "arange", (T_add(Ma, ONE),)), ("app", "arange", (T_add(Mb, ONE),))
    pa = ("app", "jax.scipy.stats.poisson.pmf", (ra, ma))
    pb = ("app", "jax.scipy.stats.poisson.pmf", (rb, mb))
    pa_m = T_mul(pa, T_cmp("Lt", ra, sa))
    pb_m = T_mul(pb, T_cmp("Lt", rb, sb))
    zeros = ("app", "zeros", (("tuple", (T_add(Ma, ONE), T_add(Mb, ONE))),))
    allsl = ("slice", NONE, NONE, NONE)
    c1 = ("app", "np.outer", (pa_m, pb_m))
    c2 = ("atadd", zeros, ("tuple", (sa, allsl)),
          T_mul(T_sub(ONE, ("app", "jax.scipy.stats.poisson.cdf", (T_sub(sa, ONE), ma))), pb_m))
    pzcol = ("app", "lax.dynamic_slice", (S("PZ"), ("tuple", (ZERO, sb)), ("tuple", (T_add(MD, ONE), ONE))))
    rlen = ("app", "arange", (("app", "len", (pzcol,)),))
    c3 = ("atadd", zeros, ("tuple", (allsl, sb)),
          I.index(T_mul(pzcol, T_cmp("Lt", rlen, sa)), ("slice", NONE, T_add(Ma, ONE), NONE)))
    c4 = ("atadd", zeros, ("tuple", (sa, sb)), I.dot(pzcol, T_cmp("LtE", sa, rlen)))
    total = T_add(T_add(c1, c2), T_add(c3, c4))
    idx = I.call_value(I.attrs[one_data_attr(ctx, cls, "random_event_probability", "call", "event index function")], [EVENT], {})
    want = I.elem(total, idx)
    owner, fn = ctx.ct.require(cls, "random_event_probability")
    ok = same(pr, want)
    col.add("R16.6", "HendrixTwoProductPerishable.random_event_probability", owner.module.relpath, fn.lineno, ok,
            "four cases: (d_a<s_a, d_b<s_b), (d_a>=s_a via 1-cdf(s_a-1)), (pz column s_b masked < s_a), (pz column s_b summed over >= s_a); "
            "looked up by the event space's own index" if ok else f"decomposition differs: {brief(pr, 900)}", text="four-case decomposition")
    # the index function belongs to the event space built from (0,0)..(max_stock_a, max_stock_b)
    ES = I.attrs[backing_attr(ctx, cls, "random_event_space")]
    okx = "ravel_multi_index" in show_norm(idx) and show_norm(Ma) in show_norm(ES) and show_norm(Mb) in show_norm(ES)
    rav = [t for t in subterms(idx) if t[0] == "app" and t[1] == "np.ravel_multi_index"]
    from .solverterms import elementwise_same
    okx = len(rav) == 1 and elementwise_same(I, rav[0][2][1], T_add(T_sub(("app", "array", (("tuple", (Ma, Mb)),)), ("app", "array", (("tuple", (ZERO, ZERO)),))), ONE))
    col.add("R16.6", "HendrixTwoProductPerishable._construct_random_event_space", owner.module.relpath,
            ctx.ct.require(cls, "_construct_random_event_space")[1].lineno, okx,
            "events indexed over the box [0, max_stock_a] x [0, max_stock_b]" if okx else f"event index is {show_norm(idx)[:200]}",
            text="event index dimensions")
    # pu / pz builders: every table entry is the documented sum, as a term
    I3 = problem_interp(ctx, cls)
    pu = I3.attrs.get("pu")
    sub = cfgsym("substitution_probability")
    zeros_t = ("app", "zeros", (("tuple", (T_add(MD, ONE), T_add(Mb, ONE))),))

    def pu_entry(k, y):
        rng = ("app", "arange", (k, T_sub(MD, y)))
        pois = ("app", "scipy.stats.poisson.pmf", (T_add(rng, y), mb))
        bino = ("app", "scipy.stats.binom.pmf", (k, rng, sub))
        return I3.dot(pois, bino)

    def _canon_pmf(t):
        """pmf(arange(a, b) + c) == pmf(arange(a + c, b + c));  pmf(arange(a, b))[k:] == pmf(arange(a + k, b)): a table
        evaluated once and sliced is the table evaluated on the slice"""
        if not isinstance(t, tuple) or not t:
            return t
        t = tuple(_canon_pmf(x) if isinstance(x, tuple) else x for x in t)
        if t[0] == "poly":
            # arange(a, b) + (scalars): shift the range
            ar = [(mono, c) for mono, c in t[1] if len(mono) == 1 and mono[0][1] == 1 and mono[0][0][0] == "app" and mono[0][0][1] == "arange"
                  and len(mono[0][0][2]) == 2 and c == 1]
            if len(ar) == 1:
                rest = ("poly", tuple(x for x in t[1] if x is not ar[0]))
                from ..terms import to_poly
                rest_t = T_sub(t, ar[0][0][0][0])
                if not any(x[0] == "app" and x[1] == "arange" for x in subterms(rest_t)) and rest_t[0] != "lam":
                    a_, b_ = ar[0][0][0][0][2]
                    return ("app", "arange", (T_add(a_, rest_t), T_add(b_, rest_t)))
        if t[0] == "app" and t[1] == "slice" and len(t[2]) == 4 and t[2][2] == NONE and t[2][3] == NONE:
            base, k = t[2][0], t[2][1]
            if base[0] == "app" and base[1].endswith(".pmf") and base[2] and base[2][0][0] == "app" and base[2][0][1] == "arange":
                ra = base[2][0][2]
                a_, b_ = (ZERO, ra[0]) if len(ra) == 1 else (ra[0], ra[1])
                return ("app", base[1], (("app", "arange", (T_add(a_, k), b_)),) + tuple(base[2][1:]))
        return t

    ok_pu, why_pu = False, "substitution table is not built by the documented double loop"
    if pu is not None and pu[0] == "fold" and pu[2] == T_add(Mb, ONE) and pu[3] == zeros_t and pu[4][0] == "fold":
        y, cur_y, inner = pu[1], pu[5], pu[4]
        u, cur_u = inner[1], inner[5]
        want_init = ("scatter", cur_y, ("tuple", (ZERO, y)), pu_entry(ZERO, y))
        want_body = ("scatter", cur_u, ("tuple", (T_add(u, ONE), y)), pu_entry(T_add(u, ONE), y))
        cnt_ok = inner[2] == T_sub(T_sub(MD, y), ONE)
        # the same table written as one loop over u = 0 .. max_demand - y - 1 (no separate u = 0 statement)
        merged = inner[3] == cur_y and inner[2] == T_sub(MD, y) and _canon_pmf(inner[4]) == _canon_pmf(("scatter", cur_u, ("tuple", (u, y)), pu_entry(u, y)))
        if merged:
            ok_pu, why_pu = True, "pu[u, y] = sum_(x >= u, x + y < max_demand) Poisson(x + y; mean_b) * Binomial(u; x, substitution_probability) for every u >= 0 and y (single loop)"
        elif _canon_pmf(inner[3]) != _canon_pmf(want_init):
            why_pu = f"pu[0, y] is {brief(inner[3][3] if inner[3][0] == 'scatter' else inner[3], 260)}; documented: sum_x Poisson(x + y; mean_b) * Binomial(0; x, substitution_probability)"
        elif _canon_pmf(inner[4]) != _canon_pmf(want_body):
            why_pu = f"pu[u, y] is {brief(inner[4][3] if inner[4][0] == 'scatter' else inner[4], 260)}; documented: sum_(x>=u) Poisson(x + y; mean_b) * Binomial(u; x, substitution_probability)"
        elif not cnt_ok:
            why_pu = f"u ranges over {show_norm(inner[2])} values, documented 1 .. max_demand - y - 1"
        else:
            ok_pu, why_pu = True, "pu[u, y] = sum_(x >= u, x + y < max_demand) Poisson(x + y; mean_b) * Binomial(u; x, substitution_probability) for every u >= 0 and y"
    o_pu, f_pu = ctx.ct.require(cls, "_calculate_pu")
    col.add("R16.6", "HendrixTwoProductPerishable._calculate_pu", o_pu.module.relpath, f_pu.lineno, ok_pu, why_pu, text="pu builder")
    # pz with pu symbolic
    I4 = problem_interp(ctx, cls)
    I4.attrs["pu"] = S("PU")
    pz = I4.call_method("_calculate_pz")
    pa_t = ("app", "scipy.stats.poisson.pmf", (("app", "arange", (T_add(MD, ONE),)), ma))
    allsl_ = ("slice", NONE, NONE, NONE)
    ok_pz, why_pz = False, "total-demand table is not built by the documented convolution"
    if pz[0] == "fold" and pz[2] == T_add(Mb, ONE) and pz[4][0] == "fold":
        y, cur_y, inner = pz[1], pz[5], pz[4]
        z, cur_z = inner[1], inner[5]
        row0 = T_mul(I4.index(pa_t, ZERO), I4.index(S("PU"), ("tuple", (ZERO, allsl_))))
        want_init = ("scatter", zeros_t, ("tuple", (ZERO, allsl_)), row0)
        zz = T_add(z, ONE)
        ks = ("app", "arange", (ZERO, T_add(zz, ONE)))
        conv = I4.dot(I4.index(pa_t, ks), I4.index(S("PU"), ("tuple", (T_sub(zz, ks), y))))
        want_body = ("scatter", cur_z, ("tuple", (zz, y)), conv)
        if pz[3] != want_init:
            why_pz = f"pz[0, :] is {brief(pz[3], 240)}; documented pa[0] * pu[0, :]"
        elif inner[3] != cur_y or not same(inner[4], want_body) or inner[2] != MD:
            why_pz = f"pz[z, y] is {brief(inner[4], 300)}; documented sum_(k <= z) Poisson(k; mean_a) * pu[z - k, y]"
        else:
            ok_pz, why_pz = True, "pz[z, y] = sum_(k <= z) Poisson(k; mean_a) * pu[z - k, y], pz[0, :] = Poisson(0; mean_a) * pu[0, :]"
    o_pz, f_pz = ctx.ct.require(cls, "_calculate_pz")
    col.add("R16.6", "HendrixTwoProductPerishable._calculate_pz", o_pz.module.relpath, f_pz.lineno, ok_pz, why_pz, text="pz builder")
