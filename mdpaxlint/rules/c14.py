"""C14 - shipped problems are closed and their state index is consistent."""

from __future__ import annotations

import ast

from ..interp import fresh
from ..loader import AnalysisError
from ..segments import NarrowGrid
from ..segments import NINF, PINF, Domain, Iv, SegEval, Vec, contains
from ..terms import K, ONE, S, is_num, T_add, T_sub, ZERO, show, show_norm, subterms
from .c20 import validator_constraints
from .common import Context, backing_attr
from .problemterms import ACTION, EVENT, STATE, cfgsym, problem_interp, transition_terms
from .solverterms import brief

PROP = "C14"
EXPLANATION = (
    "For each shipped problem the constructor is abstractly interpreted to obtain the state, action and "
    "event spaces as terms; their per-column ranges are derived over a small vocabulary (create_range_space "
    "products, arange, literals, hstack / repeat / row filters) as SEGMENTED vectors with symbolic bounds - "
    "e.g. De Moor's states are <(L+m-1) x [0,Q]>, Hendrix's <m x [0,Qa], m x [0,Qb]>, Mirjalili's "
    "<1 x [0,6], (m-1) x [0,Q]>.  The transition's successor term is then evaluated in the same domain "
    "(slices at symbolic positions, hstack, clip, min, mod, ite joins, the issuing scan with its carry "
    "invariant remaining_demand >= 0) and every successor segment must lie within the state-space segment it "
    "aligns with, with `<=` between polynomial bounds decided over the validator domain (all size symbols "
    ">= 1).  This proves closure for ALL events (stronger than positive-probability ones) and all parameter "
    "values at once.  The index function returned by state_to_index must be the one built together with the "
    "state space (same lower bounds and dimensions).  Space sizes as numbers and absence of duplicate rows "
    "rest on C19."
)
RULES = {
    "R14.1": "every successor segment is within the aligned state-space segment, symbolically, for all states, actions and events",
    "R14.2": "state_to_index is the index function of the state space itself: ravel of (state - mins) over dims = maxs - mins + 1 of that space (Forest: identity on arange(S))",
    "R14.3": "the spaces are built from the validated configuration symbols by the supported constructors (vocabulary check; sizes rest on C19)",
}
ASSUMPTIONS = [
    "validator domains (C20 R20.3): every size / limit field is an integer >= 1",
    "create_range_space enumerates the box and its index function inverts it (C19)",
    "lax.scan carry invariant: remaining demand starts >= 0 and every step clips it at 0",
]


def domain_for(ctx, cls):
    ca = ctx.ct.class_attr(cls, "Config")
    cfg = ctx.ct.class_of_dotted(ctx.ct.resolve_name(ca[0].module, ast.unparse(ca[1])))
    _o, _f, got, _e, _n = validator_constraints(ctx, cfg)
    lower = {}
    for f, cs in got.items():
        for c in cs:
            if c[0] == "accept" and len(c[1]) == 1:
                lo = c[1][0].lo
                if lo != float("-inf") and lo == int(lo) and not c[1][0].lo_open:
                    lower[cfgsym(f)] = int(lo)
    return Domain(lower), cfg


DIM_FIELDS = ("max_useful_life", "lead_time")  # fields that are vector lengths


def closure(ctx, cls, dom, inst=None):
    """(state columns, action columns, event columns, successor, ok, why, interpreter)."""
    I, nxt, _rew = transition_terms(ctx, cls, inst)
    se = SegEval(I, dom, {})
    try:
        st = se.columns(I.attrs[backing_attr(ctx, cls, "state_space")])
        ac = se.columns(I.attrs[backing_attr(ctx, cls, "action_space")])
        evs = se.columns(I.attrs[backing_attr(ctx, cls, "random_event_space")])
    except KeyError as e:
        raise AnalysisError(f"anchor vanished: {cls.name} space attribute {e}") from e
    se.spaces = {STATE: st, ACTION: ac, EVENT: evs}
    for rec in I.scans:  # carry invariants of the issuing scans
        if rec["kind"] != "recurrence":
            continue
        c = rec["carry"]
        if c[0] != "sym":
            raise AnalysisError(f"{cls.name}: scan with a structured carry in transition")
        init = se.all_of(se.ev(rec["init"]))
        out = rec["carry_out"]
        inv_ok = dom.leq(ZERO, init.lo) and out[0] == "app" and out[1] == "clip" and out[2][1] == ZERO
        se.carries[c] = Iv(ZERO, PINF) if inv_ok else Iv(NINF, PINF)
    succ = se.ev(nxt)
    if not isinstance(succ, Vec):
        succ = Vec([(ONE, succ)])
    ok, why = contains(dom, st, succ)
    return st, ac, evs, succ, ok, why, I


def run(ctx: Context, col) -> None:
    import itertools

    for cls in ctx.problems():
        dom, cfg = domain_for(ctx, cls)
        owner, fn = ctx.ct.require(cls, "transition")
        try:
            st, ac, evs, succ, ok, why, I = closure(ctx, cls, dom)
            col.add("R14.3", f"{cls.name}.__init__", cls.module.relpath, cls.node.lineno, True,
                    f"states {st}; actions {ac}; events {evs}", text="space column ranges")
            col.saw("spaces", f"{cls.name}: states {st}; actions {ac}; events {evs}")
            col.add("R14.1", f"{cls.name}.transition", owner.module.relpath, fn.lineno, ok,
                    f"successor {succ} is within the state space {st} for every state, action and event" if ok else
                    f"successor {succ} leaves the state space {st}: {why}; the index function would silently clip it onto a different state",
                    text="successor within state space")
        except NarrowGrid as e:
            col.add("R14.3", f"{cls.name}.__init__", cls.module.relpath, cls.node.lineno, False, str(e), text="space column ranges")
            for r_, c_, t_ in (("R14.1", "transition", "successor within state space"), ("R14.2", "state_to_index", "state index")):
                col.add(r_, f"{cls.name}.{c_}", owner.module.relpath, fn.lineno, False, "cannot hold: the state space itself is wrong (see R14.3)", text=t_)
            continue
        except AnalysisError as e:
            # a construct outside the symbolic vocabulary (e.g. a periodic layout np.tile(.., m)): decide the
            # instances with the vector-length fields fixed to 1..3 exactly; a failing instance is a violation
            fields = [f for f in DIM_FIELDS if f in ctx.ct.all_fields(cfg)]
            if not fields:
                raise
            failures, done = [], []
            for vals in itertools.product((1, 2, 3), repeat=len(fields)):
                inst = dict(zip(fields, vals))
                st, ac, evs, succ, ok, why, I = closure(ctx, cls, dom, inst)
                done.append(inst)
                if not ok:
                    failures.append((inst, st, succ, why))
            col.notes.append(f"{cls.name}: symbolic closure analysis not applicable ({e}); decided {len(done)} instances of {fields} in 1..3 instead")
            col.add("R14.3", f"{cls.name}.__init__", cls.module.relpath, cls.node.lineno, True,
                    f"spaces outside the symbolic vocabulary ({str(e)[:80]}); instantiated {fields} over 1..3", text="space column ranges")
            if failures:
                inst, st, succ, why = failures[0]
                col.add("R14.1", f"{cls.name}.transition", owner.module.relpath, fn.lineno, False,
                        f"with {inst}: successor {succ} leaves the state space {st}: {why}; the index function would silently clip it onto a different state "
                        f"({len(failures)} of {len(done)} instances fail)", text="successor within state space")
            else:
                col.add("R14.1", f"{cls.name}.transition", owner.module.relpath, fn.lineno, True,
                        f"successor within the state space for the {len(done)} instances of {fields} in 1..3 (bounded: the symbolic analysis does not apply)",
                        text="successor within state space")
            I = problem_interp(ctx, cls)
        _index(ctx, cls, I, col)
    col.floor("R14.1", 4)
    col.floor("R14.2", 4)
    col.floor("R14.3", 4)


def _dist(t, ix):
    """(a - b + 1)[i] == a[i] - b[i] + 1: distribute an element access over pointwise ring expressions of vectors."""
    from ..terms import subst
    for _round in range(4):
        m = {}
        for x in subterms(t):
            if x[0] == "elem" and x[2] == (ix,) and x[1][0] == "poly":
                atoms = {a for mono, _c in x[1][1] for a, _p in mono}
                m[x] = subst(x[1], {a: ("elem", a, (ix,)) for a in atoms})
        if not m:
            return t
        t = subst(t, m)
    return t


def _index(ctx, cls, I, col):
    owner, fn = ctx.ct.require(cls, "state_to_index")
    t = I.call_method("state_to_index", [STATE])
    sp = I.attrs[backing_attr(ctx, cls, "state_space")]
    if cls.name == "Forest":
        ok = t == I.elem(STATE, ZERO) and sp == ("app", "arange", (cfgsym("S"),))
        col.add("R14.2", "Forest.state_to_index", owner.module.relpath, fn.lineno, ok,
                "index == the age itself; states are arange(S)" if ok else f"index is {show_norm(t)}, states {show_norm(sp)}", text="state index")
        return
    rav = [x for x in subterms(t) if x[0] == "app" and x[1] == "np.ravel_multi_index"]
    ok = len(rav) == 1 and t == rav[0]
    why = f"index is {brief(t, 200)}"
    if ok:
        # the product's per-dimension arange(mins[d], maxs[d] + 1) must use the same mins / dims
        from ..terms import NARROW_INT_DTYPES, canonical_space, indices_space
        sp = canonical_space(sp)
        grid = indices_space(sp)
        if grid is not None and grid[2] not in NARROW_INT_DTYPES:
            # the dense-grid idiom lists the same rows as the product of arange(M[i], M[i] + D[i])
            gd, gm, _dt = grid
            gix = ("sym", "dim#grid")
            glo = ("elem", gm, (gix,)) if not is_num(gm) else gm
            sp = ("app", "itertools.product", (("star", ("lam", gix, "dim", ("app", "arange", (glo, T_add(glo, ("elem", gd, (gix,))))))),))
        r = sp[2][0][1] if (sp[0] == "app" and sp[1] == "itertools.product") else None
        body = r[3] if r is not None and r[0] == "lam" else None
        if body is None or body[1] != "arange" or len(body[2]) != 2:
            from ..terms import meshgrid_space
            if any(x[0] == "app" and x[1] == "reshape" and (meshgrid_space(x) or (None, None))[1] == "xy" for x in subterms(sp)):
                col.add("R14.2", f"{cls.name}.state_to_index", owner.module.relpath, fn.lineno, False,
                        "the state space is (for some sizes) listed by np.meshgrid with the default indexing='xy' - rows not in row-major order of the "
                        "ranges - while state_to_index is ravel_multi_index (row-major): listed states and reachable successors map to other "
                        "states' rows", text="state index")
                return
            # another way of listing the states: this rule has no normal form for it, so it gives no verdict
            raise AnalysisError(f"{cls.name}: the state space is built by a construct outside the rule's vocabulary: {show_norm(sp)[:160]}")
        else:
            ix = r[1]
            lo_d, hi_d = _dist(body[2][0], ix), _dist(body[2][1], ix)
            arg0, dims = rav[0][2][0], rav[0][2][1]
            off_d = _dist(("elem", arg0, (ix,)), ix)
            dim_d = _dist(I.elem(dims, ix) if dims[0] == "lam" else ("elem", dims, (ix,)), ix)
            ok = off_d == T_sub(("elem", STATE, (ix,)), lo_d) and dim_d == T_sub(hi_d, lo_d)
            why = ("index == ravel(state - mins, maxs - mins + 1) with the state space's own per-dimension bounds" if ok else
                   f"index uses per-dimension offset / size {show_norm(off_d)[:80]} / {show_norm(dim_d)[:80]} but the state space's ranges are "
                   f"arange({show_norm(lo_d)[:60]}, {show_norm(hi_d)[:60]})")
    col.add("R14.2", f"{cls.name}.state_to_index", owner.module.relpath, fn.lineno, ok, why, text="state index")
