"""C01 - discounted solvers return near-optimal policies (and values) on convergence."""

from __future__ import annotations

import ast
from fractions import Fraction

from ..effects import is_self_attr
from ..interval import Iv, term_interval
from ..loader import AnalysisError
from ..terms import K, S, T_sub, is_num, show_norm
from .common import Context, calls_in, fmt_path, self_call_name
from .kernels import policy_oracle, run_method
from .solverterms import (
    CONV_TESTS,
    EPS,
    GAMMA,
    HAS_CONV_TEST,
    brief,
    documented_threshold,
    maxdiff_of,
    same,
    solver_interp,
    span_of,
)

PROP = "C01"
EXPLANATION = (
    "The error bound itself is a theorem about contractions and is not decided.  Decided are three "
    "premises that any such bound needs and that are specific to this property: (1) the stop threshold "
    "used by VI / PI / SAVI under either convergence test is never LOOSER than the documented "
    "epsilon*(1-gamma)/gamma for any gamma in (0,1), epsilon > 0 (term equality, else sign of documented - "
    "actual over the validator domain by interval evaluation, else exact evaluation on a rational grid for a "
    "witness); (2) the two convergence measures are what the documentation says - span = max(d)-min(d), "
    "max_diff = max|d| of d = new - old - as Herbrand terms; (3) on every path from the solve loop to the "
    "return the policy is extracted from the final values with the sweep's own Q-term and neither the values "
    "nor gamma are written afterwards."
)
RULES = {
    "R1.1": "threshold term <= documented epsilon*(1-gamma)/gamma on gamma in (0,1), epsilon > 0 (one-sided: stricter is fine, looser voids the bound)",
    "R1.2": "_get_span == max(new-old) - min(new-old); _get_max_diff == max(|new-old|)",
    "R1.3": "every path from the loop to the return assigns self.policy = _extract_policy() (greedy w.r.t. self.values, self.gamma) with no later write to values / gamma",
}
ASSUMPTIONS = [
    "the sweep is the exact Bellman backup (C02) and the stopping rule is wired as decided under C08",
    "for policy iteration the returned policy is the greedy policy of the evaluated values (C05 R5.4)",
]

GRID_G = [Fraction(1, 100), Fraction(1, 10), Fraction(1, 2), Fraction(9, 10), Fraction(99, 100)]
GRID_E = [Fraction(1, 1000), Fraction(1), Fraction(1000)]


def eval_term(t, env):
    """Exact evaluation of a scalar term at rational points (const / sym / poly / ite / cmp / inv)."""
    k = t[0]
    if k == "const":
        if isinstance(t[1], (Fraction, bool)):
            return Fraction(t[1])
        raise AnalysisError("non-numeric constant")
    if k == "sym":
        return env[t]
    if k == "poly":
        tot = Fraction(0)
        for mono, c in t[1]:
            v = Fraction(c)
            for a, p in mono:
                v *= eval_term(a, env) ** p
            tot += v
        return tot
    if k == "ite":
        return eval_term(t[2], env) if eval_cond(t[1], env) else eval_term(t[3], env)
    if k == "app" and t[1] == "inv":
        return 1 / eval_term(t[2][0], env)
    raise AnalysisError(f"cannot evaluate term kind {k}")


def eval_cond(c, env) -> bool:
    if c[0] == "const":
        return bool(c[1])
    if c[0] == "app" and c[1].startswith("cmp"):
        a, b = (eval_term(x, env) for x in c[2])
        return {"cmpLt": a < b, "cmpLtE": a <= b, "cmpEq": a == b, "cmpNotEq": a != b}[c[1]]
    if c[0] == "app" and c[1] == "not":
        return not eval_cond(c[2][0], env)
    raise AnalysisError("cannot evaluate condition")


def run(ctx: Context, col) -> None:
    for cname in ("ValueIteration", "PolicyIteration", "SemiAsyncValueIteration"):
        cls = ctx.ct.get(cname)
        owner, fn = ctx.ct.require(cls, "_setup_convergence_testing")
        doc = documented_threshold(cname)
        for ct_ in CONV_TESTS:
            I = solver_interp(ctx, cls, ct_)
            thr = I.attrs.get("conv_threshold")
            if thr is None:
                raise AnalysisError(f"anchor vanished: {cname}.conv_threshold is not set by _setup_convergence_testing")
            ok, why = _not_looser(thr, doc)
            col.add("R1.1", f"{cname}._setup_convergence_testing", owner.module.relpath, fn.lineno, ok,
                    why + f" [convergence_test={ct_}]", text=f"threshold [{ct_}]")
    # R1.2
    vi = ctx.ct.get("ValueIteration")
    for cname in ("ValueIteration", "PolicyIteration", "SemiAsyncValueIteration"):
        cls = ctx.ct.get(cname)
        for meth, oracle, doc in (("_get_span", span_of, "max(new-old) - min(new-old)"), ("_get_max_diff", maxdiff_of, "max(|new-old|)")):
            I = solver_interp(ctx, cls, "span")
            I.axes.update({"NEW": ("state",), "OLD": ("state",)})
            o, f = ctx.ct.require(cls, meth)
            got = I.call_method(meth, [S("NEW"), S("OLD")])
            ok = same(got, oracle(I, S("NEW"), S("OLD"))) or same(got, oracle(I, S("OLD"), S("NEW")))
            col.add("R1.2", f"{cname}.{meth}", o.module.relpath, f.lineno, ok,
                    f"== {doc}" if ok else f"measure is {brief(got, 200)}, documented {doc}", text=f"{meth} definition")
    # R1.3
    for cname in ("ValueIteration", "SemiAsyncValueIteration", "RelativeValueIteration", "PeriodicValueIteration"):
        policy_after_loop(ctx, ctx.ct.get(cname), col, "R1.3")
    col.floor("R1.1", 6)
    col.floor("R1.2", 6)
    col.floor("R1.3", 8)


def policy_after_loop(ctx, cls, col, rule):
    cname = cls.name
    if True:
        loop = ctx.solve_loop(cls)
        bad = None
        npaths = 0
        for p in loop.post_loop_paths():
            if p[-1][0] is loop.cfg.raise_exit:
                continue
            npaths += 1
            idx = None
            for i, (node, _lab) in enumerate(p):
                a = node.ast
                if isinstance(a, ast.Assign) and any(is_self_attr(t, "policy") for t in a.targets) \
                        and isinstance(a.value, ast.Call) and self_call_name(a.value) == "_extract_policy" and not a.value.args:
                    idx = i
            if idx is None:
                bad = (p, "reaches the return without `self.policy = self._extract_policy()`")
                break
            late = [n for n, _ in p[idx + 1:] if n.ast is not None and (loop.node_writes(n) & {"values", "gamma", "policy"})]
            if late:
                bad = (p, f"line {late[0].lineno} writes {sorted(loop.node_writes(late[0]) & {'values', 'gamma', 'policy'})} after the policy was extracted")
                break
        col.add(rule, f"{cname}.solve", loop.file, loop.header.lineno, bad is None and npaths > 0,
                f"policy extracted from the final values on all {npaths} paths to the return" if bad is None else f"path {fmt_path(bad[0])}: {bad[1]}",
                text="policy from final values")
        I, t = run_method(ctx, cls, "_extract_policy")
        o, f = ctx.ct.require(cls, "_extract_policy")
        okp = same(t, policy_oracle(I))
        col.add(rule, f"{cname}._extract_policy", o.module.relpath, f.lineno, okp,
                "greedy w.r.t. self.values, self.gamma with the sweep's Q-term" if okp else f"extraction term {brief(t, 240)}",
                text="extraction is greedy")


def _diff_interval(doc, thr, dom):
    """Interval of doc - thr, splitting on ite conditions shared by both (branch-wise comparison)."""
    from ..interval import refine

    if doc[0] == "ite":
        out = None
        for truth, branch in ((True, doc[2]), (False, doc[3])):
            d2 = refine(dom, doc[1], truth)
            if d2 is None:
                continue
            t2 = thr
            if thr[0] == "ite" and thr[1] == doc[1]:
                t2 = thr[2] if truth else thr[3]
            v = _diff_interval(branch, t2, d2)
            if v is None:
                return None
            out = v if out is None else out.join(v)
        return out
    if thr[0] == "ite":
        out = None
        for truth, branch in ((True, thr[2]), (False, thr[3])):
            d2 = refine(dom, thr[1], truth)
            if d2 is None:
                continue
            v = _diff_interval(doc, branch, d2)
            if v is None:
                return None
            out = v if out is None else out.join(v)
        return out
    return term_interval(T_sub(doc, thr), dom)


def _not_looser(thr, doc):
    if same(thr, doc):
        return True, "threshold == documented epsilon*(1-gamma)/gamma (epsilon when gamma == 1)"
    from ..terms import subterms
    approx = [t for t in subterms(thr) if t[0] == "ite" and t[1][0] == "app" and t[1][1].split(".")[-1] in ("isclose", "allclose")]
    if approx:
        c = approx[0]
        return False, (f"the threshold branch is selected by an approximate comparison `{show_norm(c[1])}`: every gamma within its tolerance of 1 "
                       f"(but below 1) gets the undiscounted threshold {show_norm(c[2])} instead of {show_norm(c[3])}, which is looser by the "
                       "factor gamma/(1-gamma): the a-priori error bound is void there")
    dom = {GAMMA: Iv(0.0, 1.0, True, True), EPS: Iv(0.0, float("inf"), True, True)}
    try:
        iv = _diff_interval(doc, thr, dom)
        if iv is not None and iv.lo >= 0:
            return True, f"documented - actual threshold in {iv} >= 0 on gamma in (0,1), epsilon > 0: never looser"
    except AnalysisError:
        iv = None
    worst = None
    try:
        for g in GRID_G:
            for e in GRID_E:
                env = {GAMMA: g, EPS: e}
                a, d = eval_term(thr, env), eval_term(doc, env)
                if a > d and (worst is None or a / d > worst[0]):
                    worst = (a / d, g, e, a, d)
    except AnalysisError as ex:
        raise AnalysisError(f"threshold {show_norm(thr)} cannot be compared with the documented one ({ex})") from ex
    if worst is not None:
        _r, g, e, a, d = worst
        return False, (f"threshold {show_norm(thr)} is looser than the documented {show_norm(doc)}: at gamma={g}, epsilon={e} it is "
                       f"{float(a):.6g} > {float(d):.6g}, so convergence is declared before the documented error bound holds")
    raise AnalysisError(f"threshold {show_norm(thr)}: neither proved <= documented nor refuted on the grid (undecided)")
