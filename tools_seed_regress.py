#!/usr/bin/env python3
"""Regression over the stored seeded changes: every /verif/seeded/*/patch.diff, applied to a scratch copy of
/repo/src, must still be reported (exit 1) by at least one check, and by the checks recorded in its meta.json.
usage: tools_seed_regress.py"""
import json
import os
import shutil
import subprocess
import sys
import tempfile
from concurrent.futures import ThreadPoolExecutor
from pathlib import Path

here = Path(__file__).resolve().parent
REPO = os.environ.get("MDPAX_REPO") or "/repo"
PROPS = [c["property_id"] for c in json.loads((here / "MANIFEST.json").read_text())["checks"]]


def one(d: Path):
    td = Path(tempfile.mkdtemp(prefix="mdpax_seedreg_"))
    try:
        shutil.copytree(Path(REPO) / "src", td / "src")
        r = subprocess.run(["git", "apply", str(d / "patch.diff")], cwd=td, capture_output=True, text=True)
        if r.returncode:
            return d.name, None, "patch does not apply"
        (td / "ev").mkdir()
        env = dict(os.environ, MDPAX_EVIDENCE_DIR=str(td / "ev"))
        fired, errs = [], []
        for p in PROPS:
            r = subprocess.run([str(here / "check"), p, "quick", "--repo", str(td)], capture_output=True, text=True, env=env, cwd=here)
            if r.returncode == 1:
                fired.append(p)
            elif r.returncode == 2:
                errs.append(p)
        return d.name, fired, errs
    finally:
        shutil.rmtree(td, ignore_errors=True)


def main():
    dirs = sorted(p for p in (here / "seeded").iterdir() if (p / "patch.diff").exists())
    bad = 0
    with ThreadPoolExecutor(max_workers=6) as ex:
        for name, fired, errs in ex.map(one, dirs):
            meta = json.loads((here / "seeded" / name / "meta.json").read_text())
            was = sorted(meta.get("reported_by", meta.get("checks_reporting", [])) or [])
            status = "ok"
            if not fired:
                status = "NOT REPORTED ANY MORE"
                bad += 1
            elif was and not set(was) <= set(fired):
                status = f"changed (was {was})"
            print(f"{name}: {fired} errors={errs} {status}")
    print(f"{len(dirs)} seeds, {bad} no longer reported")
    return 1 if bad else 0


if __name__ == "__main__":
    sys.exit(main())
