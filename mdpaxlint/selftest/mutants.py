"""Catalogue of seeded variants (MUTANTS) and behaviour-preserving variants (BENIGN).

Each entry is a textual edit of today's source applied in memory.  `rule` is the rule that must
report it.  An entry whose anchor text no longer exists in /repo is reported
`selftest-skipped`, never failed."""

VI = "src/mdpax/solvers/value_iteration.py"
PI = "src/mdpax/solvers/policy_iteration.py"
RVI = "src/mdpax/solvers/relative_value_iteration.py"
PVI = "src/mdpax/solvers/periodic_value_iteration.py"
SAVI = "src/mdpax/solvers/semi_async_value_iteration.py"
SOLVER = "src/mdpax/core/solver.py"
PROBLEM = "src/mdpax/core/problem.py"
CKPT = "src/mdpax/utils/checkpointing.py"
BATCH = "src/mdpax/utils/batch_processing.py"
SPACES = "src/mdpax/utils/spaces.py"
LOGGING = "src/mdpax/utils/logging.py"
FOREST = "src/mdpax/problems/forest.py"
DEMOOR = "src/mdpax/problems/perishable_inventory/de_moor_single_product.py"
HENDRIX = "src/mdpax/problems/perishable_inventory/hendrix_two_product.py"
MIRJ = "src/mdpax/problems/perishable_inventory/mirjalili_platelet.py"

MUTANTS: list[dict] = []
BENIGN: list[dict] = []


def M(id, prop, rule, file, old, new, note="", nth=None, survives="yes"):
    MUTANTS.append(dict(id=id, prop=prop, rule=rule, file=file, old=old, new=new, note=note, nth=nth,
                        survives_tests=survives))


def M2(id, prop, rule, edits, note="", survives="yes"):
    MUTANTS.append(dict(id=id, prop=prop, rule=rule, note=note, survives_tests=survives,
                        edits=[dict(file=f, old=o, new=n, nth=k) for f, o, n, k in edits]))


def B(id, props, file, old, new, note="", nth=None):
    BENIGN.append(dict(id=id, props=props, file=file, old=old, new=new, note=note, nth=nth))


def B2(id, props, edits, note=""):
    BENIGN.append(dict(id=id, props=props, note=note,
                       edits=[dict(file=f, old=o, new=n, nth=k) for f, o, n, k in edits]))


# =============================================================================== C08
_brk = "            if conv < self.conv_threshold:\n"
M("m01", "C08", "R8.3", VI, _brk, "            if conv <= self.conv_threshold:\n", "VI: `<` -> `<=`")
M("m02", "C08", "R8.3", PI, "            if conv < self.conv_threshold:\n                break",
  "            if conv <= self.conv_threshold:\n                break", "PI evaluation loop: `<` -> `<=`")
M("m03", "C08", "R8.3", RVI, "            if conv < self.epsilon:\n", "            if conv <= self.epsilon:\n", "RVI: `<` -> `<=`")
M("m04", "C08", "R8.3", PVI, _brk, "            if conv <= self.conv_threshold:\n", "PVI: `<` -> `<=`", survives="(yes) no runnable test")
M("m05", "C08", "R8.3", SAVI, _brk, "            if conv <= self.conv_threshold:\n", "SAVI: `<` -> `<=`")
M("m06", "C08", "R8.3", VI,
  '''                "max delta",
                lambda eps, gamma: eps * (1 - gamma) / gamma if gamma != 1 else eps,''',
  '''                "max delta",
                lambda eps, gamma: eps,''', "VI: max_diff threshold -> eps")
M("m07", "C08", "R8.3", RVI, "            if conv < self.epsilon:\n", "            if conv < self.epsilon * 2:\n",
  "RVI: loop compares with 2*epsilon")
M("m08", "C08", ["R8.2", "R8.1"], PVI,
  "            self.iteration += 1\n            new_values, conv = self._iteration_step()\n            self.values = new_values\n",
  "            new_values, conv = self._iteration_step()\n            self.values = new_values\n            if conv < 0:\n                continue\n            self.iteration += 1\n",
  "PVI: a path through an iteration skips the increment", survives="(yes)")
M("m09", "C08", "R8.4", SAVI,
  "            new_values, conv = self._iteration_step()\n            self.values = new_values\n",
  "            new_values, conv = self._iteration_step()\n            if conv < self.conv_threshold:\n                break\n            self.values = new_values\n",
  "SAVI: break test before the store (two breaks also trips R8.3)")
M("m10", "C08", "R8.6", PVI,
  "        if conv < self.conv_threshold:\n            self._clear_value_history()\n",
  "        self._clear_value_history()\n", "PVI: history cleared unconditionally", survives="(yes)")
M("m11", "C08", "R8.6", RVI,
  "        for _ in range(max_iterations):\n            self.iteration += 1\n",
  "        self.gain = 0.0\n        for _ in range(max_iterations):\n            self.iteration += 1\n",
  "RVI: gain reset at the top of solve")
M("m08b", "C08", "R8.2", VI,
  "        logger.info(\"Extracting policy\")\n        self.policy = self._extract_policy()\n",
  "        logger.info(\"Extracting policy\")\n        self.iteration = self.iteration + 0\n        self.policy = self._extract_policy()\n",
  "VI: a second writer of the counter after the loop")
M("m01b", "C08", "R8.3", VI, _brk, "            if conv < self.conv_threshold or self.iteration > 10**6:\n",
  "VI: extra disjunct in the break guard")
M("m01c", "C08", "R8.5", VI,
  "        conv = self._convergence_test_fn(new_values, self.values)\n\n        return new_values, conv",
  "        conv = self._convergence_test_fn(self.values, self.values)\n\n        return new_values, conv",
  "VI: measure of (values, values)", survives="no")
M("m12", "C08", "R8.5", VI,
  "        return jnp.max(jnp.abs(new_values - old_values))", "        return jnp.max(new_values - old_values)",
  "_get_max_diff without abs")
M("m13", "C08", "R8.5", VI,
  "        return jnp.max(delta) - jnp.min(delta)", "        return jnp.max(delta) - jnp.min(jnp.abs(delta))",
  "_get_span with min(abs(delta))", survives="no")
M("m08c", "C08", "R8.8", SOLVER,
  "        self.values = self._initialize_values(self.batched_states)\n        self.policy = None\n        self.iteration = 0",
  "        self.values = self._initialize_values(self.batched_states)\n        self.policy = None\n        self.iteration = 1",
  "counter starts at 1", survives="no")
M("m08d", "C08", "R8.8", SOLVER,
  "        initial_values = jax.vmap(\n            self.problem.initial_value,\n        )(state_batch)",
  "        initial_values = jax.vmap(\n            self.problem.initial_value,\n        )(state_batch) * 0.0",
  "initial values multiplied by zero (only Hendrix has non-zero ones)")
M("m08e", "C08", "R8.1", RVI,
  "        new_values, _ = super()._iteration_step()\n",
  "        new_values, _ = super()._iteration_step()\n        new_values, _ = super()._iteration_step()\n",
  "RVI: two sweeps per counted iteration")

B("b05", ["C08", "C01"], VI, _brk, "            if self.conv_threshold > conv:\n", "T > conv")
B("b04", ["C08", "C01"], VI,
  '''                "span",
                lambda eps, gamma: eps * (1 - gamma) / gamma if gamma != 1 else eps,''',
  '''                "span",
                lambda eps, gamma: eps / gamma - eps if gamma != 1 else eps,''', "threshold eps/gamma - eps")
B("b08", ["C08", "C09", "C12", "C01"], VI,
  "            self.values = new_values\n\n            logger.info(",
  "            self.values = new_values\n            logger.debug(\"stored\")\n\n            logger.info(", "extra log line")
B("b09", ["C08", "C01"], VI, "        return jnp.max(delta) - jnp.min(delta)", "        return delta.max() - delta.min()",
  "jnp.max(x) <-> x.max()")
B("b13", ["C08"], VI, _brk, "            converged = conv < self.conv_threshold\n            if converged:\n",
  "break guard through a local")
B("b14", ["C08", "C09", "C12"], VI,
  "            self.iteration += 1\n            new_values, conv = self._iteration_step()",
  "            self.iteration = self.iteration + 1\n            new_values, conv = self._iteration_step()",
  "counter increment spelled as an assignment")
