"""Catalogue of seeded variants (MUTANTS) and behaviour-preserving variants (BENIGN).

Each entry is a textual edit of today's source applied in memory.  `rule` is the rule that must
report it.  An entry whose anchor text no longer exists in /repo is reported
`selftest-skipped`, never failed."""

VI = "src/mdpax/solvers/value_iteration.py"
PI = "src/mdpax/solvers/policy_iteration.py"
RVI = "src/mdpax/solvers/relative_value_iteration.py"
PVI = "src/mdpax/solvers/periodic_value_iteration.py"
SAVI = "src/mdpax/solvers/semi_async_value_iteration.py"
SOLVER = "src/mdpax/core/solver.py"
PROBLEM = "src/mdpax/core/problem.py"
CKPT = "src/mdpax/utils/checkpointing.py"
BATCH = "src/mdpax/utils/batch_processing.py"
SPACES = "src/mdpax/utils/spaces.py"
LOGGING = "src/mdpax/utils/logging.py"
FOREST = "src/mdpax/problems/forest.py"
DEMOOR = "src/mdpax/problems/perishable_inventory/de_moor_single_product.py"
HENDRIX = "src/mdpax/problems/perishable_inventory/hendrix_two_product.py"
MIRJ = "src/mdpax/problems/perishable_inventory/mirjalili_platelet.py"

MUTANTS: list[dict] = []
BENIGN: list[dict] = []


def M(id, prop, rule, file, old, new, note="", nth=None, survives="yes"):
    MUTANTS.append(dict(id=id, prop=prop, rule=rule, file=file, old=old, new=new, note=note, nth=nth,
                        survives_tests=survives))


def M2(id, prop, rule, edits, note="", survives="yes"):
    MUTANTS.append(dict(id=id, prop=prop, rule=rule, note=note, survives_tests=survives,
                        edits=[dict(file=f, old=o, new=n, nth=k) for f, o, n, k in edits]))


def MB(id, prop, rule, base, file, old, new, note="", nth=None, survives="yes"):
    """a seeded edit made on top of the stored behaviour-preserving refactoring `base` (benign_refactors/<base>.diff)"""
    MUTANTS.append(dict(id=id, prop=prop, rule=rule, base=base, file=file, old=old, new=new, note=note, nth=nth,
                        survives_tests=survives))


def B(id, props, file, old, new, note="", nth=None):
    BENIGN.append(dict(id=id, props=props, file=file, old=old, new=new, note=note, nth=nth))


def B2(id, props, edits, note=""):
    BENIGN.append(dict(id=id, props=props, note=note,
                       edits=[dict(file=f, old=o, new=n, nth=k) for f, o, n, k in edits]))


# =============================================================================== C08
_brk = "            if conv < self.conv_threshold:\n"
M("m01", "C08", "R8.3", VI, _brk, "            if conv <= self.conv_threshold:\n", "VI: `<` -> `<=`")
M("m02", "C08", "R8.3", PI, "            if conv < self.conv_threshold:\n                break",
  "            if conv <= self.conv_threshold:\n                break", "PI evaluation loop: `<` -> `<=`")
M("m03", "C08", "R8.3", RVI, "            if conv < self.epsilon:\n", "            if conv <= self.epsilon:\n", "RVI: `<` -> `<=`")
M("m04", "C08", "R8.3", PVI, _brk, "            if conv <= self.conv_threshold:\n", "PVI: `<` -> `<=`", survives="(yes) no runnable test")
M("m05", "C08", "R8.3", SAVI, _brk, "            if conv <= self.conv_threshold:\n", "SAVI: `<` -> `<=`")
M("m06", "C08", "R8.3", VI,
  '''                "max delta",
                lambda eps, gamma: eps * (1 - gamma) / gamma if gamma != 1 else eps,''',
  '''                "max delta",
                lambda eps, gamma: eps,''', "VI: max_diff threshold -> eps")
M("m07", "C08", "R8.3", RVI, "            if conv < self.epsilon:\n", "            if conv < self.epsilon * 2:\n",
  "RVI: loop compares with 2*epsilon")
M("m08", "C08", ["R8.2", "R8.1"], PVI,
  "            self.iteration += 1\n            new_values, conv = self._iteration_step()\n            self.values = new_values\n",
  "            new_values, conv = self._iteration_step()\n            self.values = new_values\n            if conv < 0:\n                continue\n            self.iteration += 1\n",
  "PVI: a path through an iteration skips the increment", survives="(yes)")
M("m09", "C08", "R8.4", SAVI,
  "            new_values, conv = self._iteration_step()\n            self.values = new_values\n",
  "            new_values, conv = self._iteration_step()\n            if conv < self.conv_threshold:\n                break\n            self.values = new_values\n",
  "SAVI: break test before the store (two breaks also trips R8.3)")
M("m10", "C08", "R8.6", PVI,
  "        if conv < self.conv_threshold:\n            self._clear_value_history()\n",
  "        self._clear_value_history()\n", "PVI: history cleared unconditionally", survives="(yes)")
M("m11", "C08", "R8.6", RVI,
  "        for _ in range(max_iterations):\n            self.iteration += 1\n",
  "        self.gain = 0.0\n        for _ in range(max_iterations):\n            self.iteration += 1\n",
  "RVI: gain reset at the top of solve")
M("m08b", "C08", "R8.2", VI,
  "        logger.info(\"Extracting policy\")\n        self.policy = self._extract_policy()\n",
  "        logger.info(\"Extracting policy\")\n        self.iteration = self.iteration + 0\n        self.policy = self._extract_policy()\n",
  "VI: a second writer of the counter after the loop")
M("m01b", "C08", "R8.3", VI, _brk, "            if conv < self.conv_threshold or self.iteration > 10**6:\n",
  "VI: extra disjunct in the break guard")
M("m01c", "C08", "R8.5", VI,
  "        conv = self._convergence_test_fn(new_values, self.values)\n\n        return new_values, conv",
  "        conv = self._convergence_test_fn(self.values, self.values)\n\n        return new_values, conv",
  "VI: measure of (values, values)", survives="no")
M("m12", "C08", "R8.5", VI,
  "        return jnp.max(jnp.abs(new_values - old_values))", "        return jnp.max(new_values - old_values)",
  "_get_max_diff without abs")
M("m13", "C08", "R8.5", VI,
  "        return jnp.max(delta) - jnp.min(delta)", "        return jnp.max(delta) - jnp.min(jnp.abs(delta))",
  "_get_span with min(abs(delta))", survives="no")
M("m08c", "C08", "R8.8", SOLVER,
  "        self.values = self._initialize_values(self.batched_states)\n        self.policy = None\n        self.iteration = 0",
  "        self.values = self._initialize_values(self.batched_states)\n        self.policy = None\n        self.iteration = 1",
  "counter starts at 1", survives="no")
M("m08d", "C08", "R8.8", SOLVER,
  "        initial_values = jax.vmap(\n            self.problem.initial_value,\n        )(state_batch)",
  "        initial_values = jax.vmap(\n            self.problem.initial_value,\n        )(state_batch) * 0.0",
  "initial values multiplied by zero (only Hendrix has non-zero ones)")
M("m08e", "C08", "R8.1", RVI,
  "        new_values, _ = super()._iteration_step()\n",
  "        new_values, _ = super()._iteration_step()\n        new_values, _ = super()._iteration_step()\n",
  "RVI: two sweeps per counted iteration")

B("b05", ["C08", "C01"], VI, _brk, "            if self.conv_threshold > conv:\n", "T > conv")
B("b04", ["C08", "C01"], VI,
  '''                "span",
                lambda eps, gamma: eps * (1 - gamma) / gamma if gamma != 1 else eps,''',
  '''                "span",
                lambda eps, gamma: eps / gamma - eps if gamma != 1 else eps,''', "threshold eps/gamma - eps")
B("b08", ["C08", "C09", "C12", "C01"], VI,
  "            self.values = new_values\n\n            logger.info(",
  "            self.values = new_values\n            logger.debug(\"stored\")\n\n            logger.info(", "extra log line")
B("b09", ["C08", "C01"], VI, "        return jnp.max(delta) - jnp.min(delta)", "        return delta.max() - delta.min()",
  "jnp.max(x) <-> x.max()")
B("b13", ["C08"], VI, _brk, "            converged = conv < self.conv_threshold\n            if converged:\n",
  "break guard through a local")
B("b14", ["C08", "C09", "C12"], VI,
  "            self.iteration += 1\n            new_values, conv = self._iteration_step()",
  "            self.iteration = self.iteration + 1\n            new_values, conv = self._iteration_step()",
  "counter increment spelled as an assignment")

# =============================================================================== C09
M("m46", "C09", "R9.1", RVI, "        self.gain = solver_state.info.gain\n", "", "RVI: gain not restored")
M("m47", "C09", "R9.1", PVI, "        self.value_history = solver_state.info.value_history\n", "", "PVI: value_history not restored", survives="(yes)")
M("m48", "C09", "R9.1", PVI, "        self.history_index = solver_state.info.history_index\n", "", "PVI: history_index not restored", survives="(yes)")
M("m49", "C09", "R9.2", SAVI, "        self.batch_order = solver_state.info.batch_order\n", "        self.batch_order = solver_state.info.iteration\n",
  "SAVI: batch_order restored from the iteration field")
M("m49b", "C09", "R9.2", RVI, "        self.gain = solver_state.info.gain\n", "        self.gain = solver_state.info.iteration\n",
  "RVI: gain restored from the iteration field")
M2("m51", "C09", "R9.1", [
    (VI, "        # Calculate convergence measure\n        conv = self._convergence_test_fn(new_values, self.values)\n\n        return new_values, conv",
     "        # Calculate convergence measure\n        conv = self._convergence_test_fn(new_values, self.values)\n        self.momentum = 0.9 * self.momentum + conv\n\n        return new_values, conv", None),
    (VI, "        self.conv_threshold = threshold_fn(self.epsilon, self.gamma)\n", "        self.conv_threshold = threshold_fn(self.epsilon, self.gamma)\n        self.momentum = 0.0\n", None)],
   "VI gains a loop-carried attribute that is not checkpointed")
for _i, (_f, _n) in enumerate([(RVI, "RVI"), (PVI, "PVI"), (PI, "PI"), (SAVI, "SAVI")]):
    if _n == "PI":
        M(f"m52{_n}", "C09", "R9.3", _f,
          "            new_policy, n_changed = self._iteration_step()\n            self.policy = new_policy\n",
          "            new_policy, n_changed = self._iteration_step()\n            if self.is_checkpointing_enabled and self.iteration % self.checkpoint_frequency == 0:\n                self.save(self.iteration)\n            self.policy = new_policy\n",
          "PI: periodic save before the policy is stored")
    else:
        M(f"m52{_n}", "C09", "R9.3", _f,
          "            new_values, conv = self._iteration_step()\n            self.values = new_values\n",
          "            new_values, conv = self._iteration_step()\n            if self.is_checkpointing_enabled and self.iteration % self.checkpoint_frequency == 0:\n                self.save(self.iteration)\n            self.values = new_values\n",
          f"{_n}: periodic save before the values are stored")
M("m53", "C09", "R9.3", RVI, "                self.save(self.iteration)\n\n        if conv >= self.epsilon:",
  "                self.save(self.iteration - 1)\n\n        if conv >= self.epsilon:", "RVI: periodic save labelled iteration - 1")
M("m54", "C09", "R9.4", CKPT, "        # Get state to checkpoint\n        cp_state = self.solver_state\n",
  "        # Get state to checkpoint\n        self.iteration = step\n        cp_state = self.solver_state\n", "save() writes the counter")
M("m54b", "C09", "R9.5", CKPT, "        self.checkpoint_manager.save(step, args=checkpoint.args.StandardSave(cp_state))",
  "        self.checkpoint_manager.save(step + 1, args=checkpoint.args.StandardSave(cp_state))", "save() relabels the step")
M("m54c", "C09", "R9.3", SAVI, "            self.iteration += 1\n            new_values, conv = self._iteration_step()\n            self.values = new_values\n",
  "            new_values, conv = self._iteration_step()\n            self.values = new_values\n            if self.is_checkpointing_enabled and self.iteration % self.checkpoint_frequency == 0:\n                self.save(self.iteration)\n            self.iteration += 1\n",
  "SAVI: save before the increment")
B("b07", ["C09", "C12", "C08"], VI,
  "            if (\n                self.is_checkpointing_enabled\n                and self.iteration % self.checkpoint_frequency == 0\n            ):\n                self.save(self.iteration)\n\n        if conv >= self.conv_threshold:",
  "            if (\n                self.is_checkpointing_enabled\n                and self.iteration % self.checkpoint_frequency == 0\n            ):\n                self._periodic_save()\n\n        if conv >= self.conv_threshold:",
  "periodic save extracted into a helper (helper added below)")
BENIGN[-1]["edits"] = [
    dict(file=VI, old=BENIGN[-1].pop("old"), new=BENIGN[-1].pop("new"), nth=None),
    dict(file=VI, old="    def _restore_state_from_checkpoint(self, solver_state: SolverState) -> None:",
         new="    def _periodic_save(self) -> None:\n        self.save(self.iteration)\n\n    def _restore_state_from_checkpoint(self, solver_state: SolverState) -> None:", nth=None),
]
BENIGN[-1].pop("file"); BENIGN[-1].pop("nth")

# =============================================================================== C10
M("m50", "C10", "R10.2", PVI, "                history_index=self.history_index,\n                period=self.period,\n",
  "                history_index=self.history_index,\n", "PVI solver_state omits period=", survives="(yes)")
M("m64", "C10", "R10.1", PI, '_target_: str = "mdpax.solvers.policy_iteration.PolicyIteration"',
  '_target_: str = "mdpax.solvers.policy_iteration.PolicyIter"', "PI _target_ typo")
M2("m65", "C10", "R10.1", [
    (SAVI, "    Config = SemiAsyncValueIterationConfig\n", "    Config = ValueIterationConfig\n", None),
    (SAVI, "from mdpax.solvers.value_iteration import ValueIteration\n", "from mdpax.solvers.value_iteration import ValueIteration, ValueIterationConfig\n", None)],
   "SAVI Config attribute points at another config class", survives="no")
M("m65b", "C10", "R10.1", RVI, '_target_: str = "mdpax.solvers.relative_value_iteration.RelativeValueIteration"',
  '_target_: str = "mdpax.solvers.value_iteration.ValueIteration"', "RVI config targets plain VI")
M("m66", "C10", "R10.3", CKPT,
  "        step = step or manager.latest_step()\n        if step is None:\n            raise ValueError(f\"No checkpoints found in {checkpoint_dir}\")\n",
  "        step = step or manager.latest_step()\n", "restore(): the None check deleted")
M("m67", "C10", "R10.3", CKPT, "        self._restore_state_from_checkpoint(cp_state)\n", "        pass\n",
  "load_checkpoint: restored state never applied", survives="no")
M("m68", "C10", "R10.4", CKPT, "            config.max_checkpoints = max_checkpoints\n", "            config.max_checkpoints = checkpoint_frequency\n",
  "restore(): retention override takes the frequency", survives="no")
M("m68b", "C10", "R10.4", CKPT, "            config.checkpoint_dir = new_checkpoint_dir\n", "            config.checkpoint_dir = checkpoint_dir\n",
  "restore(): new directory override ignored")
M("m68c", "C10", "R10.3", CKPT, "        template_cp_state = solver.solver_state\n        manager = cls._create_checkpoint_manager(checkpoint_dir, 1, True)",
  "        template_cp_state = None\n        manager = cls._create_checkpoint_manager(checkpoint_dir, 1, True)", "restore(): no template")
M("m68d", "C10", "R10.5", SOLVER, "                self.config.problem = problem.config\n", "                pass\n",
  "problem config not recorded in solver config")
M("m68e", "C10", "R10.3", CKPT,
  "        if not config_path.exists():\n            raise FileNotFoundError(",
  "        if False:\n            raise FileNotFoundError(", "restore(): missing-config check disabled")

# =============================================================================== C12
for _f, _n in [(PI, "PI"), (RVI, "RVI"), (PVI, "PVI"), (SAVI, "SAVI")]:
    M(f"m55{_n}", "C12", "R12.2", _f,
      "        # Final checkpoint if enabled\n        if self.is_checkpointing_enabled:\n            self.save(self.iteration)\n",
      "", f"{_n}: final save deleted")
M("m59", "C12", "R12.1", PI, "                and self.iteration % self.checkpoint_frequency == 0\n",
  "                and self.iteration % self.checkpoint_frequency == 1\n", "PI: cadence off by one")
M("m60", "C12", "R12.3", CKPT,
  "            self.checkpoint_dir, max_checkpoints, enable_async_checkpointing\n",
  "            self.checkpoint_dir, enable_async_checkpointing, max_checkpoints\n", "retention and async flag swapped positionally")
M("m60b", "C12", "R12.3", CKPT, "            max_to_keep=max_checkpoints,\n", "            max_to_keep=None,\n", "retention never reaches Orbax")
M("m60c", "C12", "R12.3", SAVI, "", "", "placeholder", survives="n/a")
MUTANTS.pop()
M("m60d", "C12", "R12.3", VI, "            max_checkpoints=self.config.max_checkpoints,\n", "            max_checkpoints=self.config.checkpoint_frequency,\n",
  "solver passes the frequency as the retention limit")
M("m61", "C12", "R12.4", CKPT,
  "        # Early return if checkpointing not requested\n        if self.checkpoint_frequency == 0:\n            logger.info(\"Checkpointing not enabled\")\n            return\n",
  "        if checkpoint_dir is not None:\n            Path(checkpoint_dir).mkdir(parents=True, exist_ok=True)\n        # Early return if checkpointing not requested\n        if self.checkpoint_frequency == 0:\n            logger.info(\"Checkpointing not enabled\")\n            return\n",
  "directory created before the frequency-zero return")
M("m62", "C12", "R12.5", CKPT, "        if self.has_full_config:\n            self._save_solver_config()\n            logger.info(",
  "        self._save_solver_config()\n        if self.has_full_config:\n            logger.info(", "config.yaml written unconditionally")
M("m63", "C12", "R12.6", CKPT, "        status = \"queued\" if self.enable_async_checkpointing else \"saved\"\n",
  "        (self.checkpoint_dir / \"latest\").write_text(str(step))\n        status = \"queued\" if self.enable_async_checkpointing else \"saved\"\n",
  "a second writer of the checkpoint directory")
M("m63b", "C12", "R12.1", VI,
  "            if (\n                self.is_checkpointing_enabled\n                and self.iteration % self.checkpoint_frequency == 0\n            ):\n                self.save(self.iteration)\n",
  "            if self.is_checkpointing_enabled:\n                self.save(self.iteration)\n", "VI: saves every iteration regardless of frequency")
M("m63c", "C12", "R12.2", VI,
  "        # Final checkpoint if enabled\n        if self.is_checkpointing_enabled:\n            self.save(self.iteration)\n",
  "        # Final checkpoint if enabled\n        if self.is_checkpointing_enabled and conv < self.conv_threshold:\n            self.save(self.iteration)\n",
  "VI: final save only on convergence")
B("b15", ["C12", "C09"], VI,
  "        # Final checkpoint if enabled\n        if self.is_checkpointing_enabled:\n            self.save(self.iteration)\n",
  "        # Final checkpoint (save() returns early when checkpointing is disabled)\n        self.save(self.iteration)\n",
  "final save without the redundant guard")

# =============================================================================== C19
M("m73", "C19", "R19.1", SPACES, "tuple(vector - mins), dimensions", "tuple(vector), dimensions", "mins offset removed again (the original defect)")
M("m73b", "C19", "R19.1", SPACES, "tuple(vector - mins), dimensions", "tuple(vector + mins), dimensions", "mins added instead of subtracted")
M("m74", "C19", "R19.4", SPACES, 'mode="clip"', 'mode="wrap"', "wrap instead of clip")
M("m75", "C19", ["R19.2", "R19.3"], SPACES, "np.arange(min_val, max_val + 1)  # +1 to include max_val", "np.arange(min_val, max_val)", "upper bound excluded", survives="no")
M("m75b", "C19", "R19.2", SPACES, "dimensions = maxs - mins + 1", "dimensions = maxs - mins", "dimensions one short", survives="no")
M("m75c", "C19", "R19.3", SPACES, "for min_val, max_val in zip(mins, maxs)", "for min_val, max_val in zip(mins[::-1], maxs[::-1])", "ranges in reversed dimension order", survives="no")
B("b16", ["C19"], SPACES, "dimensions = maxs - mins + 1  # +1 because bounds are inclusive", "dimensions = 1 + (maxs - mins)", "operands commuted")
B("b17", ["C19"], SPACES, "tuple(vector - mins), dimensions", "tuple(-mins + vector), dimensions", "operands commuted in the index")

# =============================================================================== C20
M("m82", "C20", "R20.1", SOLVER, "from hydra.utils import instantiate\n", "", "instantiate import deleted (original defect D2)")
M("m83", "C20", "R20.2", SOLVER, 'logger.info(f"Solver initialized with {self.problem.name} problem")', 'logger.info(f"Solver initialized with {problem.name} problem")',
  "log line dereferences the None-able parameter again (D2)")
M("m84", "C20", "R20.5", LOGGING, "    decimal_places = max(0, min(decimal_places, max_decimals))", "    decimal_places = min(decimal_places, max_decimals)", "precision clamp deleted (D3)")
M("m84b", "C20", "R20.5", LOGGING, "    if not np.isfinite(epsilon):\n        return \".0f\"\n", "", "non-finite guard deleted (D3, gamma == 0)")
M2("m85", "C20", "R20.6", [
    (SOLVER, "        # Store core attributes\n        self.gamma = jnp.array(self.config.gamma)\n", "        # Store core attributes\n", None),
    (SOLVER, "        # Set up precision before any JAX array is created or the problem is built\n",
     "        self.gamma = jnp.array(self.config.gamma)\n        # Set up precision before any JAX array is created or the problem is built\n", None)],
   "gamma array created above the 64-bit switch (D4a)")
M("m76", "C20", "R20.3", PI, "        if self.epsilon <= 0:\n            raise ValueError(\"epsilon must be positive\")\n", "", "PI: epsilon guard deleted")
M("m77", "C20", "R20.3", SAVI, "        if not 0 <= self.gamma <= 1:\n            raise ValueError(\"gamma must be between 0 and 1\")\n", "", "SAVI: gamma guard deleted")
M("m78", "C20", "R20.3", PVI, "        if self.period <= 0:\n            raise ValueError(\"Period must be positive\")\n", "", "PVI: period guard deleted", survives="(yes)")
M("m79", "C20", "R20.3", RVI, "        if not self.gamma == 1.0:\n            raise ValueError(\"gamma must be 1.0 for relative value iteration\")\n", "", "RVI: gamma == 1 guard deleted")
M("m80", "C20", "R20.3", DEMOOR, "        if self.issue_policy not in [\"fifo\", \"lifo\"]:\n            raise ValueError(\"issue_policy must be 'fifo' or 'lifo'\")\n", "", "De Moor: issue_policy guard deleted")
M("m81", "C20", "R20.3", VI, "        if not 0 <= self.gamma <= 1:", "        if not 0 < self.gamma <= 1:", "VI: gamma = 0 rejected")
M("m81b", "C20", "R20.3", FOREST, "        if not 0 <= self.p <= 1:", "        if not 0 <= self.p < 1:", "Forest: p = 1 rejected")
M("m81c", "C20", "R20.3", HENDRIX, "        if self.max_order_quantity_b <= 0:", "        if self.max_order_quantity_b < 0:", "Hendrix: zero order limit for B accepted")
M("m81d", "C20", "R20.3", MIRJ, "        if len(self.weekday_demand_negbin_delta) != 7:", "        if len(self.weekday_demand_negbin_delta) != 6:", "Mirjalili: wrong weekday vector length", survives="no")
M("m81e", "C20", "R20.3", VI, "        if self.max_checkpoints < 0:\n            raise ValueError(", "        if self.max_checkpoints < 0:\n            raise KeyError(", "VI: wrong exception type")
M("m81f", "C20", "R20.3", PVI, "        if self.gamma == 1.0 and self.period < 2:", "        if self.gamma == 1.0 and self.period < 1:", "PVI: period 1 accepted for gamma == 1", survives="(yes)")
M("m64c", "C20", "R20.4", FOREST, '_target_: str = "mdpax.problems.forest.Forest"', '_target_: str = "mdpax.problems.forests.Forest"', "Forest _target_ typo")
B("b11", ["C20"], VI, "        if self.epsilon <= 0:\n            raise ValueError(\"epsilon must be positive\")", "        if not self.epsilon > 0:\n            raise ValueError(\"epsilon must be positive\")", "guard spelled with not >")
# (b18, the gamma guard respelled as a disjunction, was listed as behaviour-preserving until the eighth wave: it differs for NaN - seed S130 - and is now m167)
M("m167", "C20", "R20.15", VI, "        if not 0 <= self.gamma <= 1:", "        if self.gamma < 0 or self.gamma > 1:", "gamma guard as a disjunction: accepts NaN")
B("b18", ["C20"], VI, "        if not 0 <= self.gamma <= 1:", "        if not (self.gamma >= 0 and self.gamma <= 1):", "gamma guard as a negated conjunction (rejects NaN like the chain)")
B("b19", ["C20"], LOGGING, "    decimal_places = max(0, min(decimal_places, max_decimals))", "    decimal_places = min(max(decimal_places, 0), max_decimals)", "clamp in the other nesting order")
B("b20", ["C20"], PI, "        if self.max_eval_iter <= 0:", "        if self.max_eval_iter < 1:", "integer guard as < 1")

# =============================================================================== C18
M("m69", "C18", "R18.1", BATCH, "        self.n_pad = total_size - n_states\n", "        self.n_pad = total_size - n_states + 1\n", "padding off by one", survives="no")
M("m70", "C18", "R18.2", BATCH, "                [states, jnp.zeros((self.n_pad, self.state_dim), dtype=states.dtype)]",
  "                [jnp.zeros((self.n_pad, self.state_dim), dtype=states.dtype), states]", "padding stacked before the states", survives="no")
M("m71", "C18", "R18.3", BATCH,
  "            self.batch_size = min(\n                max_batch_size,  # user provided/default max\n                max(64, states_per_device),  # ensure minimum batch size\n            )",
  "            self.batch_size = max(64, states_per_device)", "multi-device batch size ignores the maximum", survives="no")
M("m72", "C18", "R18.4", BATCH, "        states_per_device = (n_states + self.n_devices - 1) // self.n_devices", "        states_per_device = n_states // self.n_devices",
  "floor instead of ceiling division per device (slots < states when D does not divide N; every test uses one device or divisible sizes)")
M("m72b", "C18", "R18.4", BATCH, "            self.n_batches = (\n                states_per_device + self.batch_size - 1\n            ) // self.batch_size",
  "            self.n_batches = states_per_device // self.batch_size", "floor division for the batch count", survives="no")
M("m72c", "C18", "R18.2", BATCH, "            return results[: -self.n_pad]", "            return results[self.n_pad :]", "padding stripped from the front", survives="no")
M("m72d", "C18", "R18.1", BATCH, "            self.n_devices, self.n_batches, self.batch_size, self.state_dim\n        )",
  "            self.n_batches, self.n_devices, self.batch_size, self.state_dim\n        )", "device and batch axes swapped in the reshape")
M("m72e", "C18", "R18.5", BATCH, "            len(jax.devices()) if pmap_device_count is None else pmap_device_count", "            len(jax.devices())",
  "requested device count ignored", survives="no")
M("m72f", "C18", "R18.3", BATCH, "            self.batch_size = min(max_batch_size, n_states)", "            self.batch_size = max_batch_size",
  "single-device batch size not clipped to the problem size (bound still holds: R18.3 silent) - expected R18.4/R18.1 silent too; kept as a behaviour-preserving probe", survives="yes")
MUTANTS.pop()
B("b12", ["C18"], BATCH, "            return results[: -self.n_pad]", "            return results[: self.n_states]", "keep the first n_states rows instead of stripping n_pad")
B("b21", ["C18"], BATCH, "        total_size = self.n_devices * self.n_batches * self.batch_size", "        total_size = self.batch_size * self.n_batches * self.n_devices", "product commuted")
B("b22", ["C18"], BATCH, "        states_per_device = (n_states + self.n_devices - 1) // self.n_devices", "        states_per_device = -(-n_states // self.n_devices)", "ceiling division spelled with negation")

# =============================================================================== C07
M("m35", "C07", "R7.1", PVI, "        prev_index = (history_index + 1) % (period + 1)", "        prev_index = (history_index + 1) % period", "undiscounted slot modulus period", survives="(yes)")
M("m36", "C07", "R7.1", PVI, "            curr_index = (history_index - p) % (period + 1)", "            curr_index = (history_index - p) % period", "curr_index modulus period", survives="(yes)")
M("m37", "C07", "R7.1", PVI, "            prev_index = (curr_index - 1) % (period + 1)", "            prev_index = (curr_index - 1) % period", "prev_index modulus period", survives="(yes)")
M("m38", "C07", ["R7.1", "R7.6"], PVI, "        self.history_index = (self.history_index + 1) % (self.period + 1)", "        self.history_index = (self.history_index + 1) % self.period",
  "index advance modulus period", survives="(yes)")
M("m39", "C07", "R7.2", PVI, "        prev_index = (history_index + 1) % (period + 1)", "        prev_index = history_index % (period + 1)", "compares with the current slot", survives="(yes)")
M("m40", "C07", "R7.3", PVI, "                gamma ** (iteration - p - 1)", "                gamma ** (iteration - p)", "discount exponent off by one", survives="(yes)")
M("m41", "C07", "R7.3", PVI, "            prev_index = (curr_index - 1) % (period + 1)", "            prev_index = (curr_index + 1) % (period + 1)", "previous slot taken from the wrong side", survives="(yes)")
M("m42", "C07", "R7.4", PVI, "        if iteration < period:\n            return float(\"inf\")", "        if iteration <= period:\n            return float(\"inf\")", "warm-up one sweep too long", survives="(yes)")
M("m42b", "C07", "R7.4", PVI, "            self.iteration += 1\n            new_values, conv = self._iteration_step()", "            new_values, conv = self._iteration_step()\n            self.iteration += 1",
  "increment after the step (n lags by one)", survives="(yes)")
M("m43", "C07", "R7.6", PVI,
  "        # Store values in history (CPU)\n        self.history_index = (self.history_index + 1) % (self.period + 1)\n        self.value_history[self.history_index] = np.array(new_values)\n\n        # Calculate convergence using the test function\n        conv = self._convergence_test_fn(\n            new_values,\n            self.values,\n            self.history_index,\n            self.period,\n            self.value_history,\n            self.iteration,\n            self.gamma,\n        )\n",
  "        # Calculate convergence using the test function\n        conv = self._convergence_test_fn(\n            new_values,\n            self.values,\n            self.history_index,\n            self.period,\n            self.value_history,\n            self.iteration,\n            self.gamma,\n        )\n        # Store values in history (CPU)\n        self.history_index = (self.history_index + 1) % (self.period + 1)\n        self.value_history[self.history_index] = np.array(new_values)\n",
  "convergence call before the history store", survives="(yes)")
M("m44", "C07", "R7.6", PVI, "            self.history_index,\n            self.period,\n            self.value_history,", "            self.period,\n            self.history_index,\n            self.value_history,",
  "history_index and period swapped in the 7-argument call", survives="(yes)")
M("m45", "C07", "R7.8", PVI, "        self.value_history[0] = np.array(self.values)\n", "", "row 0 of the history never set", survives="(yes)")
M("m45b", "C07", "R7.1", PVI, "        self.value_history = np.zeros((self.period + 1, self.problem.n_states))", "        self.value_history = np.zeros((self.period, self.problem.n_states))",
  "buffer one row short", survives="(yes)")
MUTANTS[-1]["rule"] = ["R7.1", "R7.8"]
M("m45c", "C07", ["R7.5", "R7.2"], PVI, "        if gamma == 1.0:\n            return self._calculate_period_span_without_discount(", "        if gamma != 1.0:\n            return self._calculate_period_span_without_discount(",
  "branches swapped", survives="(yes)")
M("m45d", "C07", "R7.7", PVI, "    def _iteration_step(self) -> tuple[ValueFunction, float]:\n        \"\"\"Perform one iteration of the solution algorithm.",
  "    def _get_value_next_state(self, next_state, values):\n        return values[0]\n\n    def _iteration_step(self) -> tuple[ValueFunction, float]:\n        \"\"\"Perform one iteration of the solution algorithm.",
  "PVI overrides a kernel method", survives="(yes)")
M("m15", "C07", ["R7.7", "R7.6"], PVI, "            self.problem.action_space,\n            self.problem.random_event_space,\n            self.gamma,\n            self.values,\n        )\n        # Store values in history",
  "            self.problem.random_event_space,\n            self.problem.action_space,\n            self.gamma,\n            self.values,\n        )\n        # Store values in history",
  "action and event spaces swapped in PVI's sweep call", survives="(yes)")
B("b06", ["C07"], PVI, "        prev_index = (history_index + 1) % (period + 1)", "        prev_index = (history_index - period) % (period + 1)", "slot written as (h - P) mod (P+1)")
B("b23", ["C07"], PVI, "            period_deltas += (values_curr - values_prev) / (\n                gamma ** (iteration - p - 1)\n            )",
  "            period_deltas += (values_curr - values_prev) * gamma ** (p + 1 - iteration)", "division by a power written as a negative power")
B("b24", ["C07"], PVI, "            prev_index = (curr_index - 1) % (period + 1)", "            prev_index = (history_index - p - 1) % (period + 1)", "prev index computed directly")

# =============================================================================== C05
M("m25", "C05", "R5.3", PI, "        n_changed = jnp.any(new_policy != self.policy, axis=1).sum()", "        n_changed = jnp.all(new_policy != self.policy, axis=1).sum()",
  "any -> all over action components (all tested problems have 1-component actions)")
M("m26", "C05", "R5.1", PI, "        batch_actions = policy[batch_indices]  # Already contains action vectors", "        batch_actions = policy[: state_batch.shape[0]]",
  "positional policy slice instead of lookup by state index (single unpadded batch in every PI test)")
M2("m27", "C05", "R5.5", [
    (PI, "        self.values = jnp.zeros(self.problem.n_states)\n        self.policy = self._initialize_policy()\n        self.values = self._initialize_values(self.batched_states)\n",
     "        self.values = self._initialize_values(self.batched_states)\n        self.policy = self._initialize_policy()\n", None)],
   "real initial values assigned before the fall-back policy is extracted (only Hendrix has non-zero ones)")
M("m28", "C05", "R5.5", PI, "        except NotImplementedError:\n", "        except Exception:\n", "fallback on any exception")
M("m29", "C05", "R5.4", PI,
  "        self.values = self._evaluate_policy(self.policy)\n\n        # Improve policy using parent's policy extraction\n        new_policy = self._extract_policy()\n",
  "        # Improve policy using parent's policy extraction\n        new_policy = self._extract_policy()\n        self.values = self._evaluate_policy(self.policy)\n",
  "improvement before evaluation", survives="no")
M("m29b", "C05", "R5.2", PI, "            new_values = self._calculate_policy_values(policy, values)", "            new_values = self._calculate_policy_values(policy, self.values)",
  "evaluation loop never chains its iterates")
M("m29c", "C05", "R5.1", PI, "        )(state_batch, batch_actions, random_events, gamma, values)\n\n        return carry, new_values",
  "        )(state_batch, batch_actions, random_events, 1.0, values)\n\n        return carry, new_values", "evaluation kernel ignores gamma", survives="no")
M("m29d", "C05", "R5.3", PI, "        n_changed = jnp.any(new_policy != self.policy, axis=1).sum()", "        n_changed = jnp.any(new_policy[:, :1] != self.policy[:, :1], axis=1).sum()",
  "only the first action component compared")
M("m29e", "C05", "R5.2", PI, "        for eval_iter in range(self.config.max_eval_iter):", "        for eval_iter in range(self.config.max_eval_iter + 1):", "evaluation budget off by one")
B("b25", ["C05"], PI, "        n_changed = jnp.any(new_policy != self.policy, axis=1).sum()", "        n_changed = jnp.sum(jnp.any(new_policy != self.policy, axis=1))", "sum spelled as a function")
B("b26", ["C05"], PI, "        n_changed = jnp.any(new_policy != self.policy, axis=1).sum()", "        n_changed = (new_policy != self.policy).sum()", "total number of changed components")

# =============================================================================== C02
M("m15b", "C02", ["R2.1", "R2.4"], PVI, "            self.problem.action_space,\n            self.problem.random_event_space,\n            self.gamma,\n            self.values,\n        )\n        # Store values in history",
  "            self.problem.random_event_space,\n            self.problem.action_space,\n            self.gamma,\n            self.values,\n        )\n        # Store values in history",
  "PVI: action and event spaces swapped in the (untested) sweep call", survives="(yes)")
M("m16", "C02", "R2.1", VI, "        return (single_step_rewards + gamma * next_state_values).dot(probs)", "        return (single_step_rewards + next_state_values).dot(probs)",
  "VI Q-term without gamma", survives="no", nth=None)
M("m16b", "C02", "R2.1", VI, "        return (single_step_rewards + gamma * next_state_values).dot(probs)", "        return (single_step_rewards + gamma + next_state_values).dot(probs)",
  "gamma added instead of multiplied", survives="no")
M("m17", "C02", "R2.3", VI, "                self.problem.random_event_space,\n                self.gamma,\n                self.values,\n            ),\n            self.batched_states,\n        )\n        policy_idxs",
  "                self.problem.random_event_space,\n                self.conv_threshold,\n                self.values,\n            ),\n            self.batched_states,\n        )\n        policy_idxs",
  "extraction passes the threshold in the gamma slot", survives="no")
M("m17b", "C02", "R2.1", VI, "        return values[self.problem.state_to_index(next_state)]", "        return values[next_state[0]]",
  "successor value looked up by the first state component instead of state_to_index (right for Forest only)")
M("m17c", "C02", "R2.1", VI,
  "        return jnp.max(\n            jax.vmap(\n                self._calculate_updated_state_action_value,\n                in_axes=(None, 0, None, None, None),\n            )(state, actions, random_events, gamma, values)\n        )",
  "        return jnp.min(\n            jax.vmap(\n                self._calculate_updated_state_action_value,\n                in_axes=(None, 0, None, None, None),\n            )(state, actions, random_events, gamma, values)\n        )",
  "min over actions", survives="no")
M("m17d", "C02", "R2.3", VI, "        return jnp.take(self.problem.action_space, policy_idxs, axis=0)", "        return jnp.take(self.problem.random_event_space, policy_idxs, axis=0)",
  "policy rows taken from the event space", survives="no")
M("m17e", "C02", ["R2.1", "R2.4"], VI,
  "        )(\n            state,\n            action,\n            random_events,\n        )\n        next_state_values",
  "        )(\n            state,\n            action,\n            random_events[::-1],\n        )\n        next_state_values",
  "transitions evaluated on the reversed event list while probabilities use the natural one")
M("m17f", "C02", "R2.3", PI, "        self._extract_policy_idx_scan_state_batches_pmap = jax.pmap(\n            self._extract_policy_idx_scan_state_batches,\n            in_axes=((None, None, None, None), 0),\n        )\n\n    def _initialize_solver_state_elements",
  "        self._extract_policy_idx_scan_state_batches_pmap = jax.pmap(\n            self._calculate_updated_value_scan_state_batches,\n            in_axes=((None, None, None, None), 0),\n        )\n\n    def _initialize_solver_state_elements",
  "PI re-binds the extraction pmap to the value kernel", survives="no")
B("b01", ["C02", "C03", "C06", "C01"], VI, "        values, gamma, action_space, random_event_space = carry\n        new_values = jax.vmap(\n            self._calculate_updated_value,\n            in_axes=(0, None, None, None, None),\n        )(state_batch, values, gamma, action_space, random_event_space)",
  "        actions, random_events, gamma, values = carry\n        new_values = jax.vmap(\n            self._calculate_updated_value,\n            in_axes=(0, None, None, None, None),\n        )(state_batch, actions, random_events, gamma, values)",
  "the mislabelled carry names corrected")
B("b02", ["C02", "C01"], VI, "        return (single_step_rewards + gamma * next_state_values).dot(probs)", "        return (next_state_values * gamma + single_step_rewards).dot(probs)", "commuted operands")
B("b03", ["C02", "C01"], VI, "        return (single_step_rewards + gamma * next_state_values).dot(probs)", "        return jnp.sum((single_step_rewards + gamma * next_state_values) * probs)", ".dot -> jnp.sum(x * p)")
B("b03b", ["C02"], VI, "        return (single_step_rewards + gamma * next_state_values).dot(probs)",
  "        return single_step_rewards.dot(probs) + gamma * next_state_values.dot(probs)", "product distributed over the sum")

# =============================================================================== C03 / C06
_mask_scatter = "            updated_values = current_values.at[batch_indices].set(\n                jnp.where(\n                    batch_padding_mask, current_values[batch_indices], new_batch_values\n                )\n            )"
M("m19", "C03", "R3.4", SAVI, _mask_scatter, "            updated_values = current_values.at[batch_indices].set(new_batch_values)",
  "SAVI scatter without the padding mask (padded zero rows overwrite the zero state)")
M("m20", "C03", "R3.4", SAVI, "            padding_mask = (jnp.arange(n_total) >= self.problem.n_states).reshape(\n                batched_states.shape[0],  # n_devices",
  "            padding_mask = (jnp.arange(n_total) > self.problem.n_states).reshape(\n                batched_states.shape[0],  # n_devices", "mask built with > (fixed-order branch)")
M("m20b", "C03", "R3.4", SAVI, "        padding_mask = (jnp.arange(n_total) >= self.problem.n_states).reshape(\n            padded_batched_states.shape[0],  # n_devices",
  "        padding_mask = (jnp.arange(n_total) >= self.problem.n_states - 1).reshape(\n            padded_batched_states.shape[0],  # n_devices", "mask off by one (shuffle branch)")
M("m20c", "C03", "R3.4", SAVI, "                    batch_padding_mask, current_values[batch_indices], new_batch_values\n", "                    batch_padding_mask, new_batch_values, current_values[batch_indices]\n",
  "where branches swapped: real states keep old values, padded rows are written")
M("m21", "C03", "R3.2", PI, "        new_values = self._unbatch_results(padded_batched_values)\n        new_values = new_values.reshape(-1)\n", "        new_values = padded_batched_values.reshape(-1)[: self.problem.n_states]\n",
  "PI evaluation returns the padded array reshaped (no un-batching)", survives="no")
M("m21b", "C03", "R3.1", VI, "        return carry, new_values\n\n    def _calculate_updated_value_scan_state_batches",
  "        return (values, gamma, action_space, new_values.sum() + random_event_space), new_values\n\n    def _calculate_updated_value_scan_state_batches",
  "synchronous sweep threads a batch-dependent carry", survives="no")
M("m30", "C06", "R6.1", SAVI, "            return (actions, random_events, gamma, updated_values), new_batch_values", "            return carry, new_batch_values",
  "scan_fn returns the carry unchanged (plain Jacobi; same policy on every test)")
M("m31", "C06", "R6.1", SAVI, "                (actions, random_events, gamma, current_values), batch\n", "                (actions, random_events, gamma, values), batch\n",
  "batch computed from the closed-over previous-sweep values")
M("m32", "C06", "R6.3", SAVI, "            self.key, subkey = random.split(self.key)", "            _, subkey = random.split(self.key)", "key never advanced: the same permutation every sweep")
M("m32b", "C06", "R6.3", SAVI, "                self._jitted_shuffle_states(subkey)", "                self._jitted_shuffle_states(self.key)", "permutation drawn from the carried key")
M("m33", "C06", "R6.3", SAVI, "        return values[jnp.argsort(shuffled_state_idxs)]", "        return values[shuffled_state_idxs]", "forward permutation applied instead of its inverse")
M("m34", "C06", "R6.4", SAVI, "        self.key = random.PRNGKey(self.config.random_seed)", "        self.key = random.PRNGKey(0)", "seed ignored")
M("m18", "C06", "R6.5", SAVI, "        return (single_step_rewards + gamma * next_state_values).dot(probs)\n\n    def _calculate_updated_value(",
  "        return (single_step_rewards + next_state_values).dot(probs)\n\n    def _calculate_updated_value(", "SAVI's overridden Q-term drops gamma", survives="no")
M("m34b", "C06", "R6.2", SAVI, "            return (actions, random_events, gamma, updated_values), new_batch_values", "            return (actions, random_events, gamma, updated_values), updated_values[batch_indices]",
  "scan outputs read back from the scattered carry (padded rows alias state zero)")
M("m34c", "C06", "R6.6", SAVI, "        super()._initialize_solver_state_elements()\n        self.batch_order = None\n", "        super()._initialize_solver_state_elements()\n        self.batch_order = jnp.arange(self.batched_states.shape[1])[::-1]\n",
  "constructor installs a reversed batch order")
M("m34d", "C06", "R6.1", SAVI, "            updated_values = current_values.at[batch_indices].set(", "            updated_values = current_values.at[batch_indices + 1].set(", "values scattered to the wrong rows")
B("b27", ["C06", "C03"], SAVI, "        return values[jnp.argsort(shuffled_state_idxs)]", "        return values[jnp.argsort(shuffled_state_idxs)] + 0", "no-op arithmetic")

# =============================================================================== C01 / C04
M("m06b", "C01", "R1.1", VI,
  '''                "max delta",
                lambda eps, gamma: eps * (1 - gamma) / gamma if gamma != 1 else eps,''',
  '''                "max delta",
                lambda eps, gamma: eps,''', "VI: max_diff threshold -> eps (looser for gamma > 1/2)")
M("m06c", "C01", "R1.1", VI,
  '''                "span",
                lambda eps, gamma: eps * (1 - gamma) / gamma if gamma != 1 else eps,''',
  '''                "span",
                lambda eps, gamma: 2 * eps * (1 - gamma) / gamma if gamma != 1 else eps,''', "VI: span threshold doubled")
M("m12b", "C01", "R1.2", VI, "        return jnp.max(jnp.abs(new_values - old_values))", "        return jnp.max(new_values - old_values)", "_get_max_diff without abs")
M("m13b", "C01", "R1.2", VI, "        return jnp.max(delta) - jnp.min(delta)", "        return jnp.max(delta) - jnp.min(jnp.abs(delta))", "_get_span with min(abs)", survives="no")
M("m14", "C01", "R1.3", SAVI,
  "        # Extract policy if converged or on final iteration\n        logger.info(\"Extracting policy\")\n        self.policy = self._extract_policy()\n        logger.info(\"Policy extracted\")\n\n        logger.success(\"Semi-async value iteration completed\")",
  "        logger.success(\"Semi-async value iteration completed\")",
  "SAVI: policy never extracted after the loop")
M2("m14b", "C01", "R1.3", [
    (SAVI, "            new_values, conv = self._iteration_step()\n            self.values = new_values\n",
     "            new_values, conv = self._iteration_step()\n            self.policy = self._extract_policy()\n            self.values = new_values\n", None),
    (SAVI, "        logger.info(\"Extracting policy\")\n        self.policy = self._extract_policy()\n        logger.info(\"Policy extracted\")\n\n        logger.success(\"Semi-async value iteration completed\")",
     "        logger.success(\"Semi-async value iteration completed\")", None)],
   "SAVI: policy extracted inside the loop before the last assignment of the values")
M("m14c", "C01", "R1.3", RVI, "        self.policy = self._extract_policy()\n        logger.info(\"Policy extracted\")\n",
  "        self.policy = self._extract_policy()\n        self.values = self.values - self.values[0]\n        logger.info(\"Policy extracted\")\n",
  "RVI: values rewritten after the policy was extracted")
B("b28", ["C01", "C08"], VI,
  '''                "span",
                lambda eps, gamma: eps * (1 - gamma) / gamma if gamma != 1 else eps,''',
  '''                "span",
                lambda eps, gamma: (eps - eps * gamma) / gamma if gamma != 1 else eps,''', "threshold with the product expanded")
B("b29", ["C01"], VI,
  '''                "span",
                lambda eps, gamma: eps * (1 - gamma) / gamma if gamma != 1 else eps,''',
  '''                "span",
                lambda eps, gamma: eps * (1 - gamma) / (2 * gamma) if gamma != 1 else eps / 2,''', "stricter threshold (half): bound still holds, C08 reports it")
BENIGN[-1]["not_benign_for"] = ["C08"]
M("m22", "C04", "R4.1", RVI, "        new_values = new_values - self.gain\n", "", "RVI: gain never subtracted (policy test still passes)")
M("m23", "C04", "R4.1", RVI, "        new_values = new_values - self.gain\n", "        new_values = new_values + self.gain\n", "RVI: gain added")
M("m24", "C04", "R4.2", RVI, "        self.gain = new_values[-1]\n", "", "RVI: gain never updated")
M("m24b", "C04", "R4.2", RVI, "        self.gain = new_values[-1]\n", "        self.gain = new_values.max()\n", "RVI: gain from a moving reference (max)")
M("m24c", "C04", "R4.3", RVI, "        span = self._get_span(new_values, self.values)\n", "        span = self._get_span(new_values, new_values)\n", "RVI: span of the iterate with itself", survives="no")
M("m24d", "C04", "R4.3", RVI, "        if not self.gamma == 1.0:\n            raise ValueError(\"gamma must be 1.0 for relative value iteration\")\n", "", "RVI: gamma == 1 guard deleted")
B("b10", ["C04", "C08", "C02"], RVI, "        new_values = new_values - self.gain\n\n        span = self._get_span(new_values, self.values)\n\n        self.gain = new_values[-1]\n",
  "        gain = self.gain\n        self.gain = new_values[-1] - gain\n        new_values = new_values - gain\n\n        span = self._get_span(new_values, self.values)\n",
  "gain read before the subtraction, updated from the raw sweep")

# =============================================================================== C17
M("m98", "C17", "R17.3", PROBLEM,
  "        if max_deviation > normalization_tolerance:\n            # Find the worst offending state-action pair\n            action, state = jnp.unravel_index(\n                jnp.argmax(jnp.abs(row_sums - 1.0)), row_sums.shape\n            )\n            raise ValueError(\n                f\"Transition probabilities for state {state}, action {action} sum to \"\n                f\"{row_sums[action, state]:.6f}, which deviates from 1.0 by more than \"\n                f\"the tolerance of {normalization_tolerance}\"\n            )\n",
  "", "row-sum error check deleted (matrices silently renormalised)")
M("m99", "C17", "R17.2", PROBLEM, "            ].add(\n                probs\n            )  # Probabilities for this action", "            ].set(\n                probs\n            )  # Probabilities for this action",
  ".add -> .set (events sharing a successor overwrite each other)", survives="no")
M("m99b", "C17", "R17.1", PROBLEM, "        R = jnp.sum(probs * rewards, axis=-1)  # [S, A]", "        R = jnp.mean(rewards, axis=-1)  # [S, A]", "R as an unweighted mean over events", survives="no")
M("m99c", "C17", "R17.3", PROBLEM, "            action, state = jnp.unravel_index(", "            state, action = jnp.unravel_index(", "error message names the pair with state and action swapped")
M("m99d", "C17", "R17.3", PROBLEM, "        if max_deviation > normalization_tolerance:", "        if max_deviation > normalization_tolerance + 1.0:", "tolerance widened by one")
M("m99e", "C17", "R17.2", PROBLEM, "                P = update_probabilities(self, P, a, ns_idx[:, a], p[:, a])", "                P = update_probabilities(self, P, a, ns_idx[:, a], p[:, 0])",
  "probabilities of action 0 used for every action")
M("m99f", "C17", "R17.2", PROBLEM, "        for e in range(E):\n            # Get indices", "        for e in range(E - 1):\n            # Get indices", "last event skipped", survives="no")
M("m99g", "C17", "R17.4", PROBLEM, "        return P, R", "        return P, R / 1.0 + 0.0 * R.sum()", "placeholder", survives="n/a")
MUTANTS.pop()
B("b30", ["C17"], PROBLEM, "        R = jnp.sum(probs * rewards, axis=-1)  # [S, A]", "        R = jnp.sum(rewards * probs, axis=2)  # [S, A]", "operands commuted, axis spelled 2")
B("b31", ["C17"], PROBLEM, "        if max_deviation > normalization_tolerance:", "        if normalization_tolerance < max_deviation:", "comparison flipped")

# =============================================================================== C15
M("m92", "C15", ["R15.1", "R15.2"], MIRJ, "        remaining_demand = (remaining_demand - stock_element).clip(0)\n        return remaining_demand, remaining_stock",
  "        remaining_demand = remaining_demand - stock_element\n        return remaining_demand, remaining_stock", "Mirjalili _issue_one_step: remaining demand not clipped")
M("m93", "C15", "R15.3", DEMOOR, "            [in_transit[-1], stock_after_issue[0 : self.max_useful_life - 1]]", "            [in_transit[0], stock_after_issue[0 : self.max_useful_life - 1]]",
  "De Moor: the newest order is received instead of the oldest (differs only for lead time > 1)")
M("m94", "C15", "R15.3", MIRJ, "        next_weekday = (state[self.state_component_lookup[\"weekday\"]] + 1) % 7", "        next_weekday = (state[self.state_component_lookup[\"weekday\"]] + 1) % 6",
  "weekday modulo 6", survives="no")
M("m94b", "C15", "R15.2", HENDRIX, "            self._issue_one_step, demand, opening_stock, reverse=True\n        )", "            self._issue_one_step, demand, opening_stock\n        )",
  "Hendrix issues newest first (documented FIFO)")
M("m94c", "C15", "R15.4", DEMOOR, "        holding = jnp.sum(stock_after_issue[0 : self.max_useful_life - 1])", "        holding = jnp.sum(stock_after_issue)",
  "De Moor: holding cost charged on expiring units too")
M("m94d", "C15", "R15.4", MIRJ, "            [variable_order, fixed_order, shortage, expiries, holding]", "            [variable_order, fixed_order, expiries, shortage, holding]",
  "Mirjalili: shortage and wastage components swapped against the cost vector")
M("m94e", "C15", "R15.4", HENDRIX, "        self.sales_prices = jnp.array([self.sales_price_a, self.sales_price_b])", "        self.sales_prices = jnp.array([self.sales_price_b, self.sales_price_a])",
  "Hendrix: sales prices of A and B swapped (equal in every test)")
M("m94f", "C15", "R15.3", HENDRIX, "                action[self.action_component_lookup[\"order_quantity_b\"]],\n                stock_after_issue_b[0 : self.max_useful_life - 1],",
  "                action[self.action_component_lookup[\"order_quantity_a\"]],\n                stock_after_issue_b[0 : self.max_useful_life - 1],", "Hendrix: product B receives product A's order")
M("m94g", "C15", "R15.3", DEMOOR, "            \"stock\": slice(\n                self.lead_time - 1, self.lead_time - 1 + self.max_useful_life\n            ),",
  "            \"stock\": slice(\n                self.lead_time, self.lead_time + self.max_useful_life\n            ),", "De Moor: stock slice shifted by one (lookup table vs documented layout)", survives="no")
M("m94h", "C15", "R15.2", DEMOOR, "        if self.issue_policy == \"fifo\":\n            self._issue_stock = self._issue_fifo\n        else:\n            self._issue_stock = self._issue_lifo",
  "        if self.issue_policy == \"lifo\":\n            self._issue_stock = self._issue_fifo\n        else:\n            self._issue_stock = self._issue_lifo", "De Moor: policies crossed", survives="no")
M("m94i", "C15", "R15.4", FOREST, "            jnp.where(state[0] == self.S - 1, self.r1, 0.0),", "            jnp.where(state[0] == self.S - 1, self.r2, 0.0),", "Forest: waiting in the oldest state pays r2", survives="no")
M("m94j", "C15", "R15.3", MIRJ, "        opening_stock_after_delivery = opening_stock_after_delivery.clip(\n            0, self.max_order_quantity\n        )\n", "", "Mirjalili: post-delivery clip removed (also C14)")
B("b32", ["C15"], DEMOOR, "        shortage = jnp.max(jnp.array([demand - jnp.sum(opening_stock), 0]))", "        shortage = jnp.max(jnp.array([0, demand - jnp.sum(opening_stock)]))", "max operands commuted")

# =============================================================================== C16
M("m95", "C16", "R16.1", DEMOOR, "        beta = 1 / (mean * cov**2)", "        beta = 1 / (mean * cov)", "De Moor: rate from cov instead of cov^2", survives="no")
M("m95b", "C16", "R16.1", DEMOOR, "        cdf = numpyro.distributions.Gamma(gamma_alpha, gamma_beta).cdf(", "        cdf = numpyro.distributions.Gamma(gamma_beta, gamma_alpha).cdf(", "shape and rate swapped", survives="no")
M("m88", "C16", "R16.2", DEMOOR, "            jnp.hstack([0, jnp.arange(0.5, self.max_demand + 1.5)])", "            jnp.hstack([0, jnp.arange(0.5, self.max_demand + 0.5)])",
  "De Moor: CDF grid one point short (table has D entries for D+1 events; clip-mode gather hides it)")
M("m88b", "C16", "R16.2", DEMOOR, "            jnp.hstack([0, jnp.arange(0.5, self.max_demand + 1.5)])", "            jnp.hstack([0, jnp.arange(1.0, self.max_demand + 2.0)])",
  "De Moor: discretised at integers instead of half-integers")
M("m96", "C16", "R16.3", MIRJ, "        return jnp.hstack([0, c_0 + (c_1 * action)])[::-1]", "        return jnp.hstack([0, c_0 + c_1])[::-1]",
  "Mirjalili: logits no longer depend on the order size (default c_1 = 0 hides it)")
M("m97", "C16", "R16.3", MIRJ, "        return jnp.hstack([0, c_0 + (c_1 * action)])[::-1]", "        return jnp.hstack([0, c_0 + (c_1 * action)])", "Mirjalili: logits not reversed", survives="no")
M("m97b", "C16", "R16.3", MIRJ, "            total_count=n, probs=(1 - p)", "            total_count=n, probs=p", "Mirjalili: success and failure probability confused", survives="no")
M("m97c", "C16", "R16.3", MIRJ, "        self.weekday_demand_negbin_p = self.weekday_demand_negbin_n / (\n            self.weekday_demand_negbin_delta + self.weekday_demand_negbin_n\n        )",
  "        self.weekday_demand_negbin_p = self.weekday_demand_negbin_delta / (\n            self.weekday_demand_negbin_delta + self.weekday_demand_negbin_n\n        )", "p = delta/(n+delta)", survives="no")
M("m97d", "C16", "R16.4", FOREST, "        self._probability_matrix = jnp.array([[1 - self.p, self.p], [1, 0]])", "        self._probability_matrix = jnp.array([[self.p, 1 - self.p], [1, 0]])", "fire and no-fire swapped", survives="no")
M("m97e", "C16", "R16.4", FOREST, "        return self._probability_matrix[action[0], random_event[0]]", "        return self._probability_matrix[random_event[0], action[0]]", "table indexed [event, action]", survives="no")
M("m97f", "C16", "R16.6", HENDRIX, "        prob_da_masked = prob_da * (jnp.arange(self.max_stock_a + 1) < stock_a)", "        prob_da_masked = prob_da * (jnp.arange(self.max_stock_a + 1) <= stock_a)",
  "Hendrix case 1: mask <= counts the stock-out point twice")
M("m97g", "C16", "R16.6", HENDRIX, "        prob_da_gteq_stock_a = 1 - jax.scipy.stats.poisson.cdf(\n            stock_a - 1, self.demand_poisson_mean_a\n        )",
  "        prob_da_gteq_stock_a = 1 - jax.scipy.stats.poisson.cdf(\n            stock_a, self.demand_poisson_mean_a\n        )", "Hendrix case 2: P(d_a > s_a) instead of P(d_a >= s_a)")
M("m97h", "C16", "R16.6", HENDRIX, "                ).dot(scipy.stats.binom.pmf(u, x, self.substitution_probability))", "                ).dot(scipy.stats.binom.pmf(u, x, 1 - self.substitution_probability))",
  "Hendrix pu: complementary substitution probability (0.5 in every test)")
M("m97i", "C16", "R16.5", HENDRIX, "        return self._calculate_expected_sales_revenue(state)", "        return 0.0 * self._calculate_expected_sales_revenue(state)", "Hendrix initial value zeroed")
M("m97j", "C16", "R16.6", HENDRIX, "        pa = scipy.stats.poisson.pmf(\n            np.arange(self.max_demand + 1), self.demand_poisson_mean_a\n        )", "        pa = scipy.stats.poisson.pmf(\n            np.arange(self.max_demand + 1), self.demand_poisson_mean_b\n        )",
  "Hendrix pz: product A's own demand drawn with B's mean (equal in every test)")
B("b33", ["C16"], DEMOOR, "        alpha = 1 / (cov**2)\n        beta = 1 / (mean * cov**2)", "        alpha = cov**-2\n        beta = alpha / mean", "parameters written differently")
B("b34", ["C16"], MIRJ, "        self.weekday_demand_negbin_p = self.weekday_demand_negbin_n / (\n            self.weekday_demand_negbin_delta + self.weekday_demand_negbin_n\n        )",
  "        self.weekday_demand_negbin_p = self.weekday_demand_negbin_n / (\n            self.weekday_demand_negbin_n + self.weekday_demand_negbin_delta\n        )", "sum commuted")

# =============================================================================== C13
M("m86", "C13", "R13.1", DEMOOR, "        demand_probabilities = demand_probabilities.at[-1].add(\n            1 - demand_probabilities.sum()\n        )\n", "",
  "De Moor: tail folding deleted (sums to cdf(D+0.5) < 1; the default max_demand=100 hides it)")
M("m87", "C13", "R13.1", MIRJ, "        demand_probs = demand_probs.at[self.max_demand].add(1 - jnp.sum(demand_probs))\n", "", "Mirjalili: tail folding deleted")
M("m87b", "C13", "R13.2", MIRJ, "        demand_probs = demand_probs.at[self.max_demand].add(1 - jnp.sum(demand_probs))", "        demand_probs = demand_probs.at[self.max_demand + 1].add(1 - jnp.sum(demand_probs))",
  "Mirjalili: tail folded into an out-of-range index (silently dropped by JAX)")
M("m88c", "C13", "R13.2", DEMOOR, "            jnp.hstack([0, jnp.arange(0.5, self.max_demand + 1.5)])", "            jnp.hstack([0, jnp.arange(0.5, self.max_demand + 0.5)])",
  "De Moor: table one entry shorter than the event space (clamped gather repeats the last bin)")
M("m88d", "C13", "R13.3", MIRJ, "            rec_combinations.sum(axis=1) <= self.max_order_quantity\n        ]", "            rec_combinations.sum(axis=1) < self.max_order_quantity\n        ]",
  "Mirjalili: splits of a full order are missing from the event space (orders of max_order_quantity lose all mass)")
M("m88e", "C13", "R13.3", MIRJ, "            received_order.sum() == action,", "            received_order.sum() <= action,", "Mirjalili: mass outside the multinomial support", survives="no")
M("m88f", "C13", "R13.1", HENDRIX, "        prob_combined_demand_gteq_stock_a = probs_issued_a.dot(\n            jnp.arange(len(probs_issued_a)) >= stock_a\n        )",
  "        prob_combined_demand_gteq_stock_a = probs_issued_a.dot(\n            jnp.arange(len(probs_issued_a)) > stock_a\n        )", "Hendrix case 4: > instead of >= loses the mass at z == stock_a")
M("m88g", "C13", "R13.4", FOREST, "        self._probability_matrix = jnp.array([[1 - self.p, self.p], [1, 0]])", "        self._probability_matrix = jnp.array([[1 - self.p, self.p], [1, self.p]])",
  "Forest: cut row sums to 1 + p", survives="no")
# (m88h - a new, untriaged distribution call site - was retired when R13.1 stopped guessing: a call nobody has read now ends in
#  ANALYSIS-ERROR, no verdict, instead of a VIOLATION; see DESIGN.md 10.9, fifth round)
B("b35", ["C13", "C16"], DEMOOR, "        demand_probabilities = demand_probabilities.at[-1].add(\n            1 - demand_probabilities.sum()\n        )",
  "        demand_probabilities = demand_probabilities.at[-1].add(\n            1.0 - jnp.sum(demand_probabilities)\n        )", "sum spelled as a function")

# =============================================================================== C14
M("m89", "C14", "R14.1", MIRJ, "        opening_stock_after_delivery = opening_stock_after_delivery.clip(\n            0, self.max_order_quantity\n        )\n", "",
  "Mirjalili: post-delivery clip removed (successor stock up to 2Q is silently clipped onto another state)")
M("m90", "C14", "R14.1", FOREST, "                    jnp.minimum(state[0] + 1, self.S - 1),", "                    jnp.minimum(state[0] + 1, self.S),", "Forest: age capped at S instead of S-1", survives="no")
M("m91", "C14", "R14.2", HENDRIX, "        return self._state_to_index_fn(state)", "        return self._random_event_to_index(state)", "Hendrix: state indexed with the event space's index function", survives="no")
M("m91b", "C14", "R14.1", DEMOOR, "        closing_in_transit = in_transit[0 : self.lead_time - 1]", "        closing_in_transit = in_transit[0 : self.lead_time]",
  "De Moor: pipeline not shortened (successor one component too long for lead time >= 1)", survives="no")
M("m91c", "C14", "R14.1", DEMOOR, "        return jnp.arange(0, self.max_demand + 1).reshape(-1, 1)\n", "        return jnp.arange(0, self.max_demand + 1).reshape(-1, 1)\n",
  "placeholder", survives="n/a")
MUTANTS.pop()
M("m91d", "C14", "R14.1", DEMOOR, "        return jnp.arange(0, self.max_order_quantity + 1).reshape(-1, 1)", "        return jnp.arange(0, self.max_order_quantity + 2).reshape(-1, 1)",
  "De Moor: action space allows ordering Q+1 units, one more than any stock component can hold")
M("m91e", "C14", "R14.1", HENDRIX, "        maxs = np.array([self.max_order_quantity_a, self.max_order_quantity_b])\n        action_space, _ = create_range_space(mins, maxs)",
  "        maxs = np.array([self.max_order_quantity_b, self.max_order_quantity_a])\n        action_space, _ = create_range_space(mins, maxs)",
  "Hendrix: order limits of A and B swapped in the action space (equal in every test)")
M("m91f", "C14", "R14.1", MIRJ, "                np.array([6]),  # weekday", "                np.array([5]),  # weekday", "Mirjalili: weekday component limited to 0..5 while the successor reaches 6", survives="no")
M("m91g", "C14", "R14.1", MIRJ, "        next_weekday = (state[self.state_component_lookup[\"weekday\"]] + 1) % 7", "        next_weekday = state[self.state_component_lookup[\"weekday\"]] + 1",
  "Mirjalili: weekday not wrapped (7 is clipped onto Sunday)", survives="no")
M("m91h", "C14", "R14.2", DEMOOR, "        state_space, self._state_to_index_fn = create_range_space(mins, maxs)\n        return state_space",
  "        state_space, _ = create_range_space(mins, maxs)\n        _, self._state_to_index_fn = create_range_space(mins, maxs + 1)\n        return state_space",
  "De Moor: index function built for a larger box than the state space", survives="no")
B("b36", ["C14", "C15"], MIRJ, "        next_weekday = (state[self.state_component_lookup[\"weekday\"]] + 1) % 7", "        next_weekday = (1 + state[self.state_component_lookup[\"weekday\"]]) % 7", "sum commuted")

# ---- later additions
M("m100", "C20", "R20.7", PI, "        for eval_iter in range(self.config.max_eval_iter):", "        for eval_iter in range(self.config.max_eval_iterations):", "PI reads a config field that does not exist", survives="no")
M("m101", "C20", "R20.7", VI, "            convergence_tests[self.config.convergence_test]", "            convergence_tests[self.config.convergence_criterion]", "VI reads a non-existent config field (also breaks PI, SAVI)", survives="no")
M("m102", "C20", "R20.7", SAVI, "    convergence_test: str = \"span\"\n    shuffle_states: bool = False", "    shuffle_states: bool = False",
  "SAVI config loses convergence_test, which the inherited ValueIteration._setup_convergence_testing reads", survives="no")
MUTANTS[-1]["rule"] = ["R20.7", "R20.3"]
M("m103", "C10", "R10.6", RVI, "        self.policy = solver_state.policy\n        self.iteration = solver_state.info.iteration\n        self.gain = solver_state.info.gain", "        self.iteration = solver_state.info.iteration\n        self.gain = solver_state.info.gain",
  "RVI: the stored policy is saved but never restored (not loop-carried, so C09 is silent)")
M("m104", "C02", "R2.1", VI, "        new_values = self._unbatch_results(padded_batched_values)\n        return new_values\n",
  "        new_values = self._unbatch_results(padded_batched_values)\n        return new_values.astype(values.dtype)\n",
  "sweep result cast back to the dtype of the incoming estimates (truncates for integer-typed estimates) - from seeded change C02")
B("b37", ["C02", "C15", "C14"], FOREST, "        ).astype(jnp.int32)\n\n        return next_state, reward", "        ).astype(jnp.int64)\n\n        return next_state, reward", "problem state cast to another static integer dtype")
M("m105", "C08", "R8.1", VI, "        for _ in range(max_iterations):\n            self.iteration += 1\n            new_values, conv = self._iteration_step()\n            self.values = new_values\n\n            logger.info(\n                f\"Iteration {self.iteration}: {self._convergence_desc}",
  "        for _ in range(self.iteration, max_iterations):\n            self.iteration += 1\n            new_values, conv = self._iteration_step()\n            self.values = new_values\n\n            logger.info(\n                f\"Iteration {self.iteration}: {self._convergence_desc}",
  "loop bound treats max_iterations as a cap on the total counter (from seeded change C08)")
B("b38", ["C08", "C09", "C12", "C01"], RVI, "        for _ in range(max_iterations):", "        for _ in range(0, max_iterations):", "range spelled with an explicit start")
B("b39", ["C09", "C10"], RVI, "        self.gain = solver_state.info.gain\n", "        self.gain = float(solver_state.info.gain)\n        logger.debug(\"state restored\")\n", "restore through a transparent wrapper plus a log line")
M("m106", "C14", "R14.1", HENDRIX,
  "        maxs = np.hstack(\n            [\n                np.full(\n                    self.max_useful_life,\n                    self.max_order_quantity_a,\n                ),\n                np.full(\n                    self.max_useful_life,\n                    self.max_order_quantity_b,\n                ),\n            ]\n        )\n        state_space, self._state_to_index_fn = create_range_space(mins, maxs)",
  "        maxs = np.tile(\n            [self.max_order_quantity_a, self.max_order_quantity_b], self.max_useful_life\n        )\n        state_space, self._state_to_index_fn = create_range_space(mins, maxs)",
  "Hendrix: state bounds interleaved [a,b,a,b] instead of blocked [a,a,b,b] (from seeded change C14; decided by instantiating the useful life)")
M("m107", "C03", "R3.3", BATCH, "        self.n_pad = total_size - n_states\n", "        self.n_pad = -n_states % self.batch_size\n",
  "padding computed modulo the batch size only (whole padding batches on the last device are not stripped) - from seeded change C03")
M("m108", "C20", "R20.9", LOGGING, "    if verbose < 0 or verbose > 4:", "    if verbose < 0 or verbose > 3:", "verbosity 4 (accepted by every validator) is rejected in the constructor")
M("m109", "C20", "R20.9", LOGGING, "        3: \"DEBUG\",  # Show detailed progress\n        4: \"TRACE\",  # Show everything", "        3: \"TRACE\",  # Show detailed progress\n        4: \"DEBUG\",  # Show everything", "levels 3 and 4 swapped")
M("m110", "C20", "R20.9", SOLVER, "            valid_levels = {\"ERROR\": 0, \"WARNING\": 1, \"INFO\": 2, \"DEBUG\": 3, \"TRACE\": 4}", "            valid_levels = {\"ERROR\": 0, \"WARNING\": 1, \"INFO\": 2, \"DEBUG\": 4, \"TRACE\": 3}", "string levels crossed")
M("m111", "C20", "R20.10", PI, "    jax_double_precision: bool = True\n    verbose: int = 2\n    checkpoint_dir: str | None = None\n    checkpoint_frequency: int = 0\n    max_checkpoints: int = 1\n    enable_async_checkpointing: bool = True\n    max_eval_iter",
  "    jax_double_precision: bool = False\n    verbose: int = 2\n    checkpoint_dir: str | None = None\n    checkpoint_frequency: int = 0\n    max_checkpoints: int = 1\n    enable_async_checkpointing: bool = True\n    max_eval_iter",
  "PI alone defaults to single precision")
M("m112", "C20", "R20.10", MIRJ, "    useful_life_at_arrival_distribution_c_0: tuple[float, ...] = (1.0, 0.5)", "    useful_life_at_arrival_distribution_c_0: tuple[float, ...] = (1.0, 0.5, 0.25)",
  "Mirjalili default c_0 inconsistent with the default useful life", survives="no")
M("m113", "C10", "R10.3", CKPT, "        manager = cls._create_checkpoint_manager(checkpoint_dir, 1, True)\n",
  "        manager = solver.checkpoint_manager\n        if manager is None or new_checkpoint_dir is not None:\n            manager = cls._create_checkpoint_manager(checkpoint_dir, 1, True)\n",
  "restore() reads through the solver's own manager, i.e. the directory recorded in config.yaml, not the argument (copied / moved directories) - from seeded change C10b")
B2("b40", ["C09", "C10"], [
    (PVI, "        self.values = solver_state.values\n        self.policy = solver_state.policy\n        self.iteration = solver_state.info.iteration\n        self.value_history = solver_state.info.value_history",
     "        super()._restore_state_from_checkpoint(solver_state)\n        self.value_history = solver_state.info.value_history", None)],
   "PVI restore delegates the common fields to super()")
M("m114", "C16", "R16.6", HENDRIX, "                scipy.stats.binom.pmf(0, x, self.substitution_probability)\n            )", "                self.substitution_probability**x\n            )",
  "Hendrix pu[0, y]: p**x instead of Binomial(0; x, p) = (1-p)**x (identical at p = 0.5) - from seeded change C16b")
M("m115", "C04", "R4.4", RVI, "        self.policy = self._extract_policy()\n        logger.info(\"Policy extracted\")\n\n        logger.success(\"Relative value iteration completed\")",
  "        if self.policy is None:\n            self.policy = self._extract_policy()\n        logger.info(\"Policy extracted\")\n\n        logger.success(\"Relative value iteration completed\")",
  "RVI: policy extracted only on the first solve() call (a continued solve returns the stale policy) - from seeded change C04b")
M("m116", "C02", "R2.6", VI, "        return values[self.problem.state_to_index(next_state)]\n\n    def _calculate_updated_state_action_value",
  "        return self.values[self.problem.state_to_index(next_state)]\n\n    def _calculate_updated_state_action_value",
  "successor value read from self.values inside the traced kernel: the values of the first call are compiled in and every later sweep reuses them")
M("m117", "C02", "R2.6", SAVI, "            actions, random_events, gamma, current_values = carry\n", "            actions, random_events, gamma, current_values = carry\n            gamma = gamma * (self.iteration >= 0)\n",
  "semi-async kernel reads the iteration counter at trace time")
M("m118", "C08", "R8.5", VI, "        return jnp.max(delta) - jnp.min(delta)", "        delta = delta.reshape(-1, 1)\n        return jnp.max(delta - delta.T) ", "placeholder", survives="n/a")
MUTANTS.pop()
M("m119", "C04", "R4.1", RVI, "        new_values = new_values - self.gain\n", "        new_values = new_values - jnp.asarray(self.gain, dtype=jnp.float32)\n" if False else "        new_values = (new_values - self.gain).reshape(-1, 1)\n",
  "RVI iterate silently becomes a column vector (later broadcasting against self.values gives an n x n difference)", survives="no")
M("m120", "C07", "R7.8", PVI, "        self.value_history = np.zeros((self.period + 1, self.problem.n_states))", "        self.value_history = np.zeros((self.period + 1, self.problem.n_states), dtype=self.values.dtype)",
  "history buffer takes the dtype of the initial estimates: later float64 iterates are silently cast when stored (integer / float32 initial_value) - from seeded changes C07c / C08c")
M("m121", "C12", "R12.7", CKPT, "        if checkpoint_frequency is not None:\n            config.checkpoint_frequency = checkpoint_frequency\n",
  "        config.checkpoint_frequency = checkpoint_frequency or config.checkpoint_frequency\n",
  "restore(): an explicit checkpoint_frequency=0 override is falsy and dropped - from seeded change C12c")
M("m122", "C06", "R6.4", SAVI, "        self.key = random.PRNGKey(self.config.random_seed)", "        self.key = random.PRNGKey(self.config.random_seed or 12345)",
  "seed 0 silently replaced (x or default) - after seeded change C06c")
M("m123", "C20", "R20.11", VI, "        new_values = self._unbatch_results(padded_batched_values)\n        return new_values\n",
  "        new_values = self._unbatch_results(padded_batched_values)\n        return new_values.astype(values.dtype)\n",
  "sweep result cast to the dtype of the incoming estimates (positive example of the zero-count rule)")
M("m124", "C20", "R20.11", RVI, "        self.gain = float(self.values[-1])\n", "        self.gain = jnp.zeros((), dtype=jnp.float32)\n", "RVI gain held in float32")
M("m125", "C09", "R9.6", RVI, "        self.gain = float(self.values[-1])\n", "        self.gain = 0\n",
  "gain template is an int: Orbax restores the saved float gain truncated (seeded C09c)")
M("m126", "C10", "R10.7", RVI, "        self.gain = float(self.values[-1])\n", "        self.gain = 0\n", "same, filed under C10")
M("m127", "C09", "R9.6", PVI, "self.value_history = np.zeros((self.period + 1, self.problem.n_states))",
  "self.value_history = np.zeros((self.period + 1, self.problem.n_states), dtype=np.float32)",
  "history template float32: restored history loses precision")
B("b41", ["C09", "C10", "C04"], RVI, "        self.gain = float(self.values[-1])\n", "        self.gain = float(self.values[-1].item())\n", "initial gain through .item()")
B("b42", ["C01", "C08"], VI, "        return jnp.max(delta) - jnp.min(delta)", "        return jnp.ptp(delta)", "span through jnp.ptp (peak-to-peak == max - min)")
B("b43", ["C01", "C08"], VI, "        return jnp.max(jnp.abs(new_values - old_values))", "        return jnp.abs(jnp.subtract(new_values, old_values)).max()",
  "max-diff with jnp.subtract and the method form of max")
B("b44", ["C01", "C08"], VI, "        delta = new_values - old_values\n        return jnp.max(delta) - jnp.min(delta)", "        delta = new_values - old_values\n        hi = delta.max()\n        lo = delta.min()\n        return hi - lo",
  "span via method-form reductions held in locals")
B("b45", ["C05", "C03"], PI, "        new_values = new_values.reshape(-1)\n", "        new_values = new_values.ravel()\n", "ravel instead of reshape(-1)")
B("b46", ["C02", "C03"], VI, "        return jnp.max(\n            jax.vmap(\n                self._calculate_updated_state_action_value,\n                in_axes=(None, 0, None, None, None),\n            )(state, actions, random_events, gamma, values)",
  "        q_of_action = jax.vmap(\n            self._calculate_updated_state_action_value,\n            in_axes=(None, 0, None, None, None),\n        )\n        return jnp.max(\n            q_of_action(state, actions, random_events, gamma, values)",
  "vmapped callable bound to a local before it is applied")
M("m128", "C13", "R13.5", HENDRIX, "            pu[0, y] = scipy.stats.poisson.pmf(x + y, self.demand_poisson_mean_b).dot(\n                scipy.stats.binom.pmf(0, x, self.substitution_probability)\n            )",
  "            pu[0, y] = scipy.stats.poisson.pmf(x + y, self.demand_poisson_mean_b).dot(\n                np.exp(x * np.log1p(-self.substitution_probability))\n            )",
  "Binomial(0; x, p) written as exp(x * log1p(-p)): NaN at the accepted p = 1 with x = 0 (positive example of the zero-count rule)")
B("b47", ["C17"], PROBLEM, "        max_deviation = jnp.max(jnp.abs(row_sums - 1.0))\n        if max_deviation > normalization_tolerance:",
  "        max_deviation = jnp.max(jnp.abs(row_sums - 1.0))\n        if jnp.any(jnp.abs(row_sums - 1.0) > normalization_tolerance):", "row-sum test written with any() of the element-wise comparison")
M2("m129", "C09", "R9.3", [
   (VI, "        for _ in range(max_iterations):\n            self.iteration += 1\n            new_values, conv = self._iteration_step()\n            self.values = new_values\n\n            logger.info(\n                f\"Iteration {self.iteration}: {self._convergence_desc}",
        "        step = self.iteration\n        for _ in range(max_iterations):\n            self.iteration += 1\n            new_values, conv = self._iteration_step()\n            self.values = new_values\n\n            logger.info(\n                f\"Iteration {self.iteration}: {self._convergence_desc}", None),
   (VI, "                and self.iteration % self.checkpoint_frequency == 0\n            ):\n                self.save(self.iteration)", "                and self.iteration % self.checkpoint_frequency == 0\n            ):\n                self.save(step)", None)],
   "the counter is read once before the loop and the stale copy labels every periodic checkpoint (the cached attribute IS written by the loop: it must not be de-aliased)")
M2("m130", "C08", ["R8.5", "R8.6", "R8.2"], [
   (PI, "        for eval_iter in range(self.config.max_eval_iter):\n            # Calculate new values using only the policy's actions\n            new_values = self._calculate_policy_values(policy, values)",
        "        start = values\n        for eval_iter in range(self.config.max_eval_iter):\n            # Calculate new values using only the policy's actions\n            new_values = self._calculate_policy_values(policy, start)", None)],
   "evaluation kernel always applied to the stale starting values (no chaining)")
B2("b48", ["C12", "C09", "C08"], [
   (VI, "        for _ in range(max_iterations):\n            self.iteration += 1\n            new_values, conv = self._iteration_step()\n            self.values = new_values\n\n            logger.info(\n                f\"Iteration {self.iteration}: {self._convergence_desc}",
        "        every = self.checkpoint_frequency\n        threshold = self.conv_threshold\n        for _ in range(max_iterations):\n            self.iteration += 1\n            new_values, conv = self._iteration_step()\n            self.values = new_values\n\n            logger.info(\n                f\"Iteration {self.iteration}: {self._convergence_desc}", None),
   (VI, "                and self.iteration % self.checkpoint_frequency == 0\n            ):\n                self.save(self.iteration)", "                and self.iteration % every == 0\n            ):\n                self.save(self.iteration)", None),
   (VI, "            if conv < self.conv_threshold:\n                logger.info(\n                    f\"Convergence threshold reached at iteration {self.iteration}\"", "            if conv < threshold:\n                logger.info(\n                    f\"Convergence threshold reached at iteration {self.iteration}\"", None)],
   "loop invariants (frequency, threshold) read once before the loop")
B2("b49", ["C09", "C08", "C12", "C10"], [
   (VI, "        for _ in range(max_iterations):\n            self.iteration += 1\n            new_values, conv = self._iteration_step()\n            self.values = new_values\n\n            logger.info(\n                f\"Iteration {self.iteration}: {self._convergence_desc}",
        "        self._sweeps_timed = getattr(self, \"_sweeps_timed\", 0)\n        for _ in range(max_iterations):\n            self.iteration += 1\n            new_values, conv = self._iteration_step()\n            self.values = new_values\n            self._sweeps_timed = self._sweeps_timed + 1\n\n            logger.info(\n                f\"Iteration {self.iteration}: {self._convergence_desc}", None)],
   "a bookkeeping counter carried between sweeps that never influences results, stopping or saving (not checkpointed on purpose)")
M("m131", "C20", "R20.12", SOLVER, "        self.gamma = jnp.array(self.config.gamma)", "        self.gamma = jnp.array(self.config.gamma or 1.0)",
  "gamma or 1.0: the valid gamma = 0 becomes 1 (positive example of the zero-count truthiness rule; seeded S53)")
M("m132", "C02", "R2.7", SOLVER, "        self.gamma = jnp.array(self.config.gamma)", "        self.gamma = jnp.array(min(self.config.gamma, 0.999))",
  "discount factor silently capped")
M("m133", "C20", "R20.13", "src/mdpax/utils/batch_processing.py", "        max_batch_size: int = 1024,\n        pmap_device_count: Int[Array, \"\"] = None,", "        max_batch_size: int = 1024,\n        pmap_device_count: Int[Array, \"\"] = None,\n        _cache: dict = {},",
  "mutable default argument (positive example of the zero-count rule)")
M("m134", "C20", "R20.5", RVI, "        self.convergence_format = get_convergence_format(float(self.conv_threshold))", "        self.convergence_format = get_convergence_format(self.conv_threshold)",
  "threshold passed to the formatter without float(): TypeError for an integer epsilon (seeded C20e)")
M("m135", "C17", "R17.1", PROBLEM, "        R = jnp.sum(probs * rewards, axis=-1)  # [S, A]", "        R = jnp.sum(probs * rewards, axis=-1, dtype=rewards.dtype)  # [S, A]",
  "expected reward accumulated in the dtype of the rewards: integer rewards truncate the expectation (seeded C17e)")
M2("m136", "C19", "R19.5", [
    (SPACES, "from jaxtyping import Array\n", "from jaxtyping import Array\n\n_SEEN: list = []\n", None),
    (SPACES, "    return space, index_fn", "    _SEEN.append(index_fn)\n    return space, _SEEN[0]", None)],
   "index function taken from a module-level list shared between calls (positive example of the zero-count rule; seeded C19e)")
M("m137", "C10", "R10.8", RVI, "        self.gain = float(self.values[-1])\n", "        self.gain = None\n", "gain has no template leaf on a fresh solver: the stored gain is skipped on restore")
M("m138", "C09", "R9.6", PVI, "        self.value_history = np.zeros((self.period + 1, self.problem.n_states))\n        self.history_index: int = 0\n        self.value_history[0] = np.array(self.values)",
  "        self.value_history = None\n        self.history_index: int = 0", "history allocated lazily: the fresh solver's template has no leaf for it (seeded C09e)")
M("m139", "C04", "R4.5", RVI, "        self.gain = float(self.values[-1])\n", "        self.gain = 0.0\n",
  "gain starts at 0 whatever the initial values (the repaired defect D8 re-introduced)")
B("b50", ["C04", "C09", "C10"], RVI, "        self.gain = float(self.values[-1])\n", "        reference_value = self.values[-1]\n        self.gain = float(reference_value)\n", "initial gain through a temporary")


# =============================================================================== slips inside extracted collaborator objects
# (the refactorings r4set2_2 / r4set1_2 move state and a loop into small private classes; flatten.py dissolves those, so a slip made
# INSIDE the extracted class is a slip in the solver and must be reported by the rule that guards the original statements)
MB("m140", "C07", ["R7.1"], "r4set2_2", PVI, "        self.index = (self.index + 1) % (period + 1)\n",
   "        self.index = (self.index + 1) % period\n", "_ValueHistory.push: circular index modulo period instead of period + 1")
MB("m141", "C07", ["R7.8"], "r4set2_2", PVI, "        self.rows[0] = np.array(initial_values)\n",
   "        self.rows[1] = np.array(initial_values)\n", "_ValueHistory.__init__: initial values stored in row 1 while the index starts at 0")
MB("m143", "C08", ["R8.3"], "r4set1_2", PI, "            if conv < self.threshold:\n", "            if conv <= self.threshold:\n",
   "_IterativePolicyEvaluation.run: `<` -> `<=`")
MB("m144", "C08", ["R8.5"], "r4set1_2", PI, "            conv = self.measure(new_values, values)\n",
   "            conv = self.measure(new_values, new_values)\n", "_IterativePolicyEvaluation.run: the measure compares the sweep with itself")
MB("m145", "C05", ["R5.2"], "r4set1_2", PI, "            max_sweeps=self.config.max_eval_iter,\n",
   "            max_sweeps=self.config.max_eval_iter - 1,\n", "evaluation budget one short")
# (r4set1_4 / r4set2_3 generate solver_state and the restore method from class-level field tables; specialise.py writes each class's
# table into its copy of the generic method, so a slip in a table is a slip in that class's checkpoint payload)
MB("m146", "C09", ["R9.1", "R9.2"], "r4set2_3", PVI, '    _info_attributes = ("value_history", "history_index", "period")\n',
   '    _info_attributes = ("value_history", "period")\n', "PVI's declared checkpoint attributes omit history_index", survives="no (TypeError when the state is built)")
MB("m147", "C10", ["R10.6"], "r4set1_4", VI, "            setattr(self, name, getattr(solver_state.info, name))\n",
   "            setattr(self, name, getattr(self.solver_state.info, name))\n", "generic restore reads the solver's own state instead of the checkpoint's")

# =============================================================================== the dense-grid idiom for spaces
_prod = "    space = jnp.array(list(itertools.product(*ranges)), dtype=jnp.int32)\n"
B("b52", ["C19", "C14", "C13", "C15", "C16", "C17"], SPACES, _prod,
  "    space = jnp.asarray(np.indices(dimensions).reshape(len(dimensions), -1).T + mins, dtype=jnp.int32)\n",
  "np.indices grid instead of itertools.product: same rows, same order")
M("m148", "C19", "R19.3", SPACES, _prod,
  "    space = jnp.asarray(np.indices(dimensions, dtype=np.uint8).reshape(len(dimensions), -1).T + mins, dtype=jnp.int32)\n",
  "np.indices grid with uint8 offsets: a dimension wider than 256 wraps around")
M("m149", "C19", ["R19.2", "R19.3"], SPACES, _prod,
  "    space = jnp.asarray(np.indices(dimensions - 1).reshape(len(dimensions), -1).T + mins, dtype=jnp.int32)\n",
  "np.indices grid one short in every dimension")

# =============================================================================== R20.14 division by a possibly-zero Python number
M("m150", "C20", "R20.14", SOLVER, "        self.gamma = jnp.array(self.config.gamma)\n", "        self.gamma = float(self.config.gamma)\n",
  "gamma kept as a Python float: the max-diff threshold eps * (1 - gamma) / gamma raises ZeroDivisionError for gamma = 0")
B("b53", ["C20", "C02", "C01", "C08"], SOLVER, "        self.gamma = jnp.array(self.config.gamma)\n", "        self.gamma = jnp.asarray(self.config.gamma)\n",
  "asarray instead of array")

# =============================================================================== slips inside the shapes of the fifth-round refactorings
# (memo tables, enum discriminants, dataclass constructors, delegating methods, negative slice bounds, moved distribution calls: each
# normal form must keep a slip visible to the rule that guards the original statements)
MB("m151", "C06", ["R6.1"], "r5set3_1", SOLVER, "            padding_mask = (jnp.arange(n_total) >= self.problem.n_states).reshape(\n",
   "            padding_mask = (jnp.arange(n_total) > self.problem.n_states).reshape(\n", "cached padding mask off by one (memo table dissolved)")
MB("m152", "C12", ["R12.5"], "r5set3_3", CKPT, "        if self.has_full_config:\n            return _CheckpointMode.FULL\n",
   "        if not self.has_full_config:\n            return _CheckpointMode.FULL\n", "checkpoint mode classified with the condition inverted (discriminant folded)")
MB("m154", "C17", ["R17.4"], "r5set4_7", "src/mdpax/utils/matrices.py", "    P = P / jnp.where(row_sums > 0, row_sums, 1.0)  # Avoid division by zero\n",
   "    P = P / jnp.where(row_sums > 1, row_sums, 1.0)  # Avoid division by zero\n", "normalisation guard `> 1` in the moved matrix builder (delegating method)")
MB("m155", "C15", ["R15.3"], "r5set5_4", DEMOOR, "        closing_stock = jnp.hstack([in_transit[-1], stock_after_issue[:-1]])\n",
   "        closing_stock = jnp.hstack([in_transit[-1], stock_after_issue[1:]])\n", "ageing drops the youngest instead of the oldest units (negative slice bounds)")
MB("m156", "C06", ["R6.1", "R6.2", "R6.3", "R6.4", "R6.5"], "r5set2_4", SAVI, "        return cls.SHUFFLED if shuffle_states else cls.NATURAL\n",
   "        return cls.NATURAL if shuffle_states else cls.SHUFFLED\n", "sweep order enum chosen the wrong way round (classmethod discriminant)")
MB("m157", "C16", ["R16.6"], "r5set5_2", HENDRIX, "        return prob_db * (jnp.arange(self.max_stock_b + 1) < stock_b)\n",
   "        return prob_db * (jnp.arange(self.max_stock_b + 1) <= stock_b)\n", "shared masked pmf includes the sell-out level (moved distribution call)")
MB("m153", "C18", ["R18.1"], "r5set4_3", BATCH, "        self.n_pad = total_size - n_states\n", "        self.n_pad = total_size - n_states - 1\n",
   "padding count one short in the dataclass __post_init__ (constructor written out)")
MB("m158", "C09", ["R9.1"], "r5set3_1", SOLVER, "        padding_mask = self._padding_masks.get(batch_shape)\n",
   "        padding_mask = self._padding_masks.get(batch_shape[0])\n", "mask cache looked up by the device count only (the table is then state, not a memo)")

# =============================================================================== class-level shared state (R12.9 / R19.5)
M2("m160", "C12", "R12.9", [
    (CKPT, "    def _setup_checkpointing(\n", "    _checkpoint_managers: dict = {}\n\n    def _setup_checkpointing(\n", None),
    (CKPT, "        return checkpoint.CheckpointManager(\n            checkpoint_dir,\n            options=options,\n        )\n",
     "        if checkpoint_dir not in cls._checkpoint_managers:\n            cls._checkpoint_managers[checkpoint_dir] = checkpoint.CheckpointManager(\n"
     "                checkpoint_dir,\n                options=options,\n            )\n        return cls._checkpoint_managers[checkpoint_dir]\n", None),
], "checkpoint managers cached per directory in a class-level dict: max_checkpoints / async of the first solver stick")


# =============================================================================== manager policy options (R12.10)
M("m161", "C12", "R12.10", CKPT, "            create=True,\n", "            create=True,\n            save_interval_steps=2,\n",
  "Orbax save_interval_steps: manager.save silently skips odd steps, whatever checkpoint_frequency says")
M("m162", "C12", "R12.10", CKPT, "            max_to_keep=max_checkpoints,\n", "            max_to_keep=max_checkpoints,\n            keep_period=10,\n",
  "Orbax keep_period: every tenth step is kept forever, beyond max_checkpoints")
M("m163", "C12", "R12.10", CKPT, "        manager = cls._create_checkpoint_manager(checkpoint_dir, 1, True)\n",
  "        manager = cls._create_checkpoint_manager(checkpoint_dir, 1, True)\n        for old in manager.all_steps()[:-1]:\n            manager.delete(old)\n",
  "restore() prunes the directory it reads from: retained steps removed by the package")
B("b54", ["C12", "C10", "C09"], CKPT, "            create=True,\n", "            create=True,\n            enable_background_delete=False,\n",
  "an Orbax option that changes neither which steps are written nor which are kept")

# =============================================================================== remembered convergence (R8.9 / R5.6 / R9.1)
M2("m164", "C08", ["R8.9"], [
    (VI, "        for _ in range(max_iterations):\n            self.iteration += 1\n            new_values, conv = self._iteration_step()\n",
     "        if getattr(self, \"_done\", False):\n            return self.solver_state\n        for _ in range(max_iterations):\n            self.iteration += 1\n            new_values, conv = self._iteration_step()\n", None),
    (VI, "                logger.info(\n                    f\"Convergence threshold reached at iteration {self.iteration}\"\n                )\n                break\n",
     "                logger.info(\n                    f\"Convergence threshold reached at iteration {self.iteration}\"\n                )\n                self._done = True\n                break\n", None),
], "VI: solve() returns at once when a remembered `_done` flag is set; load_checkpoint of an earlier step leaves it set")
B("b55", ["C08", "C09", "C05", "C12"], VI, "        for _ in range(max_iterations):\n            self.iteration += 1\n            new_values, conv = self._iteration_step()\n",
  "        if max_iterations <= 0:\n            return self.solver_state\n        for _ in range(max_iterations):\n            self.iteration += 1\n            new_values, conv = self._iteration_step()\n",
  "early return for a non-positive limit: outside the property (positive limits)")
B("b56", ["C08", "C09", "C12", "C01", "C05"], VI, "            self.values = new_values\n\n            logger.info(\n                f\"Iteration {self.iteration}: {self._convergence_desc}",
  "            self.values, self._last_conv = new_values, None\n\n            logger.info(\n                f\"Iteration {self.iteration}: {self._convergence_desc}",
  "parallel assignment of the iterate and an unrelated attribute")

# =============================================================================== own probes of the eighth wave
B("b57", ["C18", "C03"], BATCH, "        if self.n_pad > 0:\n            return results[: -self.n_pad]\n        return results",
  "        return results[: results.shape[0] - self.n_pad]", "padding stripped by the row count instead of a negative bound")
M("m165", "C10", "R10.3", CKPT, "        self._restore_state_from_checkpoint(cp_state)\n\n    def _save_solver_config",
  "        if step != getattr(self, \"iteration\", None):\n            self._restore_state_from_checkpoint(cp_state)\n\n    def _save_solver_config",
  "load_checkpoint skips the restore when the chosen step equals the solver's current counter (e.g. a solver that ran on to the same iteration count with other settings)")
M("m166", "C08", "R8.10", SOLVER, "self.epsilon = self.config.epsilon", "self.epsilon = self.config.epsilon * 1.0000001",
  "every threshold computed from a slightly larger tolerance than the configured one")
B("b58", ["C10", "C09", "C12"], CKPT, "        step = step or manager.latest_step()\n        if step is None:\n            raise ValueError(f\"No checkpoints found in {checkpoint_dir}\")\n\n        # Restore state",
  "        step = step or max(manager.all_steps(), default=None)\n        if step is None:\n            raise ValueError(f\"No checkpoints found in {checkpoint_dir}\")\n\n        # Restore state",
  "latest step taken as the maximum of the manager's own integer steps")
B("b59", ["C15", "C14", "C13", "C16"], MIRJ, "        opening_stock_after_delivery = opening_stock_after_delivery.clip(\n            0, self.max_order_quantity\n        )",
  "        opening_stock_after_delivery = jnp.minimum(\n            jnp.maximum(opening_stock_after_delivery, 0), self.max_order_quantity\n        )",
  "clip written as minimum(maximum(x, 0), Q)")
B("b60", ["C18", "C03"], BATCH, "            self.n_batches = (\n                states_per_device + self.batch_size - 1\n            ) // self.batch_size",
  "            self.n_batches = -(-states_per_device // self.batch_size)", "ceiling division by negated floor division")
M("m168", "C05", "R5.3", PI, "n_changed = jnp.any(new_policy != self.policy, axis=1).sum()", "n_changed = jnp.any(jnp.abs(new_policy - self.policy) > 1, axis=1).sum()",
  "policy change counted only when a component moves by more than one unit")
B("b61", ["C19", "C14", "C16"], SPACES, "tuple(vector - mins), dimensions, mode=\"clip\")", "tuple(jnp.subtract(vector, mins)), dims=dimensions, mode=\"clip\")",
  "ravel_multi_index called with dims= by keyword and the shift written as jnp.subtract")
B("b62", ["C09", "C12", "C10"], CKPT, "        self.checkpoint_manager.save(step, args=checkpoint.args.StandardSave(cp_state))",
  "        self.checkpoint_manager.save(int(step), args=checkpoint.args.StandardSave(cp_state))", "the label passed through int()")
B("b63", ["C13", "C16"], DEMOOR, "jnp.hstack([0, jnp.arange(0.5, self.max_demand + 1.5)])", "jnp.concatenate([jnp.zeros(1), jnp.arange(0.5, self.max_demand + 1.5)])",
  "cdf grid with the leading zero as a one-element vector")
B("b64", ["C13", "C16"], DEMOOR, "        demand_probabilities = demand_probabilities.at[-1].add(\n            1 - demand_probabilities.sum()\n        )",
  "        demand_probabilities = demand_probabilities.at[-1].set(\n            1 - demand_probabilities[:-1].sum()\n        )", "tail folded by setting the last entry to one minus the others")
B("b65", ["C02", "C01", "C04", "C06", "C05"], VI, "        return (single_step_rewards + gamma * next_state_values).dot(probs)",
  "        return probs @ (single_step_rewards + next_state_values * gamma)", "expectation written with the @ operator")
