#!/usr/bin/env python3
"""Seeds on top of refactorings: every stored seeded change is applied (in memory) on top of every stored
behaviour-preserving refactoring that touches one of the same files and still leaves the seed's context intact; the checks
that report the seed on today's tree must report it on the refactored tree as well.  (A canonical form that made a
refactoring invisible must not make a defect invisible.)"""
import json
import sys
from concurrent.futures import ProcessPoolExecutor
from pathlib import Path

here = Path(__file__).resolve().parent
sys.path.insert(0, str(here))

from mdpaxlint.loader import repo_root  # noqa: E402
from mdpaxlint.selftest.seeds import apply_unified  # noqa: E402


def files_of(diff):
    return {l[6:].strip() for l in diff.splitlines() if l.startswith("+++ b/")}


def job(args):
    root, seed_dir, ben_file, props = args
    from mdpaxlint.cli import analyse
    from mdpaxlint.loader import AnalysisError, Repo
    from mdpaxlint.report import load_known_findings, match_known

    root = Path(root)
    bdiff = Path(ben_file).read_text()
    sdiff = (Path(seed_dir) / "patch.diff").read_text()
    ov1 = apply_unified(bdiff, lambda rel: (root / rel).read_text())
    if ov1 is None:
        return seed_dir, ben_file, "skip", "refactoring does not apply"
    ov2 = apply_unified(sdiff, lambda rel: ov1[rel] if rel in ov1 else (root / rel).read_text())
    if ov2 is None:
        return seed_dir, ben_file, "skip", "seed context changed by the refactoring"
    ov = dict(ov1)
    ov.update(ov2)
    try:
        for rel, src in ov.items():
            compile(src, rel, "exec")
    except SyntaxError as e:
        return seed_dir, ben_file, "skip", f"does not compile: {e}"
    known = load_known_findings().get("known", [])
    fired, errs = [], []
    for p in props:
        try:
            col = analyse(p, Repo(root, ov))
        except AnalysisError as e:
            errs.append(f"{p}: {str(e)[:80]}")
            continue
        except Exception as e:  # noqa: BLE001
            errs.append(f"{p}: {type(e).__name__}")
            continue
        if [f for f in col.failures() if match_known(f, p, known) is None]:
            fired.append(p)
    return seed_dir, ben_file, ("fired" if fired else "MISSED"), f"fired={fired} errors={errs}"


def main():
    root = str(repo_root())
    seeds = sorted(p for p in (here / "seeded").iterdir() if (p / "patch.diff").exists())
    bens = sorted((here / "benign_refactors").glob("*.diff"))
    jobs = []
    for sd in seeds:
        meta = json.loads((sd / "meta.json").read_text())
        props = sorted(meta.get("reported_by") or {})
        sf = files_of((sd / "patch.diff").read_text())
        for b in bens:
            if files_of(b.read_text()) & sf:
                jobs.append((root, str(sd), str(b), props))
    n = {"fired": 0, "MISSED": 0, "skip": 0}
    with ProcessPoolExecutor(max_workers=14) as ex:
        for sd, b, st, why in ex.map(job, jobs, chunksize=4):
            n[st] += 1
            if st == "MISSED":
                print(f"MISSED {Path(sd).name} on top of {Path(b).name}: {why}")
    print(f"{len(jobs)} (seed, refactoring) pairs: {n}")
    return 1 if n["MISSED"] else 0


if __name__ == "__main__":
    sys.exit(main())
