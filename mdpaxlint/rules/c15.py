"""C15 - shipped problems' transitions and rewards match the documented dynamics."""

from __future__ import annotations

from ..loader import AnalysisError
from ..terms import K, NONE, S, T_add, T_cmp, T_mod, T_mul, T_neg, T_sub, T_sum, ZERO, show_norm, subterms
from ..interp import fresh
from .common import Context
from .problemterms import ACTION, EVENT, STATE, cfgsym, problem_interp, transition_terms
from .solverterms import brief, same

PROP = "C15"
EXPLANATION = (
    "Each shipped problem's constructor and transition function are abstractly interpreted with a "
    "symbolic configuration and symbolic state / action / event vectors.  Decided as term identities, "
    "hence for every parameter value, lead time, useful life and cost coefficient: the one-step issuing "
    "kernel conserves units (stock - stock' == demand - demand', both results clipped at zero) and its "
    "three copies are Herbrand-equal; oldest-first issuing scans in reverse (oldest units are on the "
    "right) and LIFO forwards, selected by issue_policy == 'fifo'; the successor vector is the documented "
    "composition of slices (closing stock = stock after issue without its last entry, expiries = that last "
    "entry, pipeline shifted by one with the new order in front and the oldest order received, weekday "
    "(w+1) mod 7); the reward is minus the sum of cost coefficient x its documented quantity (variable / "
    "fixed order, shortage, wastage, holding) or revenue minus ordering cost.  The documented dynamics are "
    "written here as terms over the documented vector layouts; equality with an independently coded scalar "
    "model on concrete inputs is not decided."
)
RULES = {
    "R15.1": "_issue_one_step conserves units: X - X' == D - D' with X' = clip(X - D, 0), D' = clip(D - X, 0)",
    "R15.2": "the three _issue_one_step copies are term-equal; oldest-first wrappers scan with reverse=True, LIFO forwards; 'fifo' selects the oldest-first wrapper",
    "R15.3": "successor vector == documented composition (slice partitions, pipeline shift, ageing, weekday successor)",
    "R15.4": "reward == documented combination: each cost / price coefficient multiplies its own quantity, with the documented sign",
}
ASSUMPTIONS = [
    "documented vector layouts (class docstrings): De Moor state = [in transit (L-1) | stock by age (m), oldest right]; "
    "Hendrix state = [A stock (m) | B stock (m)]; Mirjalili state = [weekday | stock (m-1)], event = [demand | received by age (m)]",
    "lax.scan(reverse=True) visits the vector from its last element",
]


def _issue_terms(ctx, cls):
    I = problem_interp(ctx, cls)
    D, X = S("DEMAND"), S("STOCK")
    r = I.call_method("_issue_one_step", [D, X])
    if r[0] != "tuple" or len(r[1]) != 2:
        raise AnalysisError(f"{cls.name}._issue_one_step does not return (demand', stock')")
    return I, D, X, r[1][0], r[1][1]


def run(ctx: Context, col) -> None:
    from .common import Parts

    part = Parts()
    names = ["DeMoorSingleProductPerishable", "HendrixTwoProductPerishable", "MirjaliliPlateletPerishable"]
    issue = {}
    for n in names:
        cls = ctx.ct.get(n)
        I, D, X, d2, x2 = _issue_terms(ctx, cls)
        owner, fn = ctx.ct.require(cls, "_issue_one_step")
        want_x = ("app", "clip", (T_sub(X, D), ZERO, NONE))
        want_d = ("app", "clip", (T_sub(D, X), ZERO, NONE))
        ok = x2 == want_x and d2 == want_d
        col.add("R15.1", f"{n}._issue_one_step", owner.module.relpath, fn.lineno, ok,
                "stock' = clip(stock - demand, 0), demand' = clip(demand - stock, 0): stock - stock' == demand - demand'" if ok else
                f"returns (demand' = {show_norm(d2)}, stock' = {show_norm(x2)}): units are not conserved", text="issue one step")
        issue[n] = (d2, x2)
    ref = issue[names[0]]
    for n in names[1:]:
        cls = ctx.ct.get(n)
        owner, fn = ctx.ct.require(cls, "_issue_one_step")
        ok = issue[n] == ref
        col.add("R15.2", f"{n}._issue_one_step", owner.module.relpath, fn.lineno, ok,
                "term-equal to De Moor's copy" if ok else "differs from De Moor's copy of the same kernel", text="clone agreement")
    part(_demoor, ctx, col)
    part(_hendrix, ctx, col)
    part(_mirjalili, ctx, col)
    part(_forest, ctx, col)
    part.finish()
    col.floor("R15.1", 3)
    col.floor("R15.2", 6)
    col.floor("R15.3", 4)
    col.floor("R15.4", 4)


def _scan_dirs(I):
    return [(getattr(s["fn"][2], "name", "?") if s["fn"][0] == "method" else "?", s["reverse"]) for s in I.scans]


def _wrapper_scan(ctx, cls, meth, want_reverse, col, label):
    I = problem_interp(ctx, cls)
    I.axes["VEC"] = ("age",)
    I.call_method(meth, [S("VEC"), S("DEMAND")])
    owner, fn = ctx.ct.require(cls, meth)
    recs = I.scans
    ok = len(recs) == 1 and recs[0]["reverse"] == want_reverse and recs[0]["fn"][0] == "method" and recs[0]["fn"][2].name == "_issue_one_step" \
        and recs[0]["init"] == S("DEMAND")
    col.add("R15.2", f"{cls.name}.{meth}", owner.module.relpath, fn.lineno, ok,
            f"{label}: scan(_issue_one_step, demand, stock, reverse={want_reverse})" if ok else
            f"{label}: scans found {[(r['reverse'], show_norm(r['init'])) for r in recs]} (oldest units are on the right, so oldest-first must scan in reverse)",
            text=f"{meth} direction")


def _demoor(ctx, col):
    cls = ctx.ct.get("DeMoorSingleProductPerishable")
    _wrapper_scan(ctx, cls, "_issue_fifo", True, col, "FIFO (oldest first)")
    _wrapper_scan(ctx, cls, "_issue_lifo", False, col, "LIFO (newest first)")
    I, nxt, rew = transition_terms(ctx, cls)
    owner, fn = ctx.ct.require(cls, "transition")
    L, m = cfgsym("lead_time"), cfgsym("max_useful_life")
    E = problem_interp(ctx, cls)
    opening = ("app", "slice", (STATE, T_sub(L, K(1)), T_sub(T_add(L, m), K(1)), NONE))
    in_open = ("app", "slice", (STATE, ZERO, T_sub(L, K(1)), NONE))
    demand = E.elem(EVENT, ZERO)
    from .common import one_data_attr
    issue = E.attrs.get(one_data_attr(ctx, cls, "transition", "call", "issuing function selected by issue_policy"))
    sel_ok = issue is not None and issue[0] == "ite" and issue[1] == T_cmp("Eq", K("fifo"), cfgsym("issue_policy")) \
        and issue[2][0] == "method" and issue[2][2].name == "_issue_fifo" and issue[3][0] == "method" and issue[3][2].name == "_issue_lifo"
    io, ifn = ctx.ct.require(cls, "__init__")
    col.add("R15.2", "DeMoorSingleProductPerishable.__init__", io.module.relpath, ifn.lineno, sel_ok,
            "issue_policy == 'fifo' selects _issue_fifo, otherwise _issue_lifo" if sel_ok else "issue policy dispatch differs", text="issue policy dispatch")
    Y = E.call_value(issue, [opening, demand], {})
    T = ("app", "hstack", (ACTION, in_open))
    want_next = ("app", "hstack", (("app", "slice", (T, ZERO, T_sub(L, K(1)), NONE)),
                                   ("app", "hstack", (E.elem(T, K(-1)), ("app", "slice", (Y, ZERO, T_sub(m, K(1)), NONE))))))
    ok = same(nxt, want_next)
    if not ok:
        # the pipeline [order | in transit] has exactly L entries (one order, L - 1 in transit), so pipeline[0:L-1] ++ pipeline[-1] is the
        # pipeline itself: the same successor written without taking it apart
        def flat(t):
            if isinstance(t, tuple) and t and t[0] == "app" and t[1] == "hstack":
                out = []
                for a in t[2]:
                    a = flat(a)
                    out.extend(a[2] if a[0] == "app" and a[1] == "hstack" else (a,))
                return ("app", "hstack", tuple(out))
            return t
        want2 = ("app", "hstack", (ACTION, in_open, ("app", "slice", (Y, ZERO, T_sub(m, K(1)), NONE))))
        ok = same(flat(nxt), flat(want2))
    col.add("R15.3", "DeMoorSingleProductPerishable.transition", owner.module.relpath, fn.lineno, ok,
            "next = [pipeline[0:L-1] | received = pipeline[-1] | stock after issue[0:m-1]], pipeline = [order | in transit]" if ok else
            f"successor is {brief(nxt, 400)}", text="successor composition")
    cost = lambda n_: cfgsym(n_)  # noqa: E731
    order = E.elem(ACTION, ZERO)
    shortage = E.reduce("max", ("app", "array", (("tuple", (T_sub(demand, E.reduce("sum", opening)), ZERO)),)))
    expiries = E.elem(Y, K(-1))
    holding = E.reduce("sum", ("app", "slice", (Y, ZERO, T_sub(m, K(1)), NONE)))
    total = T_add(T_add(T_mul(cost("variable_order_cost"), order), T_mul(cost("shortage_cost"), shortage)),
                  T_add(T_mul(cost("wastage_cost"), expiries), T_mul(cost("holding_cost"), holding)))
    want_rew = T_neg(total)
    okr = same(rew, want_rew)
    col.add("R15.4", "DeMoorSingleProductPerishable.transition", owner.module.relpath, fn.lineno, okr,
            "reward = -(variable*order + shortage*max(demand - stock, 0) + wastage*expired + holding*closing stock)" if okr else
            f"reward is {brief(rew, 500)}", text="reward combination")


def _hendrix(ctx, col):
    cls = ctx.ct.get("HendrixTwoProductPerishable")
    _wrapper_scan(ctx, cls, "_issue_fifo", True, col, "FIFO (oldest first)")
    I, nxt, rew = transition_terms(ctx, cls)
    owner, fn = ctx.ct.require(cls, "transition")
    m = cfgsym("max_useful_life")
    E = problem_interp(ctx, cls)
    Ya = E.call_method("_issue_fifo", [("app", "slice", (STATE, ZERO, m, NONE)), E.elem(EVENT, ZERO)])
    Yb = E.call_method("_issue_fifo", [("app", "slice", (STATE, m, T_mul(K(2), m), NONE)), E.elem(EVENT, K(1))])
    want_next = ("app", "hstack", (
        ("app", "hstack", (E.elem(ACTION, ZERO), ("app", "slice", (Ya, ZERO, T_sub(m, K(1)), NONE)))),
        ("app", "hstack", (E.elem(ACTION, K(1)), ("app", "slice", (Yb, ZERO, T_sub(m, K(1)), NONE)))),
    ))
    ok = same(nxt, want_next)
    col.add("R15.3", "HendrixTwoProductPerishable.transition", owner.module.relpath, fn.lineno, ok,
            "next = [order A | A after issue[0:m-1] | order B | B after issue[0:m-1]], issued A = event[0], issued B = event[1]" if ok else
            f"successor is {brief(nxt, 400)}", text="successor composition")
    a, e = fresh("adim"), fresh("edim")
    costs = ("app", "array", (("tuple", (cfgsym("variable_order_cost_a"), cfgsym("variable_order_cost_b"))),))
    prices = ("app", "array", (("tuple", (cfgsym("sales_price_a"), cfgsym("sales_price_b"))),))
    revenue = T_sum(e, "edim", T_mul(E.elem(EVENT, e), ("elem", prices, (e,))))
    cost = T_sum(a, "adim", T_mul(E.elem(ACTION, a), ("elem", costs, (a,))))
    okr = same(rew, T_sub(revenue, cost))
    col.add("R15.4", "HendrixTwoProductPerishable.transition", owner.module.relpath, fn.lineno, okr,
            "reward = issued . (price_a, price_b) - order . (cost_a, cost_b)" if okr else f"reward is {brief(rew, 400)}", text="reward combination")


def _mirjalili(ctx, col):
    cls = ctx.ct.get("MirjaliliPlateletPerishable")
    _wrapper_scan(ctx, cls, "_issue_oufo", True, col, "OUFO (oldest first)")
    I, nxt, rew = transition_terms(ctx, cls)
    owner, fn = ctx.ct.require(cls, "transition")
    m, Q = cfgsym("max_useful_life"), cfgsym("max_order_quantity")
    E = problem_interp(ctx, cls)
    demand = E.elem(EVENT, ZERO)
    received = ("app", "slice", (EVENT, K(1), T_add(m, K(1)), NONE))
    opening = ("app", "clip", (T_add(("app", "hstack", (ZERO, ("app", "slice", (STATE, K(1), m, NONE)))), received), ZERO, Q))
    Y = E.call_method("_issue_oufo", [opening, demand])
    want_next = ("app", "hstack", (T_mod(T_add(E.elem(STATE, ZERO), K(1)), K(7)), ("app", "slice", (Y, ZERO, T_sub(m, K(1)), NONE))))
    ok = same(nxt, want_next)
    col.add("R15.3", "MirjaliliPlateletPerishable.transition", owner.module.relpath, fn.lineno, ok,
            "next = [(weekday+1) mod 7 | stock after issue[0:m-1]], opening = clip([0 | stock] + received, 0, Q)" if ok else
            f"successor is {brief(nxt, 400)}", text="successor composition")
    order = E.elem(ACTION, ZERO)
    shortage = E.reduce("max", ("app", "array", (("tuple", (T_sub(demand, E.reduce("sum", opening)), ZERO)),)))
    total = T_add(
        T_add(T_mul(cfgsym("variable_order_cost"), order), T_mul(cfgsym("fixed_order_cost"), T_cmp("Lt", ZERO, order))),
        T_add(T_add(T_mul(cfgsym("shortage_cost"), shortage), T_mul(cfgsym("wastage_cost"), E.elem(Y, K(-1)))),
              T_mul(cfgsym("holding_cost"), E.reduce("sum", Y))))
    okr = same(rew, T_neg(total))
    col.add("R15.4", "MirjaliliPlateletPerishable.transition", owner.module.relpath, fn.lineno, okr,
            "reward = -(variable*order + fixed*[order > 0] + shortage*max(demand - stock, 0) + wastage*expired + holding*all stock after issue)" if okr else
            f"reward is {brief(rew, 500)}", text="reward combination")


def _forest(ctx, col):
    cls = ctx.ct.get("Forest")
    I, nxt, rew = transition_terms(ctx, cls)
    owner, fn = ctx.ct.require(cls, "transition")
    s, a, e = I.elem(STATE, ZERO), I.elem(ACTION, ZERO), I.elem(EVENT, ZERO)
    Sm1 = T_sub(cfgsym("S"), K(1))
    cut, fire = T_cmp("Eq", a, K(1)), T_cmp("Eq", e, K(1))
    want_next = ("app", "array", (("tuple", (("app", "where", (("app", "or", (cut, fire)), ZERO, I.pointwise("minimum", [T_add(s, K(1)), Sm1]))),)),))
    ok = same(nxt, want_next)
    col.add("R15.3", "Forest.transition", owner.module.relpath, fn.lineno, ok,
            "next age = 0 if cut or fire else min(age + 1, S - 1)" if ok else f"successor is {brief(nxt, 300)}", text="successor composition")
    oldest = T_cmp("Eq", s, Sm1)
    want_rew = ("app", "where", (cut,
                                 ("app", "where", (oldest, cfgsym("r2"), ("app", "where", (T_cmp("Eq", s, ZERO), ZERO, K(1))))),
                                 ("app", "where", (oldest, cfgsym("r1"), ZERO))))
    okr = same(rew, want_rew)
    col.add("R15.4", "Forest.transition", owner.module.relpath, fn.lineno, okr,
            "reward = (r2 if oldest else 0 if age 0 else 1) when cutting, (r1 if oldest else 0) when waiting" if okr else
            f"reward is {brief(rew, 300)}", text="reward combination")
