#!/usr/bin/env python3
"""Confirm a candidate seeded change in a scratch worktree of /repo (never in /repo itself):
  1. demo passes on the unchanged tree, 2. patch applies, 3. demo fails with the patch,
  4. the pinned baseline tests still pass with the patch (all stable_pass ids of BASELINE.json).
usage: tools_seed_verify.py <id> <patch.diff> <demo.py> [--tests <pytest args>]
Writes /tmp/seedverify_<id>.json and removes the worktree."""
import json
import os
import shutil
import subprocess
import sys
import time
import xml.etree.ElementTree as ET
from pathlib import Path

REPO = "/repo"


def sh(cmd, cwd=None, env=None, timeout=None):
    return subprocess.run(cmd, shell=True, cwd=cwd, env=env, capture_output=True, text=True, timeout=timeout)


def run_demo(wt, demo, env):
    if demo.name.startswith("test_"):
        cmd = f"/venv/bin/python -m pytest -q -p no:cacheprovider --no-cov -x {demo}"
    else:
        cmd = f"/venv/bin/python {demo}"
    r = sh(cmd, cwd=wt, env=env, timeout=3600)
    return r.returncode, (r.stdout + r.stderr)[-1500:]


def main():
    sid, patch, demo = sys.argv[1], Path(sys.argv[2]).resolve(), Path(sys.argv[3]).resolve()
    tests = None
    if "--tests" in sys.argv:
        tests = sys.argv[sys.argv.index("--tests") + 1]
    wt = Path(f"/tmp/seedverify_{sid}")
    if wt.exists():
        sh(f"git -C {REPO} worktree remove --force {wt}")
        shutil.rmtree(wt, ignore_errors=True)
    r = sh(f"git -C {REPO} worktree add -q {wt} HEAD")
    if r.returncode:
        print(r.stderr)
        return 2
    env = dict(os.environ, JAX_PLATFORMS="cpu", PYTHONPATH=f"{wt}/src", PYTHONDONTWRITEBYTECODE="1")
    res = {"id": sid, "started": time.strftime("%H:%M:%S")}
    try:
        d = wt / "seed_demo"
        d.mkdir()
        demo2 = d / demo.name
        shutil.copy(demo, demo2)
        rc0, out0 = run_demo(wt, demo2, env)
        res["demo_without"] = {"exit": rc0, "tail": out0[-600:]}
        a = sh(f"git -C {wt} apply {patch}")
        res["applies"] = a.returncode == 0
        if a.returncode:
            res["apply_err"] = a.stderr
        else:
            c = sh("/venv/bin/python -c 'import mdpax, mdpax.solvers, mdpax.problems'", cwd=wt, env=env)
            res["imports"] = c.returncode == 0
            rc1, out1 = run_demo(wt, demo2, env)
            res["demo_with"] = {"exit": rc1, "tail": out1[-600:]}
            junit = f"/tmp/seedverify_{sid}.junit.xml"
            targs = tests or ""
            t0 = time.time()
            t = sh(f"/venv/bin/python -m pytest -q -p no:cacheprovider --no-cov --timeout=2400 --continue-on-collection-errors --junitxml={junit} {targs}",
                   cwd=wt, env=env, timeout=7200)
            res["suite_s"] = round(time.time() - t0)
            res["suite_tail"] = t.stdout[-400:]
            base = json.load(open("/root/.vp/BASELINE.json"))
            passed, seen = set(), set()
            for tc in ET.parse(junit).iter("testcase"):
                name = f"{tc.get('classname')}::{tc.get('name')}"
                seen.add(name)
                if not any(ch.tag in ("failure", "error", "skipped") for ch in tc):
                    passed.add(name)
            stable = base["stable_pass"]
            if tests:
                stable = [s for s in stable if s in seen]
            res["stable_checked"] = len(stable)
            res["stable_failed"] = [s for s in stable if s not in passed]
            os.remove(junit)
    finally:
        sh(f"git -C {REPO} worktree remove --force {wt}")
        shutil.rmtree(wt, ignore_errors=True)
    res["confirmed"] = bool(res.get("applies") and res.get("imports") and res["demo_without"]["exit"] == 0
                            and res.get("demo_with", {}).get("exit", 0) != 0 and not res.get("stable_failed", ["x"]))
    Path(f"/tmp/seedverify_{sid}.json").write_text(json.dumps(res, indent=1))
    print(json.dumps({k: v for k, v in res.items() if k not in ("suite_tail",)}, indent=1)[:2500])
    return 0


if __name__ == "__main__":
    sys.exit(main())
