#!/usr/bin/env python3
"""Evaluate behaviour-preserving patches: for every <dir>/patch_*.diff, copy /repo/src to a scratch
directory, apply the patch there, run every check (quick) against the copy with evidence redirected,
print anything that is not silent (exit 1 = false alarm, exit 2 = analysis gave up), remove the copy.

usage: tools_benign_eval.py <dir or patch> [...]"""
import os
import shutil
import subprocess
import sys
import tempfile
from concurrent.futures import ThreadPoolExecutor
from pathlib import Path

here = Path(__file__).resolve().parent
REPO = os.environ.get("MDPAX_REPO") or "/repo"


def one(patch: Path):
    td = Path(tempfile.mkdtemp(prefix="mdpax_benign_"))
    try:
        shutil.copytree(Path(REPO) / "src", td / "src")
        r = subprocess.run(["git", "apply", str(patch)], cwd=td, capture_output=True, text=True)
        if r.returncode:
            return patch, "patch does not apply: " + r.stderr.strip()[:200], []
        env = dict(os.environ, MDPAX_EVIDENCE_DIR=str(td / "ev"))
        (td / "ev").mkdir()
        r = subprocess.run([str(here / "check"), "all", "quick", "--repo", str(td)], capture_output=True, text=True, env=env, cwd=here)
        lines = [l for l in r.stdout.splitlines() if l.startswith(("src/", "ANALYSIS-ERROR", "VIOLATION"))]
        return patch, f"exit {r.returncode}", lines
    finally:
        shutil.rmtree(td, ignore_errors=True)


def main():
    patches = []
    for a in sys.argv[1:]:
        p = Path(a).resolve()
        patches += sorted(p.glob("*.diff")) if p.is_dir() else [p]
    bad = 0
    with ThreadPoolExecutor(max_workers=8) as ex:
        for patch, status, lines in ex.map(one, patches):
            if status != "exit 0":
                bad += 1
            print(f"{patch}: {status}")
            for l in lines[:8]:
                print("    " + l[:300])
    print(f"{len(patches)} patches, {bad} not silent")
    return 1 if bad else 0


if __name__ == "__main__":
    sys.exit(main())
