"""C10 - restore()/load_checkpoint() reproduce the saved solver exactly and completely."""

from __future__ import annotations

import ast

from ..cfg import cfg_of
from ..effects import is_self_attr
from ..loader import AnalysisError, norm_text
from .c09 import restore_paths, save_paths
from .common import Context, SolveLoop, calls_in, parents_of, self_call_name

PROP = "C10"
EXPLANATION = (
    "Decides the structural clauses of complete restoration: for each of the nine configuration "
    "classes the `_target_` string names an existing class whose `Config` attribute is that very "
    "configuration class (so Hydra's instantiate rebuilds the right object); every State/Info "
    "constructor call passes exactly the dataclass's fields and every field path read on restore "
    "exists in the annotated dataclass types; both read routes follow the protocol template-from-"
    "a-constructed-solver -> `step or latest_step()` -> ValueError on None before manager.restore "
    "-> _restore_state_from_checkpoint(restored); restore() raises FileNotFoundError when "
    "config.yaml is absent before anything is instantiated; each override parameter is written to "
    "the config key of the same meaning under an is-not-None guard; and the constructor records "
    "problem.config in the solver configuration.  Does not decide YAML round-trip of values or bit "
    "equality."
)
RULES = {
    "R10.1": "`_target_` of every config class resolves to a class in the repository whose Config attribute is that config class",
    "R10.2": "State/Info constructor calls pass exactly the dataclass fields (inherited included); every restored field path exists in the annotated types",
    "R10.3": "restore and load_checkpoint follow the read protocol; clean failures (FileNotFoundError / ValueError) precede instantiation / manager.restore",
    "R10.4": "each restore() override is assigned to the config key of the same meaning under `is not None`; the keys exist in all solver configs",
    "R10.5": "Solver._setup_config stores problem.config into self.config.problem when a problem instance is given",
    "R10.8": "the restore template has a leaf for everything a checkpoint may hold: an attribute that solver_state saves, that is None on a fresh solver and that some method later sets to a value (the policy of the value-iteration family) has no template leaf, Orbax skips it, and the stored value is silently not restored",
    "R10.7": "the restore template (a fresh solver's solver_state) has, leaf by leaf, the kind declared in the State/Info dataclass: Orbax casts restored leaves to the template's type (instances of C09 R9.6)",
    "R10.6": "completeness: every field solver_state saves is read back by _restore_state_from_checkpoint, into the attribute it was saved from",
}
ASSUMPTIONS = [
    "hydra.utils.instantiate(config) builds the class named by _target_ with the config's fields as keyword arguments, recursively",
    "orbax CheckpointManager.restore with StandardRestore(template) returns an object of the template's type",
]

OVERRIDES = {
    "new_checkpoint_dir": "checkpoint_dir",
    "checkpoint_frequency": "checkpoint_frequency",
    "max_checkpoints": "max_checkpoints",
    "enable_async_checkpointing": "enable_async_checkpointing",
}


def config_classes(ctx):
    out = []
    for ci in ctx.ct.by_qual.values():
        names = [k.name for k in ctx.ct.mro(ci)]
        if ci.name in ("SolverConfig", "ProblemConfig"):
            continue
        if "SolverConfig" in names or "ProblemConfig" in names:
            out.append(ci)
    return sorted(out, key=lambda c: c.qualname)


def run(ctx: Context, col) -> None:
    from .common import Parts

    part = Parts()
    part(_targets, ctx, col)
    for cls in ctx.solvers():
        part(_fields, ctx, cls, col)
        part(_complete, ctx, cls, col)
    part(_protocol, ctx, col)
    part(_overrides, ctx, col)
    part(_problem_config, ctx, col)
    part.finish()
    col.floor("R10.1", 9)
    col.floor("R10.2", 10)
    col.floor("R10.3", 10)
    col.floor("R10.4", 4)
    col.floor("R10.5", 1)
    col.floor("R10.6", 5)
    from .c09 import template_kinds
    for cls in ctx.solvers():
        template_kinds(ctx, cls, col, "R10.7")
    _template_leaves(ctx, col)
    col.floor("R10.8", 5)
    col.floor("R10.7", 10)


# ------------------------------------------------------------------- R10.1
def _targets(ctx, col):
    for cfg in config_classes(ctx):
        r = ctx.ct.class_attr(cfg, "_target_")
        file, line = cfg.module.relpath, cfg.node.lineno
        val = None
        if r is not None:
            try:
                val = ast.literal_eval(r[1])
            except Exception:
                val = None
        if not isinstance(val, str):
            col.add("R10.1", cfg.name, file, line, False, "`_target_` is not a string literal", text="_target_")
            continue
        target = ctx.ct.class_of_dotted(val)
        if target is None:
            col.add("R10.1", cfg.name, file, line, False,
                    f"`_target_` = {val!r} does not name a class in the repository", text="_target_")
            continue
        ca = ctx.ct.class_attr(target, "Config")
        back = None
        if ca is not None:
            back = ctx.ct.class_of_dotted(ctx.ct.resolve_name(ca[0].module, ast.unparse(ca[1])))
        ok = back is not None and back == cfg
        col.add("R10.1", cfg.name, file, line, ok,
                f"_target_ -> {target.name}, whose Config is {cfg.name}" if ok else
                f"_target_ -> {target.name}, but {target.name}.Config is {back.name if back else None}",
                text="_target_ <-> Config round trip")
        # the constructor accepts the config fields as keyword arguments: __init__ has **kwargs or `config`
        init = ctx.ct.lookup(target, "__init__")
        if init is not None:
            a = init[1].args
            ok2 = a.kwarg is not None
            col.add("R10.1", f"{target.name}.__init__", init[0].module.relpath, init[1].lineno, ok2,
                    "constructor takes **kwargs, so instantiate() can pass every config field" if ok2 else
                    "constructor has no **kwargs: instantiate() cannot pass the config fields", text="__init__ accepts config fields")


# ------------------------------------------------------------------- R10.2
def _ann_class(ctx, owner_cls, field_name):
    """Annotated type of dataclass field -> ClassInfo (if it is a repository dataclass)."""
    f = ctx.ct.all_fields(owner_cls).get(field_name)
    if f is None:
        return None
    k, node = f
    ann = ast.unparse(node.annotation).split("|")[0].strip()
    return ctx.ct.class_of_dotted(ctx.ct.resolve_name(k.module, ann))


def _fields(ctx, cls, col):
    so, sfn, spaths, ctor_calls = save_paths(ctx, cls)
    file = so.module.relpath
    root_cls = None
    for call, prefix in ctor_calls:
        dc = ctx.ct.class_of_dotted(ctx.ct.resolve_name(so.module, ast.unparse(call.func)))
        construct = f"{cls.name}.solver_state:{ast.unparse(call.func)}"
        if dc is None:
            col.add("R10.2", construct, file, call.lineno, False, "constructor is not a repository dataclass", text=norm_text(call)[:80])
            continue
        if not prefix:
            root_cls = dc
        want = list(ctx.ct.all_fields(dc))
        got = [k.arg for k in call.keywords]
        ok = sorted(want) == sorted(got) and len(set(got)) == len(got)
        col.add("R10.2", construct, file, call.lineno, ok,
                f"passes exactly the fields {want}" if ok else
                f"passes {got} but {dc.name} has fields {want} (missing {sorted(set(want) - set(got))}, extra {sorted(set(got) - set(want))})",
                text=f"{dc.name}(...) fields")
        # nested constructor must be of the annotated type of the enclosing field
        if prefix:
            parent_call = [c for c, p in ctor_calls if p == prefix[:-1]][0]
            pdc = ctx.ct.class_of_dotted(ctx.ct.resolve_name(so.module, ast.unparse(parent_call.func)))
            ann = _ann_class(ctx, pdc, prefix[-1]) if pdc else None
            ok2 = ann is not None and (dc == ann or ann in ctx.ct.mro(dc))
            col.add("R10.2", construct, file, call.lineno, ok2,
                    f"{dc.name} fits the annotated type of {pdc.name if pdc else '?'}.{prefix[-1]}" if ok2 else
                    f"{dc.name} does not match the annotation of {pdc.name if pdc else '?'}.{prefix[-1]} ({ann.name if ann else None})",
                    text=f"{dc.name} as field {prefix[-1]}")
    # restored paths exist
    ro, rfn, rpaths, _ = restore_paths(ctx, cls)
    for a, path in sorted(rpaths.items()):
        cur = root_cls
        ok = cur is not None
        for comp in path:
            if cur is None or comp not in ctx.ct.all_fields(cur):
                ok = False
                break
            nxt = _ann_class(ctx, cur, comp)
            cur = nxt if nxt is not None else cur if comp == path[-1] else None
        col.add("R10.2", f"{cls.name}._restore_state_from_checkpoint", ro.module.relpath, rfn.lineno, ok,
                f"path {'.'.join(path)} exists in {root_cls.name if root_cls else '?'}" if ok else
                f"path {'.'.join(path)} does not exist in {root_cls.name if root_cls else '?'}", text=f"path {'.'.join(path)} for {a}")


def _complete(ctx, cls, col):
    so, sfn, spaths, _ = save_paths(ctx, cls)
    ro, rfn, rpaths, _ = restore_paths(ctx, cls)
    saved = {v: k for k, v in spaths.items()}
    restored = {v: k for k, v in rpaths.items()}
    missing = sorted(".".join(p_) for p_ in saved if p_ not in restored)
    crossed = sorted(f"{'.'.join(p_)}: saved from {saved[p_]}, restored into {restored[p_]}" for p_ in saved if p_ in restored and saved[p_] != restored[p_])
    ok = not missing and not crossed
    col.add("R10.6", f"{cls.name}._restore_state_from_checkpoint", ro.module.relpath, rfn.lineno, ok,
            f"all {len(saved)} saved fields are restored into the attributes they came from" if ok else
            (f"saved but never restored: {missing}" if missing else f"restored into a different attribute: {crossed}"),
            text="saved fields all restored")


def _var_assigned_from(fn, call_pred):
    """Name of the local bound by `<name> = <call matching call_pred>(...)` (unique), else None."""
    names = []
    for s in ast.walk(fn):
        if isinstance(s, ast.Assign) and len(s.targets) == 1 and isinstance(s.targets[0], ast.Name) and isinstance(s.value, ast.Call) \
                and call_pred(s.value):
            names.append(s.targets[0].id)
    return names[0] if len(names) == 1 else None


# ------------------------------------------------------------------- R10.3
def _first(nodes, pred):
    for n in nodes:
        if pred(n):
            return n
    return None


def _stmt_calls(n):
    region = SolveLoop.node_region(n)
    if region is None:
        return []
    out = []
    for reg in (region if isinstance(region, list) else [region]):
        out += calls_in(reg)
    return out


def _protocol(ctx, col):
    attr_t = ast.Attribute
    cm = ctx.ct.get("CheckpointMixin")
    file = cm.module.relpath
    for meth, solver_expr in (("load_checkpoint", "self"), ("restore", None)):
        owner, fn = ctx.ct.require(cm, meth)
        g = cfg_of(fn)
        nodes = g.stmts()
        construct = f"CheckpointMixin.{meth}"
        if solver_expr is None:
            solver_expr = _var_assigned_from(fn, lambda c: isinstance(c.func, ast.Name) and c.func.id == "instantiate")
            if solver_expr is None:
                raise AnalysisError("anchor vanished: restore() does not bind the result of instantiate(...) to a local")

        def has_call(n, pred):
            return any(pred(c) for c in _stmt_calls(n))

        # anchors
        tmpl = _first(nodes, lambda n: isinstance(n.ast, ast.Assign) and isinstance(n.ast.value, ast.Attribute)
                      and n.ast.value.attr == "solver_state" and isinstance(n.ast.value.value, ast.Name)
                      and n.ast.value.value.id == solver_expr)
        mrestore = _first(nodes, lambda n: has_call(n, lambda c: isinstance(c.func, ast.Attribute) and c.func.attr == "restore"
                                                    and isinstance(c.func.value, ast.Name)))
        apply_ = _first(nodes, lambda n: has_call(n, lambda c: isinstance(c.func, ast.Attribute)
                                                   and c.func.attr == "_restore_state_from_checkpoint"))
        # the variable handed to manager.restore as the step, and every name that holds the `step` argument by plain copies
        rcalls = [c for c in (_stmt_calls(mrestore) if mrestore is not None else []) if isinstance(c.func, ast.Attribute) and c.func.attr == "restore"]
        stepvar = rcalls[0].args[0].id if rcalls and rcalls[0].args and isinstance(rcalls[0].args[0], ast.Name) else None
        al = {"step"}
        changed = True
        while changed:
            changed = False
            for n in nodes:
                a = n.ast
                if isinstance(a, ast.Assign) and len(a.targets) == 1 and isinstance(a.targets[0], ast.Name) and isinstance(a.value, ast.Name) \
                        and a.value.id in al and a.targets[0].id not in al:
                    al.add(a.targets[0].id)
                    changed = True

        def is_latest(e):
            if isinstance(e, ast.Call) and isinstance(e.func, ast.Attribute) and e.func.attr == "latest_step":
                return True
            # max(<manager>.all_steps(), default=None): the manager's own (integer) steps - the same step as latest_step()
            if isinstance(e, ast.Call) and isinstance(e.func, ast.Name) and e.func.id == "max" and len(e.args) == 1 and isinstance(e.args[0], ast.Call) \
                    and isinstance(e.args[0].func, ast.Attribute) and e.args[0].func.attr == "all_steps" and not e.args[0].args \
                    and any(k.arg == "default" and isinstance(k.value, ast.Constant) and k.value.value is None for k in e.keywords):
                return True
            if isinstance(e, ast.Name):  # a local bound once to <manager>.latest_step()
                defs = [n.ast for n in nodes if isinstance(n.ast, ast.Assign) and len(n.ast.targets) == 1
                        and isinstance(n.ast.targets[0], ast.Name) and n.ast.targets[0].id == e.id]
                return len(defs) == 1 and is_latest(defs[0].value)
            return False

        def none_test(t, names=None):
            """X for `X is None` / `not X` with X a step alias"""
            names = al if names is None else names
            if isinstance(t, ast.Compare) and len(t.ops) == 1 and isinstance(t.ops[0], ast.Is) and isinstance(t.left, ast.Name) \
                    and isinstance(t.comparators[0], ast.Constant) and t.comparators[0].value is None and t.left.id in names:
                return t.left.id
            if isinstance(t, ast.UnaryOp) and isinstance(t.op, ast.Not) and isinstance(t.operand, ast.Name) and t.operand.id in names:
                return t.operand.id
            return None

        stepsel, sel_form = None, None
        selected: set[str] = set()
        for n in nodes:
            a = n.ast
            if isinstance(a, ast.Assign) and len(a.targets) == 1 and isinstance(a.targets[0], ast.Name):
                v = a.value
                if isinstance(v, ast.BoolOp) and isinstance(v.op, ast.Or) and len(v.values) == 2 and isinstance(v.values[0], ast.Name) \
                        and v.values[0].id in al and is_latest(v.values[1]):
                    stepsel, sel_form = n, "or"
                    selected.add(a.targets[0].id)  # the selected step may live in a new variable (`step_to_load = step or ...`)
                    break
            if n.kind == "test" and none_test(a.test) is not None and any(
                    isinstance(b, ast.Assign) and len(b.targets) == 1 and isinstance(b.targets[0], ast.Name) and b.targets[0].id in al
                    and is_latest(b.value) for b in a.body):
                stepsel, sel_form = n, "if"
                break
        if sel_form == "if":
            selected |= al
        grow = True
        while grow:
            grow = False
            for n in nodes:
                a = n.ast
                if isinstance(a, ast.Assign) and len(a.targets) == 1 and isinstance(a.targets[0], ast.Name) and isinstance(a.value, ast.Name) \
                        and a.value.id in selected and a.targets[0].id not in selected:
                    selected.add(a.targets[0].id)
                    grow = True
        al_sel = al | selected
        nonecheck = _first(nodes, lambda n: n.kind == "test" and none_test(n.ast.test, al_sel) is not None
                           and isinstance(n.ast.test, ast.Compare) and any(isinstance(b, ast.Raise) for b in n.ast.body))
        # (a) template from the constructed solver
        ok = tmpl is not None
        col.add("R10.3", construct, file, (tmpl.lineno if tmpl else fn.lineno), ok,
                f"restore template is `{solver_expr}.solver_state` of the constructed solver" if ok else
                f"no `template = {solver_expr}.solver_state`", text="template from constructed solver")
        # (b) step selection
        ok = stepsel is not None
        why = "explicit step if given, else the manager's latest step" if ok else "no `step = step or <manager>.latest_step()`"
        if not ok:
            cand = [n.ast for n in nodes if isinstance(n.ast, ast.Assign) and len(n.ast.targets) == 1 and isinstance(n.ast.targets[0], ast.Name)
                    and n.ast.targets[0].id in al and not isinstance(n.ast.value, ast.Name)]
            if cand:
                why = f"step selected as `{ast.unparse(cand[0].value)}`"
        col.add("R10.3", construct, file, (stepsel.lineno if stepsel else fn.lineno), ok, why, text="step selection")
        # (c) None => ValueError before manager.restore
        ok = False
        why = "no `if step is None: raise ValueError` before manager.restore"
        if nonecheck is not None and mrestore is not None:
            raises = [s for s in nonecheck.ast.body if isinstance(s, ast.Raise)]
            is_ve = bool(raises) and raises[0].exc is not None and ast.unparse(raises[0].exc).startswith("ValueError")
            ok = is_ve and g.dominates(nonecheck, mrestore) and (stepsel is None or g.dominates(stepsel, nonecheck))
            why = "`step is None` raises ValueError before manager.restore is reached" if ok else why
        col.add("R10.3", construct, file, (nonecheck.lineno if nonecheck else fn.lineno), ok, why, text="no-checkpoint failure")
        # (d) the restored object is applied, with the template, to the solver
        ok = False
        why = "restored state is not passed to _restore_state_from_checkpoint"
        if mrestore is not None and apply_ is not None and isinstance(mrestore.ast, ast.Assign) and isinstance(mrestore.ast.targets[0], ast.Name):
            rname = mrestore.ast.targets[0].id
            acall = [c for c in _stmt_calls(apply_) if isinstance(c.func, ast.Attribute) and c.func.attr == "_restore_state_from_checkpoint"][0]
            recv_ok = isinstance(acall.func.value, ast.Name) and acall.func.value.id == solver_expr
            arg_ok = len(acall.args) == 1 and isinstance(acall.args[0], ast.Name) and acall.args[0].id == rname
            rcall = [c for c in _stmt_calls(mrestore) if isinstance(c.func, ast.Attribute) and c.func.attr == "restore"][0]
            step_ok = bool(rcall.args) and isinstance(rcall.args[0], ast.Name) and rcall.args[0].id in (selected or al)
            tname = tmpl.ast.targets[0].id if tmpl is not None and isinstance(tmpl.ast.targets[0], ast.Name) else None
            tmpl_ok = tname is not None and any(
                isinstance(x, ast.Name) and x.id == tname for k in rcall.keywords for x in ast.walk(k.value)
            )
            uncond = g.postdominates(apply_, mrestore)
            ok = recv_ok and arg_ok and step_ok and tmpl_ok and g.dominates(mrestore, apply_) and uncond
            why = "manager.restore(step, StandardRestore(template)) -> _restore_state_from_checkpoint(restored)" if ok else \
                ("the restored state is applied only on some paths after manager.restore (a conditional restore leaves the solver with the state it had)" if not uncond else
                 f"receiver ok={recv_ok}, restored object passed={arg_ok}, step passed={step_ok}, template used={tmpl_ok}")
        col.add("R10.3", construct, file, (apply_.lineno if apply_ else fn.lineno), ok, why, text="apply restored state")
        # (h) the manager that selects and restores the step reads the directory ARGUMENT
        dir_param = [a.arg for a in fn.args.args if a.arg not in ("self", "cls")][0]
        ok, why = False, "no manager.restore(...) call"
        if mrestore is not None:
            rc = [c for c in _stmt_calls(mrestore) if isinstance(c.func, attr_t) and c.func.attr == "restore"][0]
            mgrvar = rc.func.value.id if isinstance(rc.func.value, ast.Name) else None
            defs = [s_ for s_ in ast.walk(fn) if isinstance(s_, ast.Assign) and any(isinstance(t, ast.Name) and t.id == mgrvar for t in s_.targets)]
            good = []
            for d in defs:
                v = d.value
                isc = isinstance(v, ast.Call) and isinstance(v.func, ast.Attribute) and v.func.attr == "_create_checkpoint_manager"
                first = (v.args[0] if isc and v.args else next((k.value for k in v.keywords if k.arg == "checkpoint_dir"), None)) if isc else None
                good.append(isc and isinstance(first, ast.Name) and first.id == dir_param)
            latest = [c for n_ in nodes for c in _stmt_calls(n_) if isinstance(c.func, ast.Attribute) and c.func.attr == "latest_step"]
            same_mgr = all(isinstance(c.func.value, ast.Name) and c.func.value.id == mgrvar for c in latest)
            ok = bool(defs) and all(good) and same_mgr and mgrvar is not None
            why = (f"`{mgrvar}` is only ever _create_checkpoint_manager({dir_param}, ...): the step is selected and read from the directory argument"
                   if ok else f"the manager `{mgrvar}` that restores the step is not always created from the `{dir_param}` argument "
                   f"({[norm_text(d)[:70] for d in defs]}): state may be read from another directory (e.g. the one recorded in config.yaml)")
        col.add("R10.3", construct, file, (mrestore.lineno if mrestore else fn.lineno), ok, why, text="manager reads the directory argument")
        if meth == "restore":
            # (e) missing config.yaml => FileNotFoundError before instantiate
            inst = _first(nodes, lambda n: has_call(n, lambda c: isinstance(c.func, ast.Name) and c.func.id == "instantiate"))
            load = _first(nodes, lambda n: has_call(n, lambda c: ast.unparse(c.func) == "OmegaConf.load"))
            chk = _first(nodes, lambda n: n.kind == "test" and "exists()" in ast.unparse(n.ast.test)
                         and isinstance(n.ast.test, ast.UnaryOp) and isinstance(n.ast.test.op, ast.Not))
            ok = False
            why = "no `if not config_path.exists(): raise FileNotFoundError` before the config is loaded"
            if chk is not None and inst is not None and load is not None:
                raises = [s for s in chk.ast.body if isinstance(s, ast.Raise)]
                is_fnf = bool(raises) and raises[0].exc is not None and ast.unparse(raises[0].exc).startswith("FileNotFoundError")
                ok = is_fnf and g.dominates(chk, load) and g.dominates(load, inst)
                why = "missing config.yaml raises FileNotFoundError before OmegaConf.load / instantiate" if ok else why
            col.add("R10.3", construct, file, (chk.lineno if chk else fn.lineno), ok, why, text="missing-config failure")
            # (f) returns the instantiated solver after restoring
            rets = [n for n in nodes if isinstance(n.ast, ast.Return)]
            ok = len(rets) == 1 and isinstance(rets[0].ast.value, ast.Name) and rets[0].ast.value.id == solver_expr \
                and apply_ is not None and g.dominates(apply_, rets[0])
            col.add("R10.3", construct, file, (rets[0].lineno if rets else fn.lineno), ok,
                    "returns the solver only after its state was restored" if ok else "return is not dominated by the state restoration",
                    text="return after restore")
            # (g) the config that is instantiated is the loaded one
            ok = False
            if inst is not None and load is not None and isinstance(load.ast, ast.Assign) and isinstance(load.ast.targets[0], ast.Name):
                cname = load.ast.targets[0].id
                icall = [c for c in _stmt_calls(inst) if isinstance(c.func, ast.Name) and c.func.id == "instantiate"][0]
                ok = len(icall.args) == 1 and isinstance(icall.args[0], ast.Name) and icall.args[0].id == cname
                pcall = [c for c in _stmt_calls(load) if ast.unparse(c.func) == "OmegaConf.load"][0]
                # the loaded path is the one whose existence was tested
                tested = [x.func.value for x in ast.walk(chk.ast.test) if isinstance(x, ast.Call) and isinstance(x.func, ast.Attribute) and x.func.attr == "exists"] if chk is not None else []
                ok = ok and len(pcall.args) == 1 and len(tested) == 1 and ast.unparse(pcall.args[0]) == ast.unparse(tested[0])
                pdefs = [s_ for s_ in ast.walk(fn) if isinstance(s_, ast.Assign) and len(s_.targets) == 1 and ast.unparse(s_.targets[0]) == ast.unparse(pcall.args[0])] if ok else []
                ok = ok and len(pdefs) == 1 and isinstance(pdefs[0].value, ast.BinOp) and isinstance(pdefs[0].value.op, ast.Div) \
                    and isinstance(pdefs[0].value.right, ast.Constant) and pdefs[0].value.right.value == "config.yaml"
            col.add("R10.3", construct, file, (inst.lineno if inst else fn.lineno), ok,
                    "instantiate() is applied to the configuration loaded from config.yaml" if ok else
                    "instantiate() is not applied to the loaded configuration", text="instantiate loaded config")


# ------------------------------------------------------------------- R10.4
def _overrides(ctx, col):
    cm = ctx.ct.get("CheckpointMixin")
    owner, fn = ctx.ct.require(cm, "restore")
    file = owner.module.relpath
    params = [a.arg for a in fn.args.args]
    parents = parents_of(fn)
    cfgvar = _var_assigned_from(fn, lambda c: ast.unparse(c.func) == "OmegaConf.load")
    solvar = _var_assigned_from(fn, lambda c: isinstance(c.func, ast.Name) and c.func.id == "instantiate")
    if cfgvar is None or solvar is None:
        raise AnalysisError("anchor vanished: restore() does not bind OmegaConf.load(...) / instantiate(...) to locals")
    for p, key in OVERRIDES.items():
        if p not in params:
            col.add("R10.4", "CheckpointMixin.restore", file, fn.lineno, False, f"override parameter `{p}` vanished", text=f"override {p}")
            continue
        # assignments config.<x> = <expr mentioning p>
        hits = []
        for s in ast.walk(fn):
            if isinstance(s, ast.Assign) and len(s.targets) == 1 and isinstance(s.targets[0], ast.Attribute) \
                    and isinstance(s.targets[0].value, ast.Name) and s.targets[0].value.id == cfgvar:
                if any(isinstance(x, ast.Name) and x.id == p for x in ast.walk(s.value)):
                    hits.append(s)
        ok = len(hits) == 1 and hits[0].targets[0].attr == key
        why = f"`{p}` overrides config.{key}" if ok else (
            f"`{p}` is assigned to config.{hits[0].targets[0].attr}" if hits else f"`{p}` is never written to the configuration")
        if ok:
            par = parents.get(id(hits[0]))
            guarded = isinstance(par, ast.If) and ast.unparse(par.test) == f"{p} is not None" and hits[0] in par.body
            if not guarded:
                ok, why = False, f"override of config.{key} is not guarded by `{p} is not None`"
        col.add("R10.4", "CheckpointMixin.restore", file, (hits[0].lineno if hits else fn.lineno), ok, why, text=f"override {p}")
        # no other writer of that config key in restore
        others = [s for s in ast.walk(fn) if isinstance(s, ast.Assign) and len(s.targets) == 1 and isinstance(s.targets[0], ast.Attribute)
                  and isinstance(s.targets[0].value, ast.Name) and s.targets[0].value.id == cfgvar and s.targets[0].attr == key and s not in hits]
        if others:
            col.add("R10.4", "CheckpointMixin.restore", file, others[0].lineno, False,
                    f"config.{key} is also written by `{norm_text(others[0])}`", text=f"second writer of {key}")
    # the four keys exist in every solver config
    for cls in ctx.solvers():
        ca = ctx.ct.class_attr(cls, "Config")
        cfg = ctx.ct.class_of_dotted(ctx.ct.resolve_name(ca[0].module, ast.unparse(ca[1]))) if ca else None
        if cfg is None:
            raise AnalysisError(f"anchor vanished: {cls.name}.Config")
        fields = ctx.ct.all_fields(cfg)
        missing = [k for k in OVERRIDES.values() if k not in fields]
        col.add("R10.4", cfg.name, cfg.module.relpath, cfg.node.lineno, not missing,
                "has all four checkpoint keys" if not missing else f"lacks checkpoint keys {missing}", text="checkpoint keys present")
    # no write of restored state happens between instantiate and the restore other than via the protocol:
    g = cfg_of(fn)
    bad = [s for s in ast.walk(fn) if isinstance(s, ast.Assign) and any(
        isinstance(t, ast.Attribute) and isinstance(t.value, ast.Name) and t.value.id == solvar for t in s.targets)]
    col.add("R10.4", "CheckpointMixin.restore", file, (bad[0].lineno if bad else fn.lineno), not bad,
            "restore() assigns no solver attribute itself (state comes only from _restore_state_from_checkpoint)" if not bad else
            f"restore() writes solver attributes directly: {norm_text(bad[0])}", text="no direct solver writes")


# ------------------------------------------------------------------- R10.5
def _problem_config(ctx, col):
    sol = ctx.ct.get("Solver")
    owner, fn = ctx.ct.require(sol, "_setup_config")
    hits = [s for s in ast.walk(fn) if isinstance(s, ast.Assign) and len(s.targets) == 1
            and ast.unparse(s.targets[0]) == "self.config.problem"]
    ok = len(hits) == 1 and ast.unparse(hits[0].value) == "problem.config"
    why = "self.config.problem = problem.config when a problem instance is supplied" if ok else \
        "the problem's configuration is not recorded in self.config.problem"
    if ok:
        from .common import guard_conditions
        chain = [ast.unparse(c) for c in guard_conditions(fn, hits[0])]
        ok = "problem is not None" in chain
        if not ok:
            why = f"recording of problem.config is not under `problem is not None` (guards: {chain})"
    col.add("R10.5", "Solver._setup_config", owner.module.relpath, (hits[0].lineno if hits else fn.lineno), ok, why,
            text="self.config.problem = problem.config")


# ------------------------------------------------------------------- R10.8
TEMPLATE_LEAF_EXEMPT = {
    ("SemiAsyncValueIteration", "batch_order"): "its only non-None writer, _reorder_batches, is dead code (C06 R6.6 keeps it so)",
}


def _template_leaves(ctx, col):
    from ..effects import is_self_attr
    from .c09 import restore_paths, save_paths

    for cls in ctx.solvers():
        _so, _sfn, spaths, _c = save_paths(ctx, cls)
        _ro, rfn, _rp, _x = restore_paths(ctx, cls)
        for attr in sorted(a for a in spaths if not a.startswith("<")):
            # the initialiser that decides what a fresh solver holds: the most-derived one that writes the attribute
            first = None
            for owner in ctx.ct.mro(cls):
                fn = owner.methods.get("_initialize_solver_state_elements")
                ws = [st for st in ast.walk(fn) if isinstance(st, ast.Assign) and any(is_self_attr(t, attr) for t in st.targets)] if fn else []
                if ws:
                    first = (owner, fn, ws[-1])
                    break
            if first is None:
                continue
            owner0, fn0, st0 = first
            fresh_none = isinstance(st0.value, ast.Constant) and st0.value.value is None
            later = None
            for owner in ctx.ct.mro(cls):
                for fn in owner.methods.values():
                    if fn is rfn or fn.name in ("_restore_state_from_checkpoint", "_initialize_solver_state_elements", "__init__"):
                        continue
                    for st in ast.walk(fn):
                        if isinstance(st, ast.Assign) and any(is_self_attr(t, attr) for t in st.targets) \
                                and not (isinstance(st.value, ast.Constant) and st.value.value is None):
                            later = later or (owner, fn, st)
            ex = TEMPLATE_LEAF_EXEMPT.get((cls.name, attr))
            bad = fresh_none and later is not None and ex is None
            col.add("R10.8", f"{cls.name}.{attr}", owner0.module.relpath, st0.lineno, not bad,
                    f"`{attr}` has a template leaf on a fresh solver" if not fresh_none else
                    (f"`{attr}` is None on a fresh solver and stays None in every checkpoint" if later is None else
                     f"exempt: {ex}" if ex else
                     f"`{attr}` is None on a fresh solver but {later[0].name}.{later[1].name} sets it (`{norm_text(later[2])[:60]}`) and solver_state "
                     "saves it: restore() / load_checkpoint() use the fresh solver's state as the StandardRestore template, Orbax skips the None "
                     "leaf, and the stored value comes back as None"),
                    text=f"template leaf {attr}")
